"""C13 generators: union-free / Optional-only annotations, class environments whose defaults conform to
their annotations (or deliberately do not), VALID values chosen adversarially for the text decoders, an
independent validity check (exact classes at every position) and deep equality with classes.

Nothing here goes through the model or the mirror (harness/coremodel.py)."""
from __future__ import annotations

import collections
import copy
import datetime
import decimal
import fractions
import itertools
import math
import pathlib
import uuid

import re

import coregen
import impl
import universe
from lib import coq_list, coq_nat, coq_opt
from universe import HASHABLE_LEAVES, LEAVES, MAP_KINDS, MAP_PY, SEQ_KINDS, SEQ_PY, cname

UTC = datetime.timezone.utc
TZ530 = datetime.timezone(datetime.timedelta(hours=5, minutes=30))
TZM8 = datetime.timezone(datetime.timedelta(hours=-8))

# valid values, adversarial for serdes.load / strload / dateparse / the pairs detection of iteritems
LEAF_VALUES = {
    "int": [0, 1, -1, 7, 2 ** 70, -(2 ** 63), 10 ** 30],
    "bool": [True, False],
    "float": [0.5, -0.0, 1e300, 3.14, 5e-324, float("inf"), -1.5, 2.0],
    "str": ["", "a", "ab", "null", "1", "[1]", "2020-01-01", "None", "true", "héllo", '{"a": 1}', "x y",
            "1,2", "12:00", "P1D", "1e5", " 1", "0x10", "(1, 2)", '"q"', "NaN", "Infinity", "xy", "kids", "val",
            "[]", "{}", "\x00", "1.5", "-0", "2020-01-02T03:04:05+00:00", "[[1, 2]]", "{'a': 1}", "False",
            "b'x'", "1_0", "ab,cd"],
    "bytes": [b"", b"ab", b"\xff\x00", b"null", b"[1]", b"1", b'{"a": 1}', b"xy"],
    "Decimal": [decimal.Decimal("1.5"), decimal.Decimal("1E+3"), decimal.Decimal("-0"), decimal.Decimal("0E-10"),
                decimal.Decimal("Infinity"), decimal.Decimal("12345678901234567890.123456789")],
    "Fraction": [fractions.Fraction(1, 3), fractions.Fraction(-7, 2), fractions.Fraction(4), fractions.Fraction(0)],
    "UUID": [uuid.UUID(int=5), uuid.UUID("12345678-1234-5678-1234-567812345678"), uuid.UUID(int=0)],
    "Path": [pathlib.PurePosixPath("a/b"), pathlib.PurePosixPath("/x"), pathlib.PurePosixPath("1"),
             pathlib.PurePosixPath("null"), pathlib.PurePosixPath("[1]"), pathlib.PurePosixPath("ab"),
             pathlib.PurePosixPath("2020-01-01")],
    "date": [datetime.date(2020, 1, 2), datetime.date(1, 1, 1), datetime.date(9999, 12, 31), datetime.date(2020, 2, 29),
             datetime.date(1970, 1, 1)],
    "datetime": [datetime.datetime(2020, 1, 2, 3, 4, 5, 6, tzinfo=UTC),
                 datetime.datetime(1999, 12, 31, 23, 59, 59, tzinfo=TZ530),
                 datetime.datetime(2021, 11, 7, 1, 30, tzinfo=TZM8, fold=1),
                 datetime.datetime(1970, 1, 1, tzinfo=UTC),
                 datetime.datetime(1, 1, 1, tzinfo=UTC),
                 datetime.datetime(2020, 1, 2, 3, 4, 5)],
    "time": [datetime.time(3, 4, 5, tzinfo=UTC), datetime.time(23, 59, 59, 999999, tzinfo=UTC),
             datetime.time(3, 4, 5, tzinfo=TZ530), datetime.time(0, 0, tzinfo=TZM8), datetime.time(12, 0)],
    "timedelta": [datetime.timedelta(seconds=5), datetime.timedelta(days=2, seconds=3, microseconds=4),
                  datetime.timedelta(hours=1), datetime.timedelta(days=-1, seconds=3), datetime.timedelta(0),
                  datetime.timedelta(days=999999999), datetime.timedelta(microseconds=1), datetime.timedelta(days=14)],
    "Any": [1, "x", None, [1, "a"], {"k": 1.5}, "null", "1", ("ab", 1), [("a", 1)]],
    "list": [[1, "a"], [], [[1], {"a": 2}], ["ab", "cd"], [(1, 2)], ["1"], ["null"], [[1, 2], [3, 4]]],
    "dict": [{"a": 1}, {}, {"k": [1, 2]}, {"1": "null"}, {1: 2}, {"b": 1, "a": 2}],
}
NAN_LEAF_VALUES = {"float": [float("nan")], "Decimal": [decimal.Decimal("NaN")]}   # leaf law only (nan != nan)

ENUMS = {
    "EnA": ("enum", [("RED", "1"), ("BLUE", "2")]),
    "EnS": ("enum", [("ONE", "'1'"), ("X", "'x'"), ("NUL", "'null'"), ("AB", "'ab'"), ("LST", "'[1]'")], "str, enum.Enum"),
    "EnI": ("enum", [("LO", "0"), ("HI", "9")], "enum.IntEnum"),
    "EnT": ("enum", [("T1", "'1'"), ("TD", "'2020-01-01'"), ("TN", "None"), ("TF", "1.5")]),
}
LITERALS = [["1", "'a'", "'b'"], ["'1'", "'null'", "None"], ["'ab'", "True", "2"], ["b'x'", "'[1]'"]]
FIELD_NAMES = coregen.FIELD_NAMES


# ----------------------------------------------------------------------------------
# types: unions only as Optional (three spellings, None first or last)
# ----------------------------------------------------------------------------------

def gen_leaf(rng, env, hashable=False):
    names = list(HASHABLE_LEAVES if hashable else LEAF_VALUES)
    extra = [n for n, d in env["defs"].items() if d[0] in ("enum", "literal")]
    if extra and rng.random() < 0.3:
        return ("leaf", rng.choice(extra))
    return ("leaf", rng.choice(names))


def optional(rng, m):
    if m[0] in ("union", "none") or (m[0] == "leaf" and m[1] == "Any"):
        return m
    sp = rng.choice(["Optional", "|", "|", "Union", "Union"])
    if sp == "Optional" or rng.random() < 0.5:
        return ("union", sp, [m, ("none",)])
    return ("union", sp, [("none",), m])


def gen_ty(rng, env, depth, hashable=False, classes=None, wrap=0.15, opt=0.2):
    wid = env.setdefault("wid", itertools.count(1))
    classes = classes if classes is not None else [n for n, d in env["defs"].items() if d[0] in ("class", "alias")]
    if wrap and rng.random() < wrap and not hashable:
        inner = gen_ty(rng, env, depth, hashable, classes, wrap / 2, opt)
        w = rng.choice(["newtype", "alias", "final"])
        if w == "final" or inner[0] == "union":
            return inner
        return (w, next(wid), inner)
    if opt and not hashable and rng.random() < opt:
        return optional(rng, gen_ty(rng, env, depth, False, classes, 0, 0))
    if depth <= 0 or rng.random() < 0.25:
        if classes and rng.random() < 0.4 and not hashable:
            return ("name", rng.choice(classes))
        return gen_leaf(rng, env, hashable)
    r = rng.random()
    sub = lambda h=False: gen_ty(rng, env, depth - 1, h, classes, wrap, 0 if h else opt)
    if hashable:
        if r < 0.5:
            return ("seq", "KTuple", rng.choice(SEQ_KINDS["KTuple"])[0], sub(True))
        if r < 0.75:
            return ("seq", "KFrozenset", rng.choice(SEQ_KINDS["KFrozenset"])[0], sub(True))
        return ("tuple", rng.choice(["tuple[{}]", "typing.Tuple[{}]"]), [sub(True) for _ in range(rng.randint(1, 3))])
    if r < 0.4:
        kind = rng.choice(["KList", "KList", "KTuple", "KSet", "KFrozenset", "KDeque"])
        return ("seq", kind, rng.choice(SEQ_KINDS[kind])[0], sub(kind in ("KSet", "KFrozenset")))
    if r < 0.65:
        kind = rng.choice(["KDict", "KDict", "KOrderedDict"])
        kt = ("leaf", "str") if rng.random() < 0.5 else gen_ty(rng, env, 1, True, classes, 0, 0)
        return ("map", kind, rng.choice(MAP_KINDS[kind])[0], kt, sub())
    if r < 0.85:
        return ("tuple", rng.choice(["tuple[{}]", "typing.Tuple[{}]"]), [sub() for _ in range(rng.randint(1, 4))])
    if classes:
        return ("name", rng.choice(classes))
    return gen_leaf(rng, env)


def literal_default(rng, t):
    """source of a default that conforms to t, or None when there is no immutable literal for it"""
    k = t[0]
    if k == "leaf" and t[1] in LEAVES:
        key = t[1]
        if key in ("int", "bool", "float", "str", "bytes"):
            v = rng.choice([x for x in LEAF_VALUES[key] if not (isinstance(x, float) and math.isinf(x))])
            return repr(v)
        return {"Decimal": "decimal.Decimal('1.5')", "Fraction": "fractions.Fraction(1, 3)",
                "UUID": "uuid.UUID(int=5)", "Path": "pathlib.PurePosixPath('1')",
                "date": "datetime.date(2020, 1, 2)",
                "datetime": "datetime.datetime(2020, 1, 2, 3, 4, 5, tzinfo=datetime.timezone.utc)",
                "time": "datetime.time(3, 4, 5, tzinfo=datetime.timezone.utc)",
                "timedelta": "datetime.timedelta(seconds=5)", "Any": "None"}.get(key)
    if k == "union":
        return "None"
    if k == "seq" and t[1] == "KTuple":
        return "()"
    if k == "seq" and t[1] == "KFrozenset":
        return "frozenset()"
    if k in ("newtype", "alias"):
        return literal_default(rng, t[2])
    if k == "final":
        return literal_default(rng, t[1])
    return None


def gen_env(rng, ncls=3, cyclic=False, depth=2, bad_defaults=False, derive=None):
    """like coregen.gen_env, unions only Optional.  Defaults conform to their annotation unless
    `bad_defaults` (then some non-Optional fields get `= None`).
    derive: None (every class is written directly, the round-1 stream, same random draws) or a callable
    flavour -> derivation kind (see DERIVATIONS): the class is then DEFINED by that derivation (round 3)."""
    env = {"module": coregen.new_module_name("c13"), "defs": {}, "bad_defaults": bad_defaults}
    if derive is not None:
        env.update({"derive": {}, "required": {}, "pairish": True})
    defs = env["defs"]
    for name, d in ENUMS.items():
        if rng.random() < 0.6:
            defs[name] = d
    if rng.random() < 0.6:
        defs["Lit"] = ("literal", rng.choice(LITERALS))
    names = list(range(ncls))
    for n in names:
        usable = [m for m in names if m < n]
        flavour = rng.choice(["dataclass", "dataclass", "namedtuple", "typeddict", "plain"])
        opts = ""
        if flavour == "dataclass":
            opts = rng.choice(["", "", "frozen=True", "slots=True", "kw_only=True"])
        elif flavour == "typeddict":
            opts = rng.choice(["", "", "total=False"])
        nf = rng.randint(1 if flavour == "namedtuple" else 0, 4)
        if opts == "slots=True":
            nf = max(nf, 1)
        kind = derive(flavour) if derive is not None else "direct"
        fields, have_default = [], False
        for fn in rng.sample(FIELD_NAMES, nf):
            t = gen_ty(rng, env, depth, classes=usable, wrap=0.1)
            if cyclic and rng.random() < 0.5:
                tgt = rng.choice(names)
                inner = ("name", tgt)
                edge = rng.choice(["opt", "list", "dict", "tuple", "bar", "nonefirst"])
                t = {"opt": ("union", "Optional", [inner, ("none",)]),
                     "bar": ("union", "|", [inner, ("none",)]),
                     "nonefirst": ("union", "Union", [("none",), inner]),
                     "list": ("seq", "KList", "list[{}]", inner),
                     "dict": ("map", "KDict", "dict[{}, {}]", ("leaf", "str"), inner),
                     "tuple": ("seq", "KTuple", "tuple[{}, ...]", inner)}[edge]
            default = None
            if flavour != "typeddict" and (have_default or rng.random() < 0.35):
                default = literal_default(rng, t)
                if bad_defaults and t[0] != "union" and not (t[0] == "leaf" and t[1] == "Any") and rng.random() < 0.6:
                    default = "None"                      # does not conform: `a: int = None`
                if default is None:
                    if t[0] in ("newtype", "alias", "final") or (t[0] == "leaf" and t[1] == "Any"):
                        t = ("leaf", "int")
                        default = "7"
                    else:
                        t = optional(rng, t)
                        default = "None"
                have_default = True
            if rng.random() < 0.1 and flavour in ("dataclass", "plain"):
                t = ("final", t)
            if kind in UNTYPED_KINDS:
                # collections.namedtuple declares no annotations: typelib reads every field as typing.Any
                t = ("leaf", "Any")
                if default is not None:
                    default = rng.choice(["None", "'ab'", "(1, 2)", "7", "'null'"])
            fields.append((fn, t, default))
        defs[n] = ("class", flavour, opts, fields)
        if derive is not None:
            set_derivation(rng, env, n, kind)
    if rng.random() < 0.4 and ncls:
        defs[ncls] = ("alias", ("seq", "KList", "list[{}]", ("name", rng.choice(names))))
    return env


# ----------------------------------------------------------------------------------
# valid values
# ----------------------------------------------------------------------------------

def leaf_pool(key, env, mod):
    if key in LEAF_VALUES:
        return LEAF_VALUES[key]
    d = env["defs"][key]
    if d[0] == "enum":
        return list(getattr(mod, key))
    if d[0] == "literal":
        return [eval(x) for x in d[1]]
    raise KeyError(key)


def gen_value(rng, t, env, mod, depth=3, size=3):
    """a valid instance of t made of exactly the annotated classes"""
    k = t[0]
    if k == "leaf":
        return copy.deepcopy(rng.choice(leaf_pool(t[1], env, mod)))
    if k == "none":
        return None
    if k == "seq":
        n = rng.randint(0, size) if depth > 0 else 0
        vals = [gen_value(rng, t[3], env, mod, depth - 1, size) for _ in range(n)]
        if vals and t[3] == ("leaf", "str") and rng.random() < 0.4:
            vals[0] = rng.choice(["ab", "xy", "[]", "{}", "-0"])        # a 2-character first member
        if t[1] in ("KSet", "KFrozenset"):
            vals = coregen._dedupe_eq(vals)
        return SEQ_PY[t[1]](vals)
    if k == "map":
        n = rng.randint(0, size) if depth > 0 else 0
        pairs = []
        for _ in range(n):
            kk = gen_value(rng, t[3], env, mod, depth - 1, size)
            if any(kk == p[0] for p in pairs):
                continue
            pairs.append((kk, gen_value(rng, t[4], env, mod, depth - 1, size)))
        return MAP_PY[t[1]](pairs)
    if k == "tuple":
        return tuple(gen_value(rng, x, env, mod, depth - 1, size) for x in t[2])
    if k == "union":
        ms = t[2]
        if depth <= 0 and ("none",) in ms:
            return None
        return gen_value(rng, rng.choice(ms), env, mod, depth - 1, size)
    if k in ("name", "ref", "aliasstr"):
        n = t[1] if k != "aliasstr" else t[2]
        d = env["defs"][n]
        if d[0] == "alias":
            return gen_value(rng, d[2] if isinstance(d[1], str) else d[1], env, mod, depth, size)
        cls = getattr(mod, cname(n))
        kw = {}
        req = required_of(env, n)
        for fn, ft, default in d[3]:
            if default is not None and (depth <= 0 or rng.random() < 0.3) and not env.get("bad_defaults"):
                continue      # (a nonconforming default would make the value invalid)
            if d[1] == "typeddict" and fn not in req and rng.random() < 0.3:
                continue
            kw[fn] = gen_value(rng, ft, env, mod, depth - 1, size)
        if env.get("pairish") and d[3] and rng.random() < 0.6:
            make_pairish(rng, d[3], kw, env, mod, depth, size)
        if d[1] == "typeddict":
            items = list(kw.items())
            rng.shuffle(items)                                     # any key order is a valid TypedDict
            kw = dict(items)
        return cls(**kw)
    if k in ("newtype", "alias"):
        return gen_value(rng, t[2], env, mod, depth, size)
    if k in ("final", "classvar"):
        return gen_value(rng, t[1], env, mod, depth, size)
    raise ValueError(t)


# ----------------------------------------------------------------------------------
# independent reading of "valid": exactly the annotated class at every position
# ----------------------------------------------------------------------------------

def leaf_valid(key, v, env, mod) -> bool:
    if key == "Any":
        return True
    if key in LEAVES:
        return type(v) is LEAVES[key][1]
    d = env["defs"][key]
    if d[0] == "enum":
        return type(v) is getattr(mod, key)
    if d[0] == "literal":
        return any(type(v) is type(a) and v == a for a in (eval(x) for x in d[1]))
    return False


class Validity:
    """independent reading of Model/CoreValid.v `valid`: exact class at every position, fixed tuples of exactly
       the annotated arity, TypedDict instances with declared keys only and every required key present.
       on_leaf        callback(key, v, ok) for every leaf position visited (never short-circuited)
       default_ok     a class field holding (a value equal to) its declared default counts as valid"""

    def __init__(self, env, mod, strict_tuple=True, total=True, on_leaf=None, default_ok=False):
        self.env, self.mod = env, mod
        self.strict_tuple, self.total, self.on_leaf, self.default_ok = strict_tuple, total, on_leaf, default_ok

    def __call__(self, t, v, depth=0) -> bool:
        if depth > 80:
            return False
        k = t[0]
        go = lambda tt, vv: self(tt, vv, depth + 1)
        if k == "leaf":
            ok = leaf_valid(t[1], v, self.env, self.mod)
            if self.on_leaf:
                self.on_leaf(t[1], v, ok)
            return ok
        if k == "none":
            return v is None
        if k == "seq":
            if type(v) is not SEQ_PY[t[1]]:
                return False
            return all([go(t[3], x) for x in v])
        if k == "map":
            if type(v) is not MAP_PY[t[1]]:
                return False
            return all([go(t[3], a) & go(t[4], b) for a, b in v.items()])
        if k == "tuple":
            if type(v) is not tuple or len(v) > len(t[2]) or (self.strict_tuple and len(v) != len(t[2])):
                return False
            return all([go(tt, x) for tt, x in zip(t[2], v)])
        if k == "union":
            return any([go(m, v) for m in t[2]])
        if k in ("name", "ref", "aliasstr"):
            n = t[1] if k != "aliasstr" else t[2]
            d = self.env["defs"][n]
            if d[0] == "alias":
                return go(d[2] if isinstance(d[1], str) else d[1], v)
            cls = getattr(self.mod, cname(n))
            fields = d[3]
            if d[1] == "typeddict":
                if type(v) is not dict:
                    return False
                ftys = {f: ft for f, ft, _ in fields}
                if not all(type(key) is str and key in ftys for key in v):
                    return False
                if self.total and not required_of(self.env, n) <= set(v):
                    return False
                return all([go(ftys[key], x) for key, x in v.items()])
            if type(v) is not cls:
                return False
            oks = []
            for i, (f, ft, default) in enumerate(fields):
                if d[1] == "namedtuple":
                    x = v[i]
                elif hasattr(v, f):
                    x = getattr(v, f)
                else:
                    return False
                ok = go(ft, x)
                if not ok and self.default_ok and default is not None:
                    ok = same(x, eval(default, self.mod.__dict__))
                oks.append(ok)
            return all(oks)
        if k in ("newtype", "alias"):
            return go(t[2], v)
        if k in ("final", "classvar"):
            return go(t[1], v)
        raise ValueError(t)


def defaults_conform(env, mod) -> list:
    """[(class, field, default source)] for every default that is not a valid instance of its annotation"""
    bad = []
    val = Validity(env, mod)
    for n, d in env["defs"].items():
        if d[0] != "class":
            continue
        for f, ft, default in d[3]:
            if default is None:
                continue
            if not val(ft, eval(default, mod.__dict__)):
                bad.append((n, f, default))
    return bad


def optional_only(t, env, seen=None) -> bool:
    """T is union-free or only Optional, through the environment"""
    seen = seen if seen is not None else set()
    k = t[0]
    if k in ("leaf", "none"):
        return True
    if k == "seq":
        return optional_only(t[3], env, seen)
    if k == "map":
        return optional_only(t[3], env, seen) and optional_only(t[4], env, seen)
    if k == "tuple":
        return all(optional_only(x, env, seen) for x in t[2])
    if k == "union":
        ms = t[2]
        if len(ms) != 2 or ("none",) not in ms:
            return False
        return all(optional_only(m, env, seen) for m in ms)
    if k in ("name", "ref", "aliasstr"):
        n = t[1] if k != "aliasstr" else t[2]
        if n in seen:
            return True
        seen.add(n)
        d = env["defs"][n]
        if d[0] == "alias":
            return optional_only(d[2] if isinstance(d[1], str) else d[1], env, seen)
        return all(optional_only(ft, env, seen) for _, ft, _ in d[3])
    if k in ("newtype", "alias"):
        return optional_only(t[2], env, seen)
    if k in ("final", "classvar"):
        return optional_only(t[1], env, seen)
    raise ValueError(t)


# ----------------------------------------------------------------------------------
# equality with classes ("same classes, same contents")
# ----------------------------------------------------------------------------------

def same(a, b) -> bool:
    """deep equality with the same runtime class at every position; dict key order matters; NaN is NaN"""
    import dataclasses
    if a is b:
        return True
    if type(a) is not type(b):
        return False
    if isinstance(a, dict):
        return len(a) == len(b) and all(same(k1, k2) and same(a[k1], b[k2]) for k1, k2 in zip(a.keys(), b.keys()))
    if isinstance(a, (list, tuple, collections.deque)):
        if len(a) != len(b):
            return False
        if hasattr(a, "_fields"):
            return all(same(x, y) for x, y in zip(a, b))
        return all(same(x, y) for x, y in zip(a, b))
    if isinstance(a, (set, frozenset)):
        return len(a) == len(b) and all(any(same(x, y) for y in b) for x in a)
    if dataclasses.is_dataclass(a):
        return all(same(getattr(a, f.name, _MISSING), getattr(b, f.name, _MISSING)) for f in dataclasses.fields(a))
    if type(a).__module__.startswith("verif_core") and hasattr(a, "__dict__") and not _slot_names(type(a)):
        return list(vars(a)) == list(vars(b)) and all(same(vars(a)[k], vars(b)[k]) for k in vars(a))
    if type(a).__module__.startswith("verif_core") and _slot_names(type(a)):
        sa, sb = _state(a), _state(b)                 # a __slots__ class (with or without an instance __dict__)
        return [k for k, _ in sa] == [k for k, _ in sb] and all(same(x[1], y[1]) for x, y in zip(sa, sb))
    if isinstance(a, float):
        return (a != a and b != b) or (a == b and math.copysign(1, a) == math.copysign(1, b))
    if isinstance(a, decimal.Decimal):
        return a.as_tuple() == b.as_tuple()
    if isinstance(a, datetime.datetime):
        if (a.tzinfo is None) != (b.tzinfo is None):
            return False
        return a == b and a.utcoffset() == b.utcoffset() and a.fold == b.fold
    if isinstance(a, datetime.time):
        if (a.tzinfo is None) != (b.tzinfo is None):
            return False
        return a.replace(tzinfo=None) == b.replace(tzinfo=None) and a.utcoffset() == b.utcoffset()
    try:
        return bool(a == b)
    except Exception:
        return False


_MISSING = object()


def _slot_names(cls):
    out = []
    for k in reversed(cls.__mro__):
        sl = k.__dict__.get("__slots__", ())
        out += [x for x in ((sl,) if isinstance(sl, str) else sl) if x not in ("__dict__", "__weakref__")]
    return out


def _state(o):
    st = [(k, getattr(o, k)) for k in _slot_names(type(o)) if hasattr(o, k)]
    return st + list(getattr(o, "__dict__", {}).items())


# ==================================================================================
# Round 3: the class-DERIVATION stratum.
#
# The core model describes a structured class by (flavour, fields in order, defaults, required keys): it does not
# care how Python arrived at that class.  The property quantifies over "every supported T": a class that typelib treats
# as a named tuple / dataclass / TypedDict / attribute class with those fields is the same T for the statement whether
# it was written directly or DERIVED.  The round-1 generator only ever wrote classes directly
# (`class N(typing.NamedTuple): a: str`), so every code path that looks at HOW a class came about (own
# `__annotations__`, `_fields`, `__slots__`, `__required_keys__`, MRO-merged hints) was exercised on one shape only.
# Here the description of a class stays what it was (the EFFECTIVE fields, in the order typelib reads them) and
# `env["derive"][n]` says by which derivation the Python class N<n> is defined; `derive_source` rewrites the class
# block of `universe.module_source` accordingly (the helper base classes are N<n>_b / N<n>_c / N<n>_m; values are
# always instances of exactly N<n>).
#
# Inside the quantifier (model can express them: same classdef) -> correspondence AND oracle:
#   named tuple   nt-sub            class N(B): __slots__ = ()            B a typing.NamedTuple with the fields
#                 nt-sub2           two such levels
#                 nt-coll           collections.namedtuple('N', names, defaults=...)       (every field reads as Any)
#                 nt-coll-sub       class N(collections.namedtuple(...)): __slots__ = ()    (every field reads as Any)
#                 nt-coll-ann       class N(collections.namedtuple(...)): a: str; b: int    (the typed idiom before 3.6)
#   dataclass     dc-sub-plain      undecorated subclass of a dataclass, no new field
#                 dc-sub-slots      the same with __slots__ = ()
#                 dc-sub-dec        decorated subclass, no new field
#                 dc-sub-add        decorated subclass adding the fields k..
#                 dc-sub-override   decorated subclass re-declaring one field (the base says typing.Any)
#   TypedDict     td-sub-empty      class N(B): pass
#                 td-sub-add        subclass adding keys (same totality)
#                 td-mixed          subclass of the other totality: required keys = the total part  (`env["required"]`)
#                 td-multi          two bases (each with its own totality)
#                 td-sub-override   subclass re-declaring one key
#   plain class   pl-sub-empty      subclass inheriting the annotations and __init__
#                 pl-sub-add        subclass adding annotated attributes (own __init__)
#                 pl-sub-override   subclass re-annotating one attribute (base says typing.Any)
#                 pl-slots          annotated __slots__ class (DESIGN 3.1 lists it; never generated before)
#                 pl-slots-sub      subclass with __slots__ = () of one
#                 pl-slots-sub-dict subclass WITHOUT __slots__ of one (instances have an empty __dict__)
#                 pl-slots-add      subclass adding slots
#                 pl-init-slots     __slots__ class WITHOUT class-level annotations, annotated __init__   (round 4)
#                 pl-init-vars      the same without __slots__ (fields are read off vars(instance))        (round 4)
#                 pl-init-slots-sub / pl-init-slots-add    subclass (__slots__ = () / more slots) of one   (round 4)
#   every flavour direct            written directly (control; with the adversarial first-field values of this stratum)
#
# Decided OUTSIDE the quantifier (not generated, not held to the statement):
#   * a NamedTuple subclass that declares NEW annotations (`class N(B): c: int = 5`): `c` is a class attribute, not a
#     tuple field; no instance "has" it, so there is no valid v "made of exactly the annotated classes".
#   * an undecorated dataclass subclass / a dataclass derived from an annotated plain class, where an annotation is
#     not a dataclass field: same reason (typelib reads the hint, `dataclasses.fields` does not list it).
#   * instances of the BASE given to the derived annotation or the reverse: not "exactly the annotated class".
#   * collections.namedtuple subclass annotating only SOME fields: typelib reads the annotated ones only; the
#     rest cannot be supplied to the constructor -- an unsupported T (C15's subject), not a pass-through case.
#   * Generic / multiple-inheritance dataclasses, InitVar, field(init=False), __post_init__: outside U (notes, round 1).
# ==================================================================================

DERIVATIONS = {
    "namedtuple": ["direct", "nt-sub", "nt-sub2", "nt-coll", "nt-coll-sub", "nt-coll-ann"],
    "dataclass": ["direct", "dc-sub-plain", "dc-sub-slots", "dc-sub-dec", "dc-sub-add", "dc-sub-override"],
    "typeddict": ["direct", "td-sub-empty", "td-sub-add", "td-mixed", "td-multi", "td-sub-override"],
    "plain": ["direct", "pl-sub-empty", "pl-sub-add", "pl-sub-override", "pl-slots", "pl-slots-sub",
              "pl-slots-sub-dict", "pl-slots-add",
              # round 4: NO class-level annotation; the hints come from the annotated __init__ (inspection's signature
              # fallback) and the field iterator falls through to its __slots__ / vars() branches
              "pl-init-slots", "pl-init-vars", "pl-init-slots-sub", "pl-init-slots-add"],
}
UNTYPED_KINDS = ("nt-coll", "nt-coll-sub")
ALL_KINDS = [(fl, k) for fl, ks in DERIVATIONS.items() for k in ks]


def kind_cycle(start=0):
    """flavour -> next derivation kind of that flavour, round robin (every kind comes up within a few classes)"""
    pos = {fl: start for fl in DERIVATIONS}

    def nxt(flavour):
        ks = DERIVATIONS[flavour]
        pos[flavour] += 1
        return ks[pos[flavour] % len(ks)]
    return nxt


def set_derivation(rng, env, n, kind):
    """record the derivation of class n: split point / overridden field / totalities, and the required keys"""
    d = env["defs"][n]
    fields = d[3]
    nf = len(fields)
    spec = {"kind": kind}
    if kind.endswith("-add") or kind in ("td-mixed", "td-multi"):
        spec["k"] = rng.randint(1, nf - 1) if nf >= 2 else rng.randint(0, nf)
    if kind.endswith("-override"):
        if nf == 0:
            spec["kind"] = kind = {"dc-sub-override": "dc-sub-dec", "td-sub-override": "td-sub-empty",
                                   "pl-sub-override": "pl-sub-empty"}[kind]
        else:
            spec["j"] = rng.randrange(nf)
    names = [f for f, _, _ in fields]
    if kind == "td-mixed":
        base_total = rng.random() < 0.5
        spec["totals"] = (base_total, not base_total)
    if kind == "td-multi":
        spec["totals"] = (rng.random() < 0.5, rng.random() < 0.5)
    if "totals" in spec:
        k = spec["k"]
        env["required"][n] = (names[:k] if spec["totals"][0] else []) + (names[k:] if spec["totals"][1] else [])
    env["derive"][n] = spec


def required_of(env, n) -> set:
    """names of the keys every instance of TypedDict n must have"""
    d = env["defs"][n]
    if d[1] != "typeddict":
        return set()
    if n in env.get("required", {}):
        return set(env["required"][n])
    return set() if d[2] == "total=False" else {f for f, _, _ in d[3]}


# ---------------------------------------------------------------------------------- source

def _block(lines, n):
    name = cname(n)
    for i, ln in enumerate(lines):
        if re.match(rf"class {name}[(:]", ln):
            start = i - 1 if i > 0 and lines[i - 1].startswith("@dataclasses.dataclass(") else i
            j = i + 1
            while j < len(lines) and lines[j].startswith("    "):
                j += 1
            return start, i, j
    raise KeyError(name)


def _fld(fname, ann, default):
    return f"    {fname}: {ann}" + (f" = {default}" if default is not None else "") + "\n"


def _plain(name, base, own, inherited, allf, slots=None, init=True, ann=True):
    """source of an attribute class: `own` fields annotated here, `inherited` come from `base`.
    Fields are (fname, annotation source, default source | None).  ann=False: no class-level annotation at all
    (the annotated __init__ is the only place that says what the attributes are)."""
    out = [f"class {name}{'(' + base + ')' if base else ''}:\n"]
    if slots is not None:
        out.append(f"    __slots__ = {tuple(slots)!r}\n")
    if ann:
        out += [f"    {f}: {a}\n" for f, a, _ in own]
    if init:
        params = ", ".join(f"{f}: {a}" + (f" = {dv}" if dv is not None else "") for f, a, dv in inherited + own)
        out.append(f"    def __init__(self{', ' if params else ''}{params}):\n")
        body = []
        if base and inherited:
            body.append(f"        super().__init__({', '.join(f for f, _, _ in inherited)})\n")
        body += [f"        self.{f} = {f}\n" for f, _, _ in own]
        out += body or ["        pass\n"]
    if not base:
        names = tuple(f for f, _, _ in allf)
        out.append(f"    def _verif_state(self):\n        return [(f, getattr(self, f)) for f in {names!r} if hasattr(self, f)]\n"
                   "    def __eq__(self, o):\n        return type(o) is type(self) and o._verif_state() == self._verif_state()\n"
                   "    __hash__ = None\n"
                   "    def __repr__(self):\n        return type(self).__name__ + '(' + repr(dict(self._verif_state())) + ')'\n")
    if len(out) == 1:
        out.append("    pass\n")
    return "".join(out)


def derive_source(src, env):
    """rewrite the class blocks written by universe.module_source according to env['derive']"""
    derive = env.get("derive") or {}
    lines = src.splitlines(keepends=True)
    for n, spec in derive.items():
        kind = spec["kind"]
        if kind == "direct":
            continue
        d = env["defs"][n]
        flavour, opts, fields = d[1], d[2], d[3]
        nf = len(fields)
        start, hdr, end = _block(lines, n)
        body = lines[hdr + 1:end]
        N, B, C, M = cname(n), cname(n) + "_b", cname(n) + "_c", cname(n) + "_m"
        # the annotation sources as module_source wrote them (quoted where the target is defined later)
        anns = []
        if flavour == "plain":
            flines, rest = body[:nf], [ln for ln in body if ln.startswith("    def __call__") or ln == "        return None\n"]
        elif nf:
            flines, rest = body[:nf], body[nf:]
        else:
            assert body[0] == "    pass\n", body
            flines, rest = [], body[1:]
        for (f, _, dv), ln in zip(fields, flines):
            pre, suf = f"    {f}: ", ((" = " + dv) if dv is not None and flavour != "plain" else "") + "\n"
            assert ln.startswith(pre) and ln.endswith(suf), (ln, pre, suf)
            anns.append(ln[len(pre):len(ln) - len(suf)])
        fs = [(f, a, dv) for (f, _, dv), a in zip(fields, anns)]
        k, j = spec.get("k", 0), spec.get("j")
        ovr = [(f, "typing.Any" if i == j else a, dv) for i, (f, a, dv) in enumerate(fs)]
        body_of = lambda ff: "".join(_fld(*x) for x in ff) or "    pass\n"
        call = "".join(rest)
        if flavour == "namedtuple":
            names = [f for f, _, _ in fs]
            dfl = [dv for _, _, dv in fs if dv is not None]
            nt = lambda nm: f"collections.namedtuple({nm!r}, {names!r}, defaults=[{', '.join(dfl)}])"
            meth = "    def label(self):\n        return len(self)\n"
            if kind == "nt-sub":
                new = f"class {B}(typing.NamedTuple):\n{body_of(fs)}class {N}({B}):\n    __slots__ = ()\n{meth}"
            elif kind == "nt-sub2":
                new = (f"class {B}(typing.NamedTuple):\n{body_of(fs)}class {M}({B}):\n    __slots__ = ()\n"
                       f"class {N}({M}):\n    __slots__ = ()\n{meth}")
            elif kind == "nt-coll":
                new = f"{N} = {nt(N)}\n"
            elif kind == "nt-coll-sub":
                new = f"class {N}({nt(B)}):\n    __slots__ = ()\n{meth}"
            elif kind == "nt-coll-ann":
                new = f"class {N}({nt(B)}):\n    __slots__ = ()\n" + "".join(_fld(f, a, None) for f, a, _ in fs) + meth
            else:
                raise ValueError(kind)
        elif flavour == "dataclass":
            dec = f"@dataclasses.dataclass({opts})\n"
            if kind == "dc-sub-plain":
                new = f"{dec}class {B}:\n{body_of(fs)}class {N}({B}):\n    pass\n{call}"
            elif kind == "dc-sub-slots":
                new = f"{dec}class {B}:\n{body_of(fs)}class {N}({B}):\n    __slots__ = ()\n{call}"
            elif kind == "dc-sub-dec":
                new = f"{dec}class {B}:\n{body_of(fs)}{dec}class {N}({B}):\n    pass\n{call}"
            elif kind == "dc-sub-add":
                new = f"{dec}class {B}:\n{body_of(fs[:k])}{dec}class {N}({B}):\n{body_of(fs[k:])}{call}"
            elif kind == "dc-sub-override":
                new = f"{dec}class {B}:\n{body_of(ovr)}{dec}class {N}({B}):\n{body_of([fs[j]])}{call}"
            else:
                raise ValueError(kind)
        elif flavour == "typeddict":
            tot = lambda total: "" if total else ", total=False"
            own = tot(opts != "total=False")
            if kind == "td-sub-empty":
                new = f"class {B}(typing.TypedDict{own}):\n{body_of(fs)}class {N}({B}):\n    pass\n"
            elif kind == "td-sub-add":
                new = f"class {B}(typing.TypedDict{own}):\n{body_of(fs[:k])}class {N}({B}{own}):\n{body_of(fs[k:])}"
            elif kind == "td-mixed":
                t1, t2 = spec["totals"]
                new = f"class {B}(typing.TypedDict{tot(t1)}):\n{body_of(fs[:k])}class {N}({B}{tot(t2)}):\n{body_of(fs[k:])}"
            elif kind == "td-multi":
                t1, t2 = spec["totals"]
                new = (f"class {B}(typing.TypedDict{tot(t1)}):\n{body_of(fs[:k])}"
                       f"class {C}(typing.TypedDict{tot(t2)}):\n{body_of(fs[k:])}class {N}({B}, {C}):\n    pass\n")
            elif kind == "td-sub-override":
                new = f"class {B}(typing.TypedDict{own}):\n{body_of(ovr)}class {N}({B}{own}):\n{body_of([fs[j]])}"
            else:
                raise ValueError(kind)
        else:
            names = [f for f, _, _ in fs]
            if kind == "pl-sub-empty":
                new = _plain(B, None, fs, [], fs) + _plain(N, B, [], fs, fs, init=False)
            elif kind == "pl-sub-add":
                new = _plain(B, None, fs[:k], [], fs) + _plain(N, B, fs[k:], fs[:k], fs)
            elif kind == "pl-sub-override":
                new = _plain(B, None, ovr, [], fs) + _plain(N, B, [fs[j]], [], fs, init=False)
            elif kind == "pl-slots":
                new = _plain(N, None, fs, [], fs, slots=names)
            elif kind == "pl-slots-sub":
                new = _plain(B, None, fs, [], fs, slots=names) + _plain(N, B, [], fs, fs, slots=(), init=False)
            elif kind == "pl-slots-sub-dict":
                new = _plain(B, None, fs, [], fs, slots=names) + _plain(N, B, [], fs, fs, init=False)
            elif kind == "pl-slots-add":
                new = _plain(B, None, fs[:k], [], fs, slots=names[:k]) + _plain(N, B, fs[k:], fs[:k], fs, slots=names[k:])
            elif kind == "pl-init-slots":
                new = _plain(N, None, fs, [], fs, slots=names, ann=False)
            elif kind == "pl-init-vars":
                new = _plain(N, None, fs, [], fs, ann=False)
            elif kind == "pl-init-slots-sub":
                new = _plain(B, None, fs, [], fs, slots=names, ann=False) + _plain(N, B, [], fs, fs, slots=(), init=False)
            elif kind == "pl-init-slots-add":
                new = (_plain(B, None, fs[:k], [], fs, slots=names[:k], ann=False)
                       + _plain(N, B, fs[k:], fs[:k], fs, slots=names[k:], ann=False))
            else:
                raise ValueError(kind)
            if call:                  # (universe gives every third class callable instances)
                new += f"{N}.__call__ = lambda self: None\n"
        lines[start:end] = [new]
        lines = "".join(lines).splitlines(keepends=True)
    return "".join(lines)


def materialise(env, roots):
    """universe.materialise with the class derivations applied to the source -> (module, [python types], source)"""
    import typing
    universe.canonicalise_unions(env, roots)
    for f in getattr(typing, "_cleanups", ()):
        f()
    src = derive_source(universe.module_source(env, roots, derive=False), env)      # C13 has its own 22 derivation kinds
    mod = impl.new_module(env["module"], src)
    tys = [eval(universe.src_ty(r, env), mod.__dict__) for r in roots]
    return mod, tys, src


class Registry13(universe.Registry):
    """the shared encoder; `crequired` of a TypedDict of mixed totality comes from env['required']"""

    def emit_env(self) -> str:
        if not self.env.get("required"):
            return super().emit_env()
        arms = []
        for n, d in self.env["defs"].items():
            if d[0] == "class":
                fl = {"dataclass": "FDataclass", "namedtuple": "FNamedTuple", "typeddict": "FTypedDict",
                      "plain": "FPlain"}[d[1]]
                fs = []
                for fname, t, default in d[3]:
                    dv = self.enc(self.default_value(n, fname)) if default is not None else None
                    fs.append("{| fname := %s; fty := %s; fdefault := %s |}" % (
                        coq_nat(self.fid(fname)), self.emit_ty(t), coq_opt(dv, "pv")))
                req = [coq_nat(self.fid(f)) for f, _, _ in d[3] if f in required_of(self.env, n)]
                arms.append(f"| {n} => Some (NClass {{| cflavour := {fl}; cfields := {coq_list(fs, 'field')}; "
                            f"crequired := {coq_list(req, 'nat')} |}})")
            elif d[0] == "alias":
                arms.append(f"| {n} => Some (NType {self.emit_ty(d[2] if isinstance(d[1], str) else d[1])})")
        return "(fun n : nat => match n with " + " ".join(arms) + " | _ => None end)"


# ---------------------------------------------------------------------------------- adversarial first fields

NOTHING = object()
ANY_PAIRISH = ["ab", ("a", 1), ["b", 2], [1, 2], {"a": 1, "b": 2}, b"xy", ("ab", "ba"), [("a", 1), ("b", 2)], "[]", "ba"]


def pairish_value(rng, t, env, mod, names, depth, size):
    """a valid value of t that is a collection of exactly two members (what `_is_iterable_of_pairs` peeks for), or NOTHING"""
    k = t[0]
    if k == "leaf":
        key = t[1]
        two = ["".join(p) for p in itertools.permutations([x for x in names if len(x) == 1], 2)][:6]
        if key == "str":
            return rng.choice(["ab", "xy", "[]", "{}", "-0", "ba"] + two)
        if key == "bytes":
            return rng.choice([b"ab", b"[]", b"xy"])
        if key == "Any":
            return copy.deepcopy(rng.choice(ANY_PAIRISH + two + [(f, 5) for f in names[:2]]))
        if key == "list":
            return copy.deepcopy(rng.choice([[1, 2], ["ab", "cd"], [("a", 1), ("b", 2)]]))
        if key == "dict":
            return {"a": 1, "b": 2}
        if key in LEAF_VALUES:
            return NOTHING
        pool = [v for v in leaf_pool(key, env, mod) if isinstance(v, (str, bytes)) and len(v) == 2]
        return rng.choice(pool) if pool else NOTHING
    if k in ("seq", "map") and depth <= 0:
        return NOTHING                                        # (cyclic environments: the value has to end)
    if k == "seq":
        vals = [gen_value(rng, t[3], env, mod, depth - 1, size) for _ in range(2)]
        if t[1] in ("KSet", "KFrozenset"):
            vals = coregen._dedupe_eq(vals)
        return SEQ_PY[t[1]](vals)
    if k == "map":
        pairs = []
        for _ in range(6):
            kk = gen_value(rng, t[3], env, mod, depth - 1, size)
            if len(pairs) < 2 and not any(kk == p[0] for p in pairs):
                pairs.append((kk, gen_value(rng, t[4], env, mod, depth - 1, size)))
        return MAP_PY[t[1]](pairs)
    if k == "union":
        ms = [m for m in t[2] if m != ("none",)]
        return pairish_value(rng, ms[0], env, mod, names, depth, size) if ms else NOTHING
    if k in ("newtype", "alias"):
        return pairish_value(rng, t[2], env, mod, names, depth, size)
    if k in ("final", "classvar"):
        return pairish_value(rng, t[1], env, mod, names, depth, size)
    if k in ("name", "ref", "aliasstr"):
        d = env["defs"][t[1] if k != "aliasstr" else t[2]]
        if d[0] == "alias":
            return pairish_value(rng, d[2] if isinstance(d[1], str) else d[1], env, mod, names, depth, size)
    return NOTHING


def make_pairish(rng, fields, kw, env, mod, depth, size):
    """put a 2-element member into the first field (and, half of the time, 2-character text into later str / Any
    fields: when those characters spell field names the misreading is SILENT, e.g. N('ab', 'ba') -> N(a='b', b='a'))"""
    names = [f for f, _, _ in fields]
    for i, (fn, ft, _) in enumerate(fields):
        if fn not in kw:
            if i == 0:
                return
            continue
        if i == 0 or (rng.random() < 0.5 and ft in (("leaf", "str"), ("leaf", "Any"))):
            v = pairish_value(rng, ft, env, mod, names, depth, size)
            if v is not NOTHING:
                kw[fn] = v


# ---------------------------------------------------------------------------------- the catalogue (exhaustive, no rng)

class O:
    """an instance of class n of the catalogue environment, fields given positionally"""

    def __init__(self, n, *args):
        self.n, self.args = n, args


_S, _I, _A, _B = ("leaf", "str"), ("leaf", "int"), ("leaf", "Any"), ("leaf", "bytes")
_II = ("tuple", "tuple[{}]", [_I, _I])
_LS = ("seq", "KList", "list[{}]", _S)
_OS = ("union", "Optional", [_S, ("none",)])
CAT_CLASSES = [                                       # first fields of every family the pairs detection can peek at
    [("a", _S, None), ("b", _I, "3")],
    [("a", _S, None), ("b", _S, None)],
    [("x", _II, None), ("name", _S, None)],
    [("items", _LS, None), ("val", _OS, "None")],
    [("c", _B, None), ("b", _S, None), ("a", _I, "0")],
    [("a", _A, None), ("b", _A, None)],
    [("kids", ("seq", "KList", "list[{}]", ("name", 0)), None), ("name", _S, None)],
    [("a", _S, "'ab'"), ("b", _I, "3")],              # every field has a default: losing the fields is SILENT (round 4)
]
CAT_ROOTS = [("name", i) for i in range(8)] + [
    ("seq", "KList", "list[{}]", ("name", 0)),
    ("map", "KDict", "dict[{}, {}]", _S, ("name", 1)),
    ("tuple", "tuple[{}]", [("name", 0), ("name", 1)]),
    ("union", "Optional", [("name", 1), ("none",)]),
    ("seq", "KList", "list[{}]", ("name", 7)),
    ("tuple", "tuple[{}]", [("name", 7), ("name", 7), ("name", 0)]),
]
CAT_VALUES = {
    0: [O(0, "ab", 1), O(0, "abc", 1), O(0, "[]", 0), O(0, "1", 2), O(0, "null", 3), O(0, "ba")],
    1: [O(1, "ab", "ba"), O(1, "ba", "ab"), O(1, "aX", "bY"), O(1, "ab", "cd"), O(1, "abc", "ab"), O(1, "{}", "[]")],
    2: [O(2, (1, 2), "r"), O(2, (0, 0), "ab")],
    3: [O(3, ["ab", "cd"], None), O(3, ["a", "b"], "ab"), O(3, ["ab"], "x"), O(3, []), O(3, ["ab", "cd", "ef"], "null")],
    4: [O(4, b"ab", "x", 1), O(4, b"[]", "ab"), O(4, b"a", "b", 2)],
    5: [O(5, "ab", 1), O(5, ("a", 1), ("b", 2)), O(5, ["b", 2], ["a", 1]), O(5, [1, 2], 3), O(5, {"a": 1, "b": 2}, None),
        O(5, ("ab", "ba"), "x"), O(5, [("a", 1), ("b", 2)], 0), O(5, 5, "ab")],
    6: [O(6, [O(0, "ab", 1), O(0, "cd", 2)], "n"), O(6, [O(0, "ab", 1)], "ab"), O(6, [], "x")],
    7: [O(7, "cd", 1), O(7), O(7, "null")],
    # containers: several instances of ONE class in one call (whatever is kept per class is used more than once)
    8: [[O(0, "xy", 7), O(0, "abc", 8)], [O(0, "ab", 1), O(0, "cd", 2), O(0, "1", 3)]],
    9: [{"k": O(1, "ab", "ba")}, {"ab": O(1, "cd", "x"), "cd": O(1, "null", "y")}],
    10: [(O(0, "ab", 1), O(1, "ab", "cd"))],
    11: [O(1, "ab", "ba"), None],
    12: [[O(7, "cd", 1), O(7, "ef", 2), O(7, "12")], [O(7), O(7, "x", 0)]],
    13: [(O(7, "cd", 1), O(7, "ef", 2), O(0, "gh", 4))],
}


def catalogue_env(flavour, kind):
    """the environment of one derivation kind: seven small classes of that flavour, all defined by that derivation"""
    env = {"module": coregen.new_module_name("c13"), "defs": {}, "bad_defaults": False,
           "derive": {}, "required": {}, "catalogue": (flavour, kind)}
    opts = "slots=True" if kind == "dc-sub-slots" else ""
    for n, fields in enumerate(CAT_CLASSES):
        fs = []
        for f, t, dv in fields:
            if kind in UNTYPED_KINDS:
                t = _A
            fs.append((f, t, None if flavour == "typeddict" else dv))
        env["defs"][n] = ("class", flavour, opts, fs)
        # deterministic parameters: the first field stays in the base / is the overridden one on even classes
        rng = _Fixed(k=1, j=(0 if n % 2 == 0 else len(fs) - 1), coin=(n % 2 == 0))
        set_derivation(rng, env, n, kind)
    return env


class _Fixed:
    """stands in for the rng of set_derivation: fixed split point, overridden field and totalities"""

    def __init__(self, k, j, coin):
        self.k, self.j, self.coin = k, j, coin

    def randint(self, a, b):
        return min(max(self.k, a), b)

    def randrange(self, n):
        return min(self.j, n - 1)

    def random(self):
        self.coin = not self.coin
        return 0.0 if not self.coin else 1.0


def realise(spec, env, mod, flip=False):
    """the Python value of a catalogue spec (TypedDict instances in declaration order, or reversed with `flip`)"""
    go = lambda s: realise(s, env, mod, flip)
    if isinstance(spec, O):
        d = env["defs"][spec.n]
        kw = {f: go(a) for (f, _, _), a in zip(d[3], spec.args)}
        if d[1] == "typeddict":
            for (f, _, _), (_, _, dv) in zip(d[3], CAT_CLASSES[spec.n]):
                if f not in kw and f in required_of(env, spec.n):
                    kw[f] = eval(dv)                                  # a TypedDict has no defaults
            return dict(reversed(list(kw.items()))) if flip else kw
        return getattr(mod, cname(spec.n))(**kw)
    if type(spec) in (list, tuple):
        return type(spec)(go(x) for x in spec)
    if type(spec) is dict:
        return {k: go(v) for k, v in spec.items()}
    return copy.deepcopy(spec)
