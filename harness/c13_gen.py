"""C13 generators: union-free / Optional-only annotations, class environments whose defaults conform to
their annotations (or deliberately do not), VALID values chosen adversarially for the text decoders, an
independent validity check (exact classes at every position) and deep equality with classes.

Nothing here goes through the model or the mirror (harness/coremodel.py)."""
from __future__ import annotations

import collections
import copy
import datetime
import decimal
import fractions
import itertools
import math
import pathlib
import uuid

import coregen
from universe import HASHABLE_LEAVES, LEAVES, MAP_KINDS, MAP_PY, SEQ_KINDS, SEQ_PY, cname

UTC = datetime.timezone.utc
TZ530 = datetime.timezone(datetime.timedelta(hours=5, minutes=30))
TZM8 = datetime.timezone(datetime.timedelta(hours=-8))

# valid values, adversarial for serdes.load / strload / dateparse / the pairs detection of iteritems
LEAF_VALUES = {
    "int": [0, 1, -1, 7, 2 ** 70, -(2 ** 63), 10 ** 30],
    "bool": [True, False],
    "float": [0.5, -0.0, 1e300, 3.14, 5e-324, float("inf"), -1.5, 2.0],
    "str": ["", "a", "ab", "null", "1", "[1]", "2020-01-01", "None", "true", "héllo", '{"a": 1}', "x y",
            "1,2", "12:00", "P1D", "1e5", " 1", "0x10", "(1, 2)", '"q"', "NaN", "Infinity", "xy", "kids", "val",
            "[]", "{}", "\x00", "1.5", "-0", "2020-01-02T03:04:05+00:00", "[[1, 2]]", "{'a': 1}", "False",
            "b'x'", "1_0", "ab,cd"],
    "bytes": [b"", b"ab", b"\xff\x00", b"null", b"[1]", b"1", b'{"a": 1}', b"xy"],
    "Decimal": [decimal.Decimal("1.5"), decimal.Decimal("1E+3"), decimal.Decimal("-0"), decimal.Decimal("0E-10"),
                decimal.Decimal("Infinity"), decimal.Decimal("12345678901234567890.123456789")],
    "Fraction": [fractions.Fraction(1, 3), fractions.Fraction(-7, 2), fractions.Fraction(4), fractions.Fraction(0)],
    "UUID": [uuid.UUID(int=5), uuid.UUID("12345678-1234-5678-1234-567812345678"), uuid.UUID(int=0)],
    "Path": [pathlib.PurePosixPath("a/b"), pathlib.PurePosixPath("/x"), pathlib.PurePosixPath("1"),
             pathlib.PurePosixPath("null"), pathlib.PurePosixPath("[1]"), pathlib.PurePosixPath("ab"),
             pathlib.PurePosixPath("2020-01-01")],
    "date": [datetime.date(2020, 1, 2), datetime.date(1, 1, 1), datetime.date(9999, 12, 31), datetime.date(2020, 2, 29),
             datetime.date(1970, 1, 1)],
    "datetime": [datetime.datetime(2020, 1, 2, 3, 4, 5, 6, tzinfo=UTC),
                 datetime.datetime(1999, 12, 31, 23, 59, 59, tzinfo=TZ530),
                 datetime.datetime(2021, 11, 7, 1, 30, tzinfo=TZM8, fold=1),
                 datetime.datetime(1970, 1, 1, tzinfo=UTC),
                 datetime.datetime(1, 1, 1, tzinfo=UTC),
                 datetime.datetime(2020, 1, 2, 3, 4, 5)],
    "time": [datetime.time(3, 4, 5, tzinfo=UTC), datetime.time(23, 59, 59, 999999, tzinfo=UTC),
             datetime.time(3, 4, 5, tzinfo=TZ530), datetime.time(0, 0, tzinfo=TZM8), datetime.time(12, 0)],
    "timedelta": [datetime.timedelta(seconds=5), datetime.timedelta(days=2, seconds=3, microseconds=4),
                  datetime.timedelta(hours=1), datetime.timedelta(days=-1, seconds=3), datetime.timedelta(0),
                  datetime.timedelta(days=999999999), datetime.timedelta(microseconds=1), datetime.timedelta(days=14)],
    "Any": [1, "x", None, [1, "a"], {"k": 1.5}, "null", "1", ("ab", 1), [("a", 1)]],
    "list": [[1, "a"], [], [[1], {"a": 2}], ["ab", "cd"], [(1, 2)], ["1"], ["null"], [[1, 2], [3, 4]]],
    "dict": [{"a": 1}, {}, {"k": [1, 2]}, {"1": "null"}, {1: 2}, {"b": 1, "a": 2}],
}
NAN_LEAF_VALUES = {"float": [float("nan")], "Decimal": [decimal.Decimal("NaN")]}   # leaf law only (nan != nan)

ENUMS = {
    "EnA": ("enum", [("RED", "1"), ("BLUE", "2")]),
    "EnS": ("enum", [("ONE", "'1'"), ("X", "'x'"), ("NUL", "'null'"), ("AB", "'ab'"), ("LST", "'[1]'")], "str, enum.Enum"),
    "EnI": ("enum", [("LO", "0"), ("HI", "9")], "enum.IntEnum"),
    "EnT": ("enum", [("T1", "'1'"), ("TD", "'2020-01-01'"), ("TN", "None"), ("TF", "1.5")]),
}
LITERALS = [["1", "'a'", "'b'"], ["'1'", "'null'", "None"], ["'ab'", "True", "2"], ["b'x'", "'[1]'"]]
FIELD_NAMES = coregen.FIELD_NAMES


# ----------------------------------------------------------------------------------
# types: unions only as Optional (three spellings, None first or last)
# ----------------------------------------------------------------------------------

def gen_leaf(rng, env, hashable=False):
    names = list(HASHABLE_LEAVES if hashable else LEAF_VALUES)
    extra = [n for n, d in env["defs"].items() if d[0] in ("enum", "literal")]
    if extra and rng.random() < 0.3:
        return ("leaf", rng.choice(extra))
    return ("leaf", rng.choice(names))


def optional(rng, m):
    if m[0] in ("union", "none") or (m[0] == "leaf" and m[1] == "Any"):
        return m
    sp = rng.choice(["Optional", "|", "|", "Union", "Union"])
    if sp == "Optional" or rng.random() < 0.5:
        return ("union", sp, [m, ("none",)])
    return ("union", sp, [("none",), m])


def gen_ty(rng, env, depth, hashable=False, classes=None, wrap=0.15, opt=0.2):
    wid = env.setdefault("wid", itertools.count(1))
    classes = classes if classes is not None else [n for n, d in env["defs"].items() if d[0] in ("class", "alias")]
    if wrap and rng.random() < wrap and not hashable:
        inner = gen_ty(rng, env, depth, hashable, classes, wrap / 2, opt)
        w = rng.choice(["newtype", "alias", "final"])
        if w == "final" or inner[0] == "union":
            return inner
        return (w, next(wid), inner)
    if opt and not hashable and rng.random() < opt:
        return optional(rng, gen_ty(rng, env, depth, False, classes, 0, 0))
    if depth <= 0 or rng.random() < 0.25:
        if classes and rng.random() < 0.4 and not hashable:
            return ("name", rng.choice(classes))
        return gen_leaf(rng, env, hashable)
    r = rng.random()
    sub = lambda h=False: gen_ty(rng, env, depth - 1, h, classes, wrap, 0 if h else opt)
    if hashable:
        if r < 0.5:
            return ("seq", "KTuple", rng.choice(SEQ_KINDS["KTuple"])[0], sub(True))
        if r < 0.75:
            return ("seq", "KFrozenset", rng.choice(SEQ_KINDS["KFrozenset"])[0], sub(True))
        return ("tuple", rng.choice(["tuple[{}]", "typing.Tuple[{}]"]), [sub(True) for _ in range(rng.randint(1, 3))])
    if r < 0.4:
        kind = rng.choice(["KList", "KList", "KTuple", "KSet", "KFrozenset", "KDeque"])
        return ("seq", kind, rng.choice(SEQ_KINDS[kind])[0], sub(kind in ("KSet", "KFrozenset")))
    if r < 0.65:
        kind = rng.choice(["KDict", "KDict", "KOrderedDict"])
        kt = ("leaf", "str") if rng.random() < 0.5 else gen_ty(rng, env, 1, True, classes, 0, 0)
        return ("map", kind, rng.choice(MAP_KINDS[kind])[0], kt, sub())
    if r < 0.85:
        return ("tuple", rng.choice(["tuple[{}]", "typing.Tuple[{}]"]), [sub() for _ in range(rng.randint(1, 4))])
    if classes:
        return ("name", rng.choice(classes))
    return gen_leaf(rng, env)


def literal_default(rng, t):
    """source of a default that conforms to t, or None when there is no immutable literal for it"""
    k = t[0]
    if k == "leaf" and t[1] in LEAVES:
        key = t[1]
        if key in ("int", "bool", "float", "str", "bytes"):
            v = rng.choice([x for x in LEAF_VALUES[key] if not (isinstance(x, float) and math.isinf(x))])
            return repr(v)
        return {"Decimal": "decimal.Decimal('1.5')", "Fraction": "fractions.Fraction(1, 3)",
                "UUID": "uuid.UUID(int=5)", "Path": "pathlib.PurePosixPath('1')",
                "date": "datetime.date(2020, 1, 2)",
                "datetime": "datetime.datetime(2020, 1, 2, 3, 4, 5, tzinfo=datetime.timezone.utc)",
                "time": "datetime.time(3, 4, 5, tzinfo=datetime.timezone.utc)",
                "timedelta": "datetime.timedelta(seconds=5)", "Any": "None"}.get(key)
    if k == "union":
        return "None"
    if k == "seq" and t[1] == "KTuple":
        return "()"
    if k == "seq" and t[1] == "KFrozenset":
        return "frozenset()"
    if k in ("newtype", "alias"):
        return literal_default(rng, t[2])
    if k == "final":
        return literal_default(rng, t[1])
    return None


def gen_env(rng, ncls=3, cyclic=False, depth=2, bad_defaults=False):
    """like coregen.gen_env, unions only Optional.  Defaults conform to their annotation unless
    `bad_defaults` (then some non-Optional fields get `= None`)."""
    env = {"module": coregen.new_module_name("c13"), "defs": {}, "bad_defaults": bad_defaults}
    defs = env["defs"]
    for name, d in ENUMS.items():
        if rng.random() < 0.6:
            defs[name] = d
    if rng.random() < 0.6:
        defs["Lit"] = ("literal", rng.choice(LITERALS))
    names = list(range(ncls))
    for n in names:
        usable = [m for m in names if m < n]
        flavour = rng.choice(["dataclass", "dataclass", "namedtuple", "typeddict", "plain"])
        opts = ""
        if flavour == "dataclass":
            opts = rng.choice(["", "", "frozen=True", "slots=True", "kw_only=True"])
        elif flavour == "typeddict":
            opts = rng.choice(["", "", "total=False"])
        nf = rng.randint(1 if flavour == "namedtuple" else 0, 4)
        if opts == "slots=True":
            nf = max(nf, 1)
        fields, have_default = [], False
        for fn in rng.sample(FIELD_NAMES, nf):
            t = gen_ty(rng, env, depth, classes=usable, wrap=0.1)
            if cyclic and rng.random() < 0.5:
                tgt = rng.choice(names)
                inner = ("name", tgt)
                edge = rng.choice(["opt", "list", "dict", "tuple", "bar", "nonefirst"])
                t = {"opt": ("union", "Optional", [inner, ("none",)]),
                     "bar": ("union", "|", [inner, ("none",)]),
                     "nonefirst": ("union", "Union", [("none",), inner]),
                     "list": ("seq", "KList", "list[{}]", inner),
                     "dict": ("map", "KDict", "dict[{}, {}]", ("leaf", "str"), inner),
                     "tuple": ("seq", "KTuple", "tuple[{}, ...]", inner)}[edge]
            default = None
            if flavour != "typeddict" and (have_default or rng.random() < 0.35):
                default = literal_default(rng, t)
                if bad_defaults and t[0] != "union" and not (t[0] == "leaf" and t[1] == "Any") and rng.random() < 0.6:
                    default = "None"                      # does not conform: `a: int = None`
                if default is None:
                    if t[0] in ("newtype", "alias", "final") or (t[0] == "leaf" and t[1] == "Any"):
                        t = ("leaf", "int")
                        default = "7"
                    else:
                        t = optional(rng, t)
                        default = "None"
                have_default = True
            if rng.random() < 0.1 and flavour in ("dataclass", "plain"):
                t = ("final", t)
            fields.append((fn, t, default))
        defs[n] = ("class", flavour, opts, fields)
    if rng.random() < 0.4 and ncls:
        defs[ncls] = ("alias", ("seq", "KList", "list[{}]", ("name", rng.choice(names))))
    return env


# ----------------------------------------------------------------------------------
# valid values
# ----------------------------------------------------------------------------------

def leaf_pool(key, env, mod):
    if key in LEAF_VALUES:
        return LEAF_VALUES[key]
    d = env["defs"][key]
    if d[0] == "enum":
        return list(getattr(mod, key))
    if d[0] == "literal":
        return [eval(x) for x in d[1]]
    raise KeyError(key)


def gen_value(rng, t, env, mod, depth=3, size=3):
    """a valid instance of t made of exactly the annotated classes"""
    k = t[0]
    if k == "leaf":
        return copy.deepcopy(rng.choice(leaf_pool(t[1], env, mod)))
    if k == "none":
        return None
    if k == "seq":
        n = rng.randint(0, size) if depth > 0 else 0
        vals = [gen_value(rng, t[3], env, mod, depth - 1, size) for _ in range(n)]
        if vals and t[3] == ("leaf", "str") and rng.random() < 0.4:
            vals[0] = rng.choice(["ab", "xy", "[]", "{}", "-0"])        # a 2-character first member
        if t[1] in ("KSet", "KFrozenset"):
            vals = coregen._dedupe_eq(vals)
        return SEQ_PY[t[1]](vals)
    if k == "map":
        n = rng.randint(0, size) if depth > 0 else 0
        pairs = []
        for _ in range(n):
            kk = gen_value(rng, t[3], env, mod, depth - 1, size)
            if any(kk == p[0] for p in pairs):
                continue
            pairs.append((kk, gen_value(rng, t[4], env, mod, depth - 1, size)))
        return MAP_PY[t[1]](pairs)
    if k == "tuple":
        return tuple(gen_value(rng, x, env, mod, depth - 1, size) for x in t[2])
    if k == "union":
        ms = t[2]
        if depth <= 0 and ("none",) in ms:
            return None
        return gen_value(rng, rng.choice(ms), env, mod, depth - 1, size)
    if k in ("name", "ref", "aliasstr"):
        n = t[1] if k != "aliasstr" else t[2]
        d = env["defs"][n]
        if d[0] == "alias":
            return gen_value(rng, d[2] if isinstance(d[1], str) else d[1], env, mod, depth, size)
        cls = getattr(mod, cname(n))
        kw = {}
        for fn, ft, default in d[3]:
            if default is not None and (depth <= 0 or rng.random() < 0.3) and not env.get("bad_defaults"):
                continue      # (a nonconforming default would make the value invalid)
            if d[2] == "total=False" and rng.random() < 0.3:
                continue
            kw[fn] = gen_value(rng, ft, env, mod, depth - 1, size)
        if d[1] == "typeddict":
            items = list(kw.items())
            rng.shuffle(items)                                     # any key order is a valid TypedDict
            kw = dict(items)
        return cls(**kw)
    if k in ("newtype", "alias"):
        return gen_value(rng, t[2], env, mod, depth, size)
    if k in ("final", "classvar"):
        return gen_value(rng, t[1], env, mod, depth, size)
    raise ValueError(t)


# ----------------------------------------------------------------------------------
# independent reading of "valid": exactly the annotated class at every position
# ----------------------------------------------------------------------------------

def leaf_valid(key, v, env, mod) -> bool:
    if key == "Any":
        return True
    if key in LEAVES:
        return type(v) is LEAVES[key][1]
    d = env["defs"][key]
    if d[0] == "enum":
        return type(v) is getattr(mod, key)
    if d[0] == "literal":
        return any(type(v) is type(a) and v == a for a in (eval(x) for x in d[1]))
    return False


class Validity:
    """independent reading of Model/CoreValid.v `valid`: exact class at every position, fixed tuples of exactly
       the annotated arity, TypedDict instances with declared keys only and every required key present.
       on_leaf        callback(key, v, ok) for every leaf position visited (never short-circuited)
       default_ok     a class field holding (a value equal to) its declared default counts as valid"""

    def __init__(self, env, mod, strict_tuple=True, total=True, on_leaf=None, default_ok=False):
        self.env, self.mod = env, mod
        self.strict_tuple, self.total, self.on_leaf, self.default_ok = strict_tuple, total, on_leaf, default_ok

    def __call__(self, t, v, depth=0) -> bool:
        if depth > 80:
            return False
        k = t[0]
        go = lambda tt, vv: self(tt, vv, depth + 1)
        if k == "leaf":
            ok = leaf_valid(t[1], v, self.env, self.mod)
            if self.on_leaf:
                self.on_leaf(t[1], v, ok)
            return ok
        if k == "none":
            return v is None
        if k == "seq":
            if type(v) is not SEQ_PY[t[1]]:
                return False
            return all([go(t[3], x) for x in v])
        if k == "map":
            if type(v) is not MAP_PY[t[1]]:
                return False
            return all([go(t[3], a) & go(t[4], b) for a, b in v.items()])
        if k == "tuple":
            if type(v) is not tuple or len(v) > len(t[2]) or (self.strict_tuple and len(v) != len(t[2])):
                return False
            return all([go(tt, x) for tt, x in zip(t[2], v)])
        if k == "union":
            return any([go(m, v) for m in t[2]])
        if k in ("name", "ref", "aliasstr"):
            n = t[1] if k != "aliasstr" else t[2]
            d = self.env["defs"][n]
            if d[0] == "alias":
                return go(d[2] if isinstance(d[1], str) else d[1], v)
            cls = getattr(self.mod, cname(n))
            fields = d[3]
            if d[1] == "typeddict":
                if type(v) is not dict:
                    return False
                ftys = {f: ft for f, ft, _ in fields}
                if not all(type(key) is str and key in ftys for key in v):
                    return False
                if self.total and d[2] != "total=False" and set(v) != set(ftys):
                    return False
                return all([go(ftys[key], x) for key, x in v.items()])
            if type(v) is not cls:
                return False
            oks = []
            for i, (f, ft, default) in enumerate(fields):
                if d[1] == "namedtuple":
                    x = v[i]
                elif hasattr(v, f):
                    x = getattr(v, f)
                else:
                    return False
                ok = go(ft, x)
                if not ok and self.default_ok and default is not None:
                    ok = same(x, eval(default, self.mod.__dict__))
                oks.append(ok)
            return all(oks)
        if k in ("newtype", "alias"):
            return go(t[2], v)
        if k in ("final", "classvar"):
            return go(t[1], v)
        raise ValueError(t)


def defaults_conform(env, mod) -> list:
    """[(class, field, default source)] for every default that is not a valid instance of its annotation"""
    bad = []
    val = Validity(env, mod)
    for n, d in env["defs"].items():
        if d[0] != "class":
            continue
        for f, ft, default in d[3]:
            if default is None:
                continue
            if not val(ft, eval(default, mod.__dict__)):
                bad.append((n, f, default))
    return bad


def optional_only(t, env, seen=None) -> bool:
    """T is union-free or only Optional, through the environment"""
    seen = seen if seen is not None else set()
    k = t[0]
    if k in ("leaf", "none"):
        return True
    if k == "seq":
        return optional_only(t[3], env, seen)
    if k == "map":
        return optional_only(t[3], env, seen) and optional_only(t[4], env, seen)
    if k == "tuple":
        return all(optional_only(x, env, seen) for x in t[2])
    if k == "union":
        ms = t[2]
        if len(ms) != 2 or ("none",) not in ms:
            return False
        return all(optional_only(m, env, seen) for m in ms)
    if k in ("name", "ref", "aliasstr"):
        n = t[1] if k != "aliasstr" else t[2]
        if n in seen:
            return True
        seen.add(n)
        d = env["defs"][n]
        if d[0] == "alias":
            return optional_only(d[2] if isinstance(d[1], str) else d[1], env, seen)
        return all(optional_only(ft, env, seen) for _, ft, _ in d[3])
    if k in ("newtype", "alias"):
        return optional_only(t[2], env, seen)
    if k in ("final", "classvar"):
        return optional_only(t[1], env, seen)
    raise ValueError(t)


# ----------------------------------------------------------------------------------
# equality with classes ("same classes, same contents")
# ----------------------------------------------------------------------------------

def same(a, b) -> bool:
    """deep equality with the same runtime class at every position; dict key order matters; NaN is NaN"""
    import dataclasses
    if a is b:
        return True
    if type(a) is not type(b):
        return False
    if isinstance(a, dict):
        return len(a) == len(b) and all(same(k1, k2) and same(a[k1], b[k2]) for k1, k2 in zip(a.keys(), b.keys()))
    if isinstance(a, (list, tuple, collections.deque)):
        if len(a) != len(b):
            return False
        if hasattr(a, "_fields"):
            return all(same(x, y) for x, y in zip(a, b))
        return all(same(x, y) for x, y in zip(a, b))
    if isinstance(a, (set, frozenset)):
        return len(a) == len(b) and all(any(same(x, y) for y in b) for x in a)
    if dataclasses.is_dataclass(a):
        return all(same(getattr(a, f.name, _MISSING), getattr(b, f.name, _MISSING)) for f in dataclasses.fields(a))
    if type(a).__module__.startswith("verif_core") and hasattr(a, "__dict__"):
        return list(vars(a)) == list(vars(b)) and all(same(vars(a)[k], vars(b)[k]) for k in vars(a))
    if isinstance(a, float):
        return (a != a and b != b) or (a == b and math.copysign(1, a) == math.copysign(1, b))
    if isinstance(a, decimal.Decimal):
        return a.as_tuple() == b.as_tuple()
    if isinstance(a, datetime.datetime):
        if (a.tzinfo is None) != (b.tzinfo is None):
            return False
        return a == b and a.utcoffset() == b.utcoffset() and a.fold == b.fold
    if isinstance(a, datetime.time):
        if (a.tzinfo is None) != (b.tzinfo is None):
            return False
        return a.replace(tzinfo=None) == b.replace(tzinfo=None) and a.utcoffset() == b.utcoffset()
    try:
        return bool(a == b)
    except Exception:
        return False


_MISSING = object()
