"""C20 search oracle: the property statement executed on the implementation (no model involved).

check_string(s, annotation) returns a list of failure dicts for one input string.
"""
import ast

import c20_lang as L

_NS = None


def ns():
    global _NS
    if _NS is None:
        _NS = L.namespace()
    return _NS


def _is_literal_head(node) -> bool:
    return (isinstance(node, ast.Name) and node.id == "Literal") or \
           (isinstance(node, ast.Attribute) and node.attr == "Literal")


def scan(tree):
    """(number of BitOr BinOps, documented builtin generic Names) outside string / Literal constants"""
    bitor, names = 0, []

    def walk(n):
        nonlocal bitor
        if isinstance(n, ast.Constant):
            return
        if isinstance(n, ast.Subscript) and _is_literal_head(n.value):
            walk(n.value)
            return
        if isinstance(n, ast.BinOp) and isinstance(n.op, ast.BitOr):
            bitor += 1
        if isinstance(n, ast.Name) and n.id in L.DOCUMENTED:
            names.append(n.id)
        for c in ast.iter_child_nodes(n):
            walk(c)

    walk(tree)
    return bitor, names


def _head(node):
    if isinstance(node, ast.Subscript):
        v = node.value
        return v.id if isinstance(v, ast.Name) else v.attr if isinstance(v, ast.Attribute) else None
    return None


def order_observable(tree) -> bool:
    """Member order of the unions of this input can be read off its evaluation: every union group (a `|` tree
    or a Union[...] subscript) has pairwise different members none of which is itself a union / Optional.
    Otherwise flattening and de-duplication inside typing (cached by ==) decide the order, not the spelling."""
    def leaves(n):
        if isinstance(n, ast.BinOp) and isinstance(n.op, ast.BitOr):
            return leaves(n.left) + leaves(n.right)
        return [n]

    def flat_ok(ms):
        if any(_head(m) in ("Union", "Optional") or (isinstance(m, ast.BinOp) and isinstance(m.op, ast.BitOr))
               for m in ms):
            return False
        dumps = [ast.dump(m) for m in ms]
        return len(set(dumps)) == len(dumps)

    for n in ast.walk(tree):
        if isinstance(n, ast.BinOp) and isinstance(n.op, ast.BitOr):
            if not flat_ok(leaves(n)):
                return False
        if _head(n) == "Union":
            ms = n.slice.elts if isinstance(n.slice, ast.Tuple) else [n.slice]
            if not flat_ok(ms):
                return False
    return True


def has_constructs(tree) -> bool:
    """any `|` or any documented builtin generic name anywhere (the widest reading: the identity clause is then
    demanded of the fewest inputs)"""
    for n in ast.walk(tree):
        if isinstance(n, ast.BinOp) and isinstance(n.op, ast.BitOr):
            return True
        if isinstance(n, ast.Name) and n.id in L.DOCUMENTED:
            return True
    return False


# ---- call histories ---------------------------------------------------------------------------------------
# future.transform is memoised (the property's anchored state: "functools.cache on (annotation, union)"), so
# what a call returns may depend on the calls made before it in the process.  The statement is about EVERY
# annotation string whatever was transformed earlier; a failing input is therefore a history: the calls
# [(annotation, union | None), ...] made from a fresh module state, then the input.

LOG: list = []            # every call the harness made through call(), in order (None = default union)
LOGGING = True


def call(s: str, union=None):
    """the one place the harness calls future.transform"""
    from typelib.py import future
    if LOGGING:
        LOG.append((s, union))
    if union is None:
        return future.transform(s)
    return future.transform(s, union=union)


_MODULE_CODE = None


def reset_state():
    """a fresh module state (whatever the memo is made of: functools cache, module-level dict ...): the module
    body is executed again in the module's namespace, which is what importlib.reload does, without re-reading
    and re-compiling the source every time"""
    global _MODULE_CODE
    from typelib.py import future
    if _MODULE_CODE is None:
        with open(future.__file__, encoding="utf-8") as fh:
            _MODULE_CODE = compile(fh.read(), future.__file__, "exec", dont_inherit=True)
    exec(_MODULE_CODE, future.__dict__)


def run_history(history):
    for h in history:
        try:
            call(h[0], h[1] if len(h) > 1 else None)
        except Exception:   # noqa: BLE001   a history element that raises is just a call that raised
            pass


def check_history(history, s: str, annotation: bool) -> list[dict]:
    """the statement for `s` after the calls of `history`, from a fresh state"""
    global LOGGING
    keep, LOGGING = LOGGING, False
    try:
        reset_state()
        run_history(history)
        fs = check_string(s, annotation)
    finally:
        LOGGING = keep
    for f in fs:
        f["history"] = [list(h) for h in history]
    return fs


def check_string(s: str, annotation: bool, transform=None) -> list[dict]:
    if transform is None:
        transform = call
    try:
        tree = ast.parse(s, mode="eval")
    except (SyntaxError, ValueError, RecursionError, MemoryError):
        return []          # transform requires valid syntax: outside the statement
    base = {"input": s, "annotation": annotation}
    fails = []
    # totality: never raises on a parsed expression
    try:
        t = transform(s)
    except Exception as e:   # noqa: BLE001
        return [dict(base, clause="total", symptom="transform raised", got=repr(e))]
    base["output"] = t
    if not isinstance(t, str):
        return [dict(base, clause="total", symptom="transform did not return a string", got=repr(t))]
    try:
        ttree = ast.parse(t, mode="eval")
    except SyntaxError as e:
        return [dict(base, clause="total", symptom="output is not valid syntax", got=repr(e))]
    # identity: same syntax tree when none of the constructs is present
    if not has_constructs(tree):
        if ast.dump(ttree) != ast.dump(tree):
            fails.append(dict(base, clause="identity", symptom="syntax tree changed although the input has no construct",
                              got=ast.dump(ttree), expected=ast.dump(tree)))
    if not annotation:
        return fails
    # no PEP 604 union / documented builtin generic name left outside string and Literal constants
    bitor, names = scan(ttree)
    if bitor:
        fails.append(dict(base, clause="no_pep604", symptom="PEP 604 union left in the output", got=t))
    if names:
        fails.append(dict(base, clause="generics", symptom="documented builtin generic name left in the output",
                          got=t, names=sorted(set(names))))
    # fixpoint
    try:
        t2 = transform(t)
    except Exception as e:   # noqa: BLE001
        t2 = "raised " + repr(e)
    if t2 != t:
        fails.append(dict(base, clause="fixpoint", symptom="transform(transform(s)) != transform(s)", got=t2, expected=t))
    # meaning: both sides evaluate to the same structure.  The input is read by the interpreter; when the
    # interpreter's own `|` rejects the operands (`"Foo" | None`: str | NoneType is a TypeError on 3.12 -- the very
    # annotations transform exists for), by the statement's reading "typing.Union for |" (L.evaluate_ref).
    try:
        v = L.evaluate(s, ns())
    except Exception:   # noqa: BLE001
        try:
            v = L.evaluate_ref(s, ns())
            base = dict(base, input_read_by="reference reading: a | b = typing.Union[a, b]")
        except Exception:   # noqa: BLE001  the input does not evaluate to a type under either reading: nothing is demanded
            return fails
    try:
        w = L.evaluate(t, ns())
    except Exception as e:   # noqa: BLE001
        fails.append(dict(base, clause="meaning", symptom="output does not evaluate although the input does",
                          got=repr(e), expected=repr(v)))
        return fails
    sv, sw = L.struct(v), L.struct(w)
    if sv != sw:
        fails.append(dict(base, clause="meaning", symptom="output evaluates to a different structure",
                          got=repr(w), expected=repr(v)))
        return fails
    # the same with union members in order, where the order is observable
    ov, ow = L.struct(v, ordered=True), L.struct(w, ordered=True)
    if ov != ow and order_observable(tree) and not L.union_orders_ambiguous(ov, ow):
        fails.append(dict(base, clause="meaning", symptom="output evaluates to the union members in a different order",
                          got=repr(w), expected=repr(v)))
    return fails


def evaluates(s: str) -> bool:
    try:
        L.evaluate(s, ns())
        return True
    except Exception:   # noqa: BLE001
        return False


def evaluates_ref(s: str) -> bool:
    try:
        L.evaluate_ref(s, ns())
        return True
    except Exception:   # noqa: BLE001
        return False


def evaluates_to_type(s: str) -> bool:
    try:
        v = L.evaluate(s, ns())
    except Exception:   # noqa: BLE001
        try:
            v = L.evaluate_ref(s, ns())
        except Exception:   # noqa: BLE001
            return False
    return not isinstance(v, (list, tuple, dict, set, int, float, bytes))
