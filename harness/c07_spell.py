"""C07 helper: the TEXT of a recursive definition is a dimension of the input space (round 3).

The property quantifies over PROGRAMS: every legal way of writing the same recursive type must behave the same.
`harness/props/c07.py` used to write every cyclic class in one spelling (the one `universe.src_ty` prints) and no
recursive alias at all.  This module adds

  * recursive / mutually recursive STRING-VALUED aliases (TypeAliasType('N0', '<text>')), alone and in cycles that
    run through classes, each body written in one of STYLES (bare builtin generics with PEP 604 unions, names
    qualified by `typing.` / by the module alias `t.` / by `collections.abc.`, names imported with `from typing
    import`, qualified head around bare arguments and the reverse, names quoted once more inside the text, the
    whole text quoted once more; and, not a string at all, the PEP 695 statement `type N0 = ...`);
  * cyclic classes whose member annotations are STRINGS in those styles, in every way a class can present its
    hints: class-level annotations of a dataclass / NamedTuple / TypedDict / plain class, annotations that exist
    only in the `__init__` signature (inspection falls back to the signature and turns each string into a
    module-qualified reference), and classes NESTED in another class (deferred as `Outer.N`, module of the
    outermost class), referring to themselves by the short or by the qualified name.

One universe description (the model's view: spelling does not exist there, a reference evaluates to the named
object) is rendered as text in a style; the description keeps, in its spelling slots, the canonical source that
evaluates to the same object, so the reverse map annotation -> description of universe.Registry still works.

Both strata go through the full three-way mechanism correspondence (reference semantics vs implementation, the
mechanism run along the observed node orders vs implementation, mechanism vs reference semantics).  For the alias
stratum the environment handed to Coq says HOW an alias object holds its value, because the mechanism depends on it
(Build.unwrap): a string-valued alias is `NType (TRefTo body)` / `NType (TRef n)` -- its value is the reference the
text stands for, inspection.unwrap returns that reference and its graph node is a single deferred node that becomes
a Delayed* proxy -- while a PEP 695 statement `type N = body` is `NType body` (the value is peeled, the alias node is
expanded like its body and only the revisit is deferred).  The order of whatever a proxy resolves at call time
(`static_order(ForwardRef(text))`, evaluated first) is collected as well (AliasRegistry, SpelledGroup.collect_orders).
"""
from __future__ import annotations

import copy
import datetime
import decimal
import itertools
import random
import typing

import coregen
import coremodel
import coreprop
import impl
import universe
from universe import cname

# ----------------------------------------------------------------------------------
# styles
# ----------------------------------------------------------------------------------
# c: how containers are written; u: how unions are written; q: names quoted once more inside the text;
# whole: the whole text quoted once more
STYLES = {
    "bare": dict(c="bare", u="pipe"),                    # dict[str, N0] | None
    "typing": dict(c="typing", u="typing"),              # typing.Optional[typing.Dict[str, N0]]
    "t": dict(c="t", u="t"),                             # t.Optional[t.Dict[str, N0]]        (import typing as t)
    "imported": dict(c="imported", u="imported"),        # Optional[Dict[str, N0]]            (from typing import ...)
    "abc": dict(c="abc", u="pipe"),                      # collections.abc.Mapping[str, N0] | None
    "typing-head": dict(c="bare", u="typing"),           # typing.Optional[dict[str, N0]]
    "typing-inner": dict(c="typing", u="pipe"),          # typing.Dict[str, N0] | None
    "quoted": dict(c="bare", u="pipe", q=True),          # dict[str, 'N0'] | None
    "quoted-typing": dict(c="typing", u="typing", q=True),   # typing.Optional[typing.Dict[str, 'N0']]
    "whole-quoted": dict(c="bare", u="pipe", whole=True),    # "'dict[str, N0] | None'"
    # not a string at all: the PEP 695 statement `type N0 = dict[str, N0] | None` (lazily evaluated value that
    # mentions the alias object itself); aliases only
    "statement": dict(c="bare", u="pipe", stmt=True),
}
STYLE_NAMES = list(STYLES)
CLASS_STYLE_NAMES = [s for s in STYLE_NAMES if not STYLES[s].get("stmt")]

# container kind -> family -> (text, canonical source evaluating to the same object)
_SEQ = {
    "KList": {"bare": ("list[{}]", "list[{}]"), "typing": ("typing.List[{}]", "typing.List[{}]"),
              "t": ("t.List[{}]", "typing.List[{}]"), "imported": ("List[{}]", "typing.List[{}]"),
              "abc": ("collections.abc.Sequence[{}]", "collections.abc.Sequence[{}]")},
    "KTuple": {"bare": ("tuple[{}, ...]", "tuple[{}, ...]"), "typing": ("typing.Tuple[{}, ...]", "typing.Tuple[{}, ...]"),
               "t": ("t.Tuple[{}, ...]", "typing.Tuple[{}, ...]"), "imported": ("Tuple[{}, ...]", "typing.Tuple[{}, ...]"),
               "abc": ("typing.Tuple[{}, ...]", "typing.Tuple[{}, ...]")},
}
_MAP = {"bare": ("dict[{}, {}]", "dict[{}, {}]"), "typing": ("typing.Dict[{}, {}]", "typing.Dict[{}, {}]"),
        "t": ("t.Dict[{}, {}]", "typing.Dict[{}, {}]"), "imported": ("Dict[{}, {}]", "typing.Dict[{}, {}]"),
        "abc": ("collections.abc.Mapping[{}, {}]", "collections.abc.Mapping[{}, {}]")}
_UPREFIX = {"typing": "typing.", "t": "t.", "imported": ""}

HEADER = (universe.PRELUDE + "import typing as t\nfrom typing import Optional, Union, List, Dict, Tuple\n")


def render(t, st, namefn):
    """description -> (text in style st, description whose spelling slots evaluate to the same object)"""
    k = t[0]
    if k == "leaf":
        return universe.LEAVES[t[1]][0] if t[1] in universe.LEAVES else t[1], t
    if k == "none":
        return "None", t
    if k == "name":
        nm = namefn(t[1])
        return (repr(nm) if st.get("q") else nm), t
    if k == "seq":
        it, idesc = render(t[3], st, namefn)
        text, canon = _SEQ[t[1]][st["c"]]
        return text.format(it), ("seq", t[1], canon, idesc)
    if k == "map":
        kt, kdesc = render(t[3], st, namefn)
        vt, vdesc = render(t[4], st, namefn)
        text, canon = _MAP[st["c"]]
        return text.format(kt, vt), ("map", t[1], canon, kdesc, vdesc)
    if k == "union":
        parts = [render(m, st, namefn) for m in t[2]]
        texts, descs = [p[0] for p in parts], [p[1] for p in parts]
        u = st["u"]
        if u == "pipe" and st.get("q") and any(m[0] == "name" for m in t[2]):
            u = "typing"                 # `'N0' | None` is str | None: not a legal spelling
        if u == "pipe":
            return " | ".join(texts), ("union", "|", descs)
        if len(t[2]) == 2 and t[2][1] == ("none",):
            return f"{_UPREFIX[u]}Optional[{texts[0]}]", ("union", "Optional", descs)
        return f"{_UPREFIX[u]}Union[{', '.join(texts)}]", ("union", "Union", descs)
    raise ValueError(t)


def spell(t, style, namefn=cname):
    st = STYLES[style]
    text, desc = render(t, st, namefn)
    if st.get("whole"):
        text = repr(text)
    return text, desc


# ----------------------------------------------------------------------------------
# node specifications -> universe environment (+ what the emitter needs under env["c07"])
# ----------------------------------------------------------------------------------
# a node spec:  {"kind": "alias", "body": tdesc, "style": s}
#               {"kind": "class", "flavour": f, "opts": o, "present": "level" | "init", "nested": bool,
#                "qualified": bool, "val": leaf key, "edges": [tdesc], "style": s}
# `present`: "level" = annotations in the class body; "init" = a plain class that has annotations only in the
# signature of __init__ (flavour must be "plain").  `qualified`: a nested class names nested classes `Outer<n>.N<n>`.

def make_env(specs, tag="c07s"):
    env = {"module": coregen.new_module_name(tag), "defs": {}, "c07": {}}
    nested = {n for n, s in enumerate(specs) if s["kind"] == "class" and s.get("nested")}
    for n, s in enumerate(specs):
        if s["kind"] == "alias":
            text, desc = spell(s["body"], s["style"])
            env["defs"][n] = ("alias", text, desc)
            env["c07"][str(n)] = {"text": text, "style": s["style"]}
            continue
        qual = bool(s.get("qualified"))
        namefn = (lambda m: f"Outer{m}.{cname(m)}" if m in nested else cname(m)) if qual else cname
        fields = [("val", ("leaf", s.get("val", "int")), None)]
        texts = {}
        for i, e in enumerate(s["edges"]):
            text, desc = spell(e, s["style"], namefn)
            texts[f"e{i}"] = text
            if s.get("present") == "init":
                # the hint IS a reference (inspection._hints_from_signature): the model sees a reference to the type
                desc = ("ref", desc[1], "str") if desc[0] == "name" else ("wrapref", desc, "str")
            fields.append((f"e{i}", desc, None))
        env["defs"][n] = ("class", s["flavour"], s.get("opts", ""), fields)
        env["c07"][str(n)] = {"texts": texts, "style": s["style"], "present": s.get("present", "level"),
                              "nested": bool(s.get("nested")), "qualified": qual}
    return env


def module_source(env) -> str:
    out = [HEADER]
    defs = env["defs"]
    for n, d in defs.items():
        if d[0] == "enum":
            out.append(f"class {n}(enum.Enum):\n" + "".join(f"    {m} = {v}\n" for m, v in d[1]))
    for n, d in defs.items():
        info = env["c07"].get(str(n))
        if d[0] == "alias":
            if STYLES[info["style"]].get("stmt"):
                out.append(f"type {cname(n)} = {info['text']}\n")
            else:
                out.append(f"{cname(n)} = TypeAliasType({cname(n)!r}, {info['text']!r})\n")
            continue
        if d[0] != "class":
            continue
        flavour, opts, fields = d[1], d[2], d[3]
        anns = []
        for fname, t, _ in fields:
            anns.append((fname, repr(info["texts"][fname]) if fname in info["texts"] else universe.src_ty(t, env)))
        lines = "".join(f"    {f}: {a}\n" for f, a in anns)
        name = cname(n)
        if flavour == "dataclass":
            body = f"@dataclasses.dataclass({opts})\nclass {name}:\n" + lines
        elif flavour == "namedtuple":
            body = f"class {name}(typing.NamedTuple):\n" + lines
        elif flavour == "typeddict":
            body = f"class {name}(typing.TypedDict):\n" + lines
        else:
            params = ", ".join(f"{f}: {a}" for f, a in anns)
            sets = "".join(f"        self.{f} = {f}\n" for f, _ in anns)
            body = (f"class {name}:\n" + (lines if info["present"] != "init" else "")
                    + f"    def __init__(self, {params}):\n" + sets
                    + "    def __eq__(self, o):\n        return type(o) is type(self) and vars(o) == vars(self)\n"
                    + "    __hash__ = None\n"
                    + f"    def __repr__(self):\n        return '{name}(' + repr(vars(self)) + ')'\n")
        if info["nested"]:
            body = (f"class Outer{n}:\n" + "".join("    " + l + "\n" for l in body.splitlines())
                    + f"{name} = Outer{n}.{name}\n")
        out.append(body)
    return "".join(out)


def fresh_typing():
    """typing caches `typing.Dict[str, 'N0']` on ==, ForwardRef('N0') inside included, and a ForwardRef remembers what
    it evaluated to: the same TEXT in two synthesised modules would hand the second module the first one's class.
    That is the interpreter's business, not typelib's; every switch between modules starts from empty caches."""
    for f in getattr(typing, "_cleanups", ()):
        f()


def materialise(env, roots):
    fresh_typing()
    src = module_source(env)
    mod = impl.new_module(env["module"], src)
    tys = [eval(universe.src_ty(r, env), mod.__dict__) for r in roots]
    return mod, tys, src


class AliasRegistry(universe.Registry):
    """universe.Registry whose environment tells the mechanism model how each alias object holds its value"""

    def emit_env(self) -> str:
        base = super().emit_env()
        for n, d in self.env["defs"].items():
            if d[0] != "alias" or not isinstance(d[1], str):
                continue
            info = self.env.get("c07", {}).get(str(n), {})
            if STYLES.get(info.get("style"), {}).get("stmt"):
                continue                     # `type N = body`: the value is the body itself
            body = d[2]
            old = f"| {n} => Some (NType {self.emit_ty(body)})"
            ref = ("ref", body[1], "fwd") if body[0] == "name" else ("wrapref", body, "fwd")
            assert old in base, (n, base[:200])
            base = base.replace(old, f"| {n} => Some (NType {self.emit_ty(ref)})")
        return base


class SpelledGroup(coremodel.Group):
    """coremodel.Group over a module written by module_source above"""

    def __init__(self, env, roots, suppressed):
        env, roots = copy.deepcopy((env, roots))
        self.env, self.roots = env, roots
        self.mod, self.pytys, self.src = materialise(env, roots)
        self.reg = AliasRegistry(env, self.mod)
        self.mirror = coremodel.Mirror(self.reg, suppressed["u"])
        self.sup = suppressed
        self.cases = []
        self.fuel = coremodel.FUEL
        self.orders = {"u": {}, "m": {}}
        self.order_problems = []
        self.reg.build_reverse(roots)
        # references the graph makes for nested classes read 'Outer<n>.N<n>'; references made from signature
        # strings carry the whole text: both are identified by what they evaluate to inside the module
        plain_desc_of = self.reg.desc_of

        def desc_of(py):
            if isinstance(py, typing.ForwardRef):
                arg = py.__forward_arg__
                last = arg.rsplit(".", 1)[-1]
                if last.startswith("N") and last[1:].isdigit() and arg.replace(".", "").isidentifier():
                    return ("ref", int(last[1:]), "fwd")
                d = plain_desc_of(py)
                if d is not None:
                    return d
                try:
                    # typing's own evaluation: it also resolves names quoted once more inside the text
                    fresh_typing()
                    ns = self.mod.__dict__
                    target = typing.ForwardRef(arg)._evaluate(ns, ns, recursive_guard=frozenset())
                except Exception:
                    return None
                inner = plain_desc_of(target)
                if inner is not None and inner[0] == "name":
                    return ("ref", inner[1], "fwd")          # "'N1'": a reference to the class, however written
                return None if inner is None else ("wrapref", inner, "fwd")
            return plain_desc_of(py)
        self.reg.desc_of = desc_of

    _last_observed = None

    def observe(self, *args, **kwargs):
        # every pass over the groups (cold cases, the shared warm-replay pass, order collection) may come back to
        # this module after another one evaluated the same text: start from empty typing caches at every switch
        if SpelledGroup._last_observed is not self:
            fresh_typing()
            SpelledGroup._last_observed = self
        return super().observe(*args, **kwargs)

    def collect_orders(self, pytype, depth=0):
        """coremodel.Group.collect_orders, plus: a member that IS a reference (a signature string) is not flagged
        cyclic by the graph but is built as a delayed proxy all the same: the order of what it evaluates to is
        needed too; likewise the node of a string-valued alias (type = the alias object, unwrapped = the reference to
        its text): it is dispatched on the unwrapped form, i.e. to a proxy for that reference"""
        import warnings
        from typelib import graph
        from typelib.py import refs
        from lib import coq_bool, coq_list
        if depth == 0:
            fresh_typing()
        impl.clear_caches()
        if isinstance(pytype, typing.ForwardRef):
            pytype = refs.evaluate(pytype)
        d = self.reg.desc_of(pytype)
        if d is None:
            self.order_problems.append(f"no description for {pytype!r}")
            return
        key = self.reg.emit_ty(d if d[0] != "ref" else ("name", d[1]))
        if key in self.orders["u"] or depth > 12:
            return
        try:
            with warnings.catch_warnings():
                warnings.simplefilter("ignore")
                nodes = list(graph.static_order(pytype))
        except BaseException as e:
            self.order_problems.append(f"static_order({pytype!r}) raised {e!r}")
            return
        out, later = [], []
        for n in nodes:
            dt, du = self.reg.desc_of(n.type), self.reg.desc_of(n.unwrapped)
            if dt is None or du is None:
                self.order_problems.append(f"no description for node {n!r}")
                return
            out.append("{| ntype := %s; nunw := %s; ncyc := %s |}" % (
                self.reg.emit_ty(dt), self.reg.emit_ty(du), coq_bool(bool(n.cyclic))))
            if n.cyclic or isinstance(n.type, typing.ForwardRef):
                try:
                    later.append(refs.evaluate(n.type))
                except BaseException as e:
                    self.order_problems.append(f"evaluate({n.type!r}) raised {e!r}")
            elif isinstance(n.unwrapped, typing.ForwardRef):
                try:
                    later.append(refs.evaluate(n.unwrapped))
                except BaseException as e:
                    self.order_problems.append(f"evaluate({n.unwrapped!r}) raised {e!r}")
        self.orders["u"][key] = coq_list(out, "node")
        for tgt in later:
            self.collect_orders(tgt, depth + 1)


# ----------------------------------------------------------------------------------
# values of every depth, with the un-converted form next to them
# ----------------------------------------------------------------------------------

class Builder:
    """(value, raw) of a node nested d levels deep; raw = the same shape with every leaf as text, every class as
    a dict and every tuple as a list: unmarshalling it must give value (every level converted)"""

    def __init__(self, env, mod):
        self.env, self.mod = env, mod
        self.ctr = itertools.count(3)

    def leaf(self, key):
        i = next(self.ctr)
        if key == "int":
            return i, str(i)
        if key == "str":
            return f"s{i}", f"s{i}"
        if key == "Decimal":
            v = decimal.Decimal(i) / 4
            return v, str(v)
        if key == "date":
            v = datetime.date(2020, 1, 1) + datetime.timedelta(days=i)
            return v, v.isoformat()
        members = list(getattr(self.mod, key))
        v = members[i % len(members)]
        return v, v.value

    def node(self, n, d):
        df = self.env["defs"][n]
        if df[0] == "alias":
            return self.of_type(df[2], d)
        kw, raw, first = {}, {}, True
        for f, t, _ in df[3]:
            if f == "val":
                kw[f], raw[f] = self.of_type(t, 0)
                continue
            kw[f], raw[f] = self.of_type(t, d if first else 0)
            first = False
        return getattr(self.mod, cname(n))(**kw), raw

    def of_type(self, t, d):
        """d = named levels still to put below this position"""
        k = t[0]
        if k == "wrapref":
            return self.of_type(t[1], d)
        if k == "leaf":
            return self.leaf(t[1])
        if k == "none":
            return None, None
        if k in ("name", "ref"):
            df = self.env["defs"][t[1]]
            if df[0] == "class":
                # a bare class member: one level by itself (the chain of bare members is finite: later classes only)
                return self.node(t[1], max(d - 1, 0))
            return self.node(t[1], d)
        if k == "seq":
            if d <= 0:
                return ([], []) if t[1] == "KList" else ((), [])
            items = [self._below(t[3], d - 1)] + ([self._below(t[3], 0)] if d > 1 else [])
            vs, rs = [x[0] for x in items], [x[1] for x in items]
            return (vs if t[1] == "KList" else tuple(vs)), rs
        if k == "map":
            if d <= 0:
                return {}, {}
            items = [("k", self._below(t[4], d - 1))] + ([("z", self._below(t[4], 0))] if d > 1 else [])
            return {a: b[0] for a, b in items}, {a: b[1] for a, b in items}
        if k == "union":
            terminators = [m for m in t[2] if m[0] in ("none", "leaf")]
            carriers = [m for m in t[2] if m[0] not in ("none", "leaf")]
            if d <= 0 and terminators:
                return self.of_type(terminators[0], 0)
            m = carriers[0] if carriers else terminators[0]
            if m[0] in ("name", "ref") and d > 0:
                return self._below(m, d - 1)
            return self.of_type(m, d)
        raise ValueError(t)

    def _below(self, t, d):
        """the member of a container / a direct union member: a named node with d levels below it"""
        if t[0] in ("name", "ref"):
            return self.node(t[1], d)
        return self.of_type(t, d)


# ----------------------------------------------------------------------------------
# topologies
# ----------------------------------------------------------------------------------
CONTAINERS = ["list", "dict", "tuple"]


def container(kind, tgt):
    inner = ("name", tgt)
    return {"list": ("seq", "KList", "list[{}]", inner),
            "dict": ("map", "KDict", "dict[{}, {}]", ("leaf", "str"), inner),
            "tuple": ("seq", "KTuple", "tuple[{}, ...]", inner)}[kind]


def alias_body(form, kind, tgt):
    """the shapes a recursive alias body takes (one container member: unambiguous under first-acceptor unions)
    opt:    C[X] | None         (Optional edge around a collection / mapping edge)
    leaf:   C[X] | int          (collection / mapping edge, scalar leaves)
    plain:  C[X]                (ends in the empty container)
    direct: X | None            (X another node: a class, or an alias that does not lead straight back)"""
    if form == "opt":
        return ("union", "|", [container(kind, tgt), ("none",)])
    if form == "leaf":
        return ("union", "|", [container(kind, tgt), ("leaf", "int")])
    if form == "plain":
        return container(kind, tgt)
    if form == "direct":
        return ("union", "|", [("name", tgt), ("none",)])
    raise ValueError(form)


def class_edge(kind, tgt):
    if kind == "opt":
        return ("union", "|", [("name", tgt), ("none",)])
    if kind == "plain":
        return ("name", tgt)
    return container(kind, tgt)


PRESENTATIONS = [  # (flavour, present, nested, qualified)
    ("dataclass", "level", False, False), ("namedtuple", "level", False, False), ("typeddict", "level", False, False),
    ("plain", "level", False, False), ("plain", "init", False, False),
    ("dataclass", "level", True, False), ("dataclass", "level", True, True), ("plain", "init", True, True),
    ("namedtuple", "level", True, False),
]


def class_spec(rng, n, ncls, pres, style, edges=None, val=None):
    flavour, present, nested, qualified = pres
    if edges is None:
        k = rng.randint(1, 2)
        edges = [class_edge(rng.choice(["opt", "list", "dict", "tuple"]), rng.randrange(ncls)) for _ in range(k)]
        if n < ncls - 1 and rng.random() < 0.3:
            edges.insert(rng.randint(0, len(edges)), class_edge("plain", rng.randrange(n + 1, ncls)))
    opts = rng.choice(["", "frozen=True", "slots=True"]) if flavour == "dataclass" else ""
    return {"kind": "class", "flavour": flavour, "opts": opts, "present": present, "nested": nested,
            "qualified": qualified, "val": val or rng.choice(["int", "Decimal", "date", "int"]), "edges": edges,
            "style": style}


def direct_cycle(specs):
    """a cycle of aliases that goes through `direct` members only defines nothing (A = B | None, B = A | None)"""
    nxt = {}
    for n, s in enumerate(specs):
        if s["kind"] == "alias" and s["body"][0] == "union":
            nxt[n] = [m[1] for m in s["body"][2] if m[0] == "name"]
    for start in nxt:
        seen, todo = set(), [start]
        while todo:
            x = todo.pop()
            for y in nxt.get(x, []):
                if y == start:
                    return True
                if y not in seen and specs[y]["kind"] == "alias":
                    seen.add(y)
                    todo.append(y)
    return False


def alias_groups_specs(run, rng):
    """(label, specs, roots) of the alias stratum"""
    out = []
    forms = [(f, c) for f in ("opt", "leaf", "plain") for c in CONTAINERS]
    # 1. every style x every self-recursive form (one module per style, nine aliases)
    for style in STYLE_NAMES:
        specs = [{"kind": "alias", "body": alias_body(f, c, n), "style": style} for n, (f, c) in enumerate(forms)]
        out.append((f"self/{style}", specs, [("name", n) for n in range(len(specs))]))
    # 2. cycles over 2..3 nodes, each an alias or a class, every node in a style of its own
    n_multi = run.budget(24, 100)
    tries = 0
    while len(out) < len(STYLE_NAMES) + n_multi and tries < 50 * n_multi:
        tries += 1
        nn = rng.choice([2, 2, 3])
        kinds = [rng.choice(["alias", "alias", "class"]) for _ in range(nn)]
        if "alias" not in kinds:
            kinds[rng.randrange(nn)] = "alias"
        # node i points at node i+1 (so that there is one cycle through all of them); extra edges at random
        specs = []
        for i, kd in enumerate(kinds):
            tgt = (i + 1) % nn if rng.random() < 0.8 else rng.randrange(nn)
            style = rng.choice(STYLE_NAMES)
            if kd == "alias":
                form = rng.choice(["opt", "leaf", "plain", "direct"])
                if form == "direct" and tgt == i:
                    form = "opt"
                specs.append({"kind": "alias", "body": alias_body(form, rng.choice(CONTAINERS), tgt), "style": style})
            else:
                style = rng.choice(CLASS_STYLE_NAMES)
                pres = rng.choice(PRESENTATIONS[:5] + PRESENTATIONS[5:7])
                edges = [class_edge(rng.choice(["opt", "list", "dict", "tuple"]), tgt)]
                if rng.random() < 0.4:
                    edges.append(class_edge(rng.choice(["opt", "list", "dict", "tuple"]), rng.randrange(nn)))
                specs.append(class_spec(rng, i, nn, pres, style, edges=edges, val="int"))
        if direct_cycle(specs):
            continue
        roots = [("name", n) for n in range(nn)] + [container(rng.choice(CONTAINERS), 0)]
        out.append((f"cycle{nn}/" + "+".join(s["kind"][0] for s in specs), specs, roots))
    return out


def class_groups_specs(run, rng):
    """(label, specs, roots) of the class stratum: presentation x style, then cycles over 2..3 classes"""
    out = []
    kinds = ["opt", "list", "dict", "tuple"]
    # 1. every presentation x every style on a self-recursive class (one module per presentation)
    for pi, pres in enumerate(PRESENTATIONS):
        specs = []
        for si, style in enumerate(CLASS_STYLE_NAMES):
            n = len(specs)
            edges = [class_edge(kinds[(si + pi) % 4], n)]
            if (si + pi) % 3 == 0:
                edges.append(class_edge(kinds[(si + pi + 1) % 4], n))
            specs.append(class_spec(rng, n, len(CLASS_STYLE_NAMES), pres, style, edges=edges))
        out.append((f"self/{pres[0]}-{pres[1]}{'-nested' if pres[2] else ''}{'-qualified' if pres[3] else ''}",
                    specs, [("name", n) for n in range(len(specs))]))
    # 2. cycles over 2..3 classes, presentation and style drawn per class
    for _ in range(run.budget(10, 40)):
        nn = rng.choice([2, 2, 3])
        specs = []
        for i in range(nn):
            tgt = (i + 1) % nn if rng.random() < 0.8 else rng.randrange(nn)
            edges = [class_edge(rng.choice(kinds), tgt)]
            if rng.random() < 0.4:
                edges.append(class_edge(rng.choice(kinds), rng.randrange(nn)))
            if i < nn - 1 and rng.random() < 0.25:
                edges.insert(rng.randint(0, len(edges)), class_edge("plain", rng.randrange(i + 1, nn)))
            specs.append(class_spec(rng, i, nn, rng.choice(PRESENTATIONS), rng.choice(CLASS_STYLE_NAMES), edges=edges))
        roots = [("name", n) for n in range(nn)] + [container(rng.choice(CONTAINERS), 0),
                                                    ("union", "Optional", [("name", 0), ("none",)])]
        out.append((f"cycle{nn}", specs, roots))
    return out


def build(run, which, depths, D):
    """-> (groups, records) of one stratum (`which` in {"alias", "class"})"""
    import json
    rng = random.Random(run.seed * 13 + (5 if which == "alias" else 9))
    plan = alias_groups_specs(run, rng) if which == "alias" else class_groups_specs(run, rng)
    groups, records = [], []
    for label, specs, roots in plan:
        env = make_env(specs)
        g = SpelledGroup(env, roots, coreprop.suppressed())
        g.fuel = 8 * D + 60
        g.c07_label = label
        g.c07_stratum = which
        for ri, root in enumerate(roots):
            if label.startswith("self/"):
                ds = sorted({0, 1, D} | ({3, 12} if run.tier == "thorough" else set()))
            else:
                ds = depths if root[0] == "name" else depths[:3]
            for d in ds:
                b = Builder(g.env, g.mod)
                try:
                    v, raw = b.of_type(root, d) if root[0] != "name" else b.node(root[1], d)
                except Exception as e:                                       # pragma: no cover
                    run.notes.append(f"c07 spelled value construction failed ({label}): {e!r}")
                    continue
                rec = coreprop.Record(g, ri, v)
                rec.wire = g.add("m", ri, v)
                if rec.wire[0] == "ok":
                    rec.inputs.append(("wire", rec.wire[1], g.add("u", ri, rec.wire[1])))
                    # (JSON text of a bare scalar / of None at the root is C08 / C14's subject, not a level of recursion)
                    if d in (1, 2) and isinstance(rec.wire[1], (list, dict)) and coregen.jsonable(rec.wire[1]):
                        s = json.dumps(rec.wire[1])
                        rec.inputs.append(("json", s, g.add("u", ri, s)))
                rec.inputs.append(("raw", raw, g.add("u", ri, raw)))
                if d in (1, D):
                    rec.inputs.append(("valid", v, g.add("u", ri, v)))
                rec.case_index["depth"] = d
                rec.case_index["stratum"] = which
                rec.case_index["label"] = label
                records.append(rec)
        groups.append(g)
    return groups, records


def distribution(groups, records):
    styles, pres, labels = {}, {}, {}
    for g in groups:
        labels[g.c07_label.split("/")[0]] = labels.get(g.c07_label.split("/")[0], 0) + 1
        for info in g.env["c07"].values():
            styles[info["style"]] = styles.get(info["style"], 0) + 1
            if "present" in info:
                key = info["present"] + ("-nested" if info["nested"] else "") + ("-qualified" if info["qualified"] else "")
                pres[key] = pres.get(key, 0) + 1
            else:
                pres["alias"] = pres.get("alias", 0) + 1
    return {"groups": len(groups), "nodes_by_style": styles, "nodes_by_presentation": pres, "groups_by_shape": labels,
            "depth_histogram": {str(d): sum(1 for r in records if r.case_index.get("depth") == d)
                                for d in sorted({r.case_index.get("depth") for r in records})}}
