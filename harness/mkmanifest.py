"""Regenerates MANIFEST.json from the table below (run by hand after adding a check)."""
import json
import os

VERIF = os.path.dirname(os.path.dirname(os.path.abspath(__file__)))

CLAIMED = {}

# per-property claim files written next to each check: manifest.d/Cxx.json with keys text, design_ref, note, technique
MD = os.path.join(VERIF, "manifest.d")
if os.path.isdir(MD):
    for fn in sorted(os.listdir(MD)):
        if fn.endswith(".json"):
            CLAIMED[fn[:-5]] = json.load(open(os.path.join(MD, fn)))

TITLES = {}
for line in open(os.path.join(VERIF, "properties.jsonl")):
    p = json.loads(line)
    TITLES[p["id"]] = p["title"]

PENDING_REASON = "check not built yet in this development (planned: DESIGN.md section 10); no claim is made"


def main():
    checks = []
    for pid in sorted(CLAIMED):
        c = CLAIMED[pid]
        checks.append({
            "property_id": pid,
            "quick_cmd": f"./check {pid} --tier quick",
            "thorough_cmd": f"./check {pid} --tier thorough",
            "evidence_file": f"evidence/{pid}.json",
            "replay_cmd_template": f"./check {pid} --replay {{path}}",
            "engine": "coq-model",
            "level_claimed": {"category": "proof", "text": c["text"], "design_ref": c["design_ref"]},
            "level_note": c["note"],
            "technique": c["technique"],
        })
    na = [{"property_id": pid, "reason": PENDING_REASON} for pid in sorted(TITLES) if pid not in CLAIMED]
    m = {
        "version": 1,
        "setup_cmd": "bash setup.sh",
        "hooks": {
            "guard": "TYPELIB_VERIF",
            "enable": "checks import typelib from /repo/src with TYPELIB_VERIF=1 in the environment; no source hooks "
                      "are needed (tables are read by import, caches cleared through cache_clear())",
            "baseline_off_cmd": "cd /repo && /venv/bin/python -m pytest -ra -q -p no:cacheprovider --timeout=900 "
                                "--continue-on-collection-errors",
            "source_commits": [],
            "add_only": True,
        },
        "engines": [{
            "name": "coq-model", "path": "coq/",
            "serves_properties": sorted(CLAIMED),
            "kind_free_text": "hand-written Gallina model of typelib's logic + Coq 8.16.1 proofs; tables regenerated "
                              "from the live module each run; correspondence by cases.v + vm_compute",
        }],
        "checks": checks,
        "not_applicable": na,
        "notes": "Single entry point ./check <id> --tier quick|thorough. Fix commits in /repo are listed in "
                 "known_findings.json under 'fixed'.",
    }
    with open(os.path.join(VERIF, "MANIFEST.json"), "w") as f:
        json.dump(m, f, indent=1)
    print("claimed:", sorted(CLAIMED), "pending:", len(na))


if __name__ == "__main__":
    main()
