"""Regenerates MANIFEST.json from the table below (run by hand after adding a check)."""
import json
import os

VERIF = os.path.dirname(os.path.dirname(os.path.abspath(__file__)))

CLAIMED = {
    "C10": {
        "text": "Coq theorems over all signatures and all calls (no bound on arity): every binder idiom is proved sound "
                "for the kind-presence tuples satisfying its adequacy condition, and the dispatch matrix regenerated "
                "from the live module on every run is proved (vm_compute over its 32 rows) to route every tuple to an "
                "adequate binder; hence each argument is converted by the parameter it binds to, shapes are preserved "
                "and rejected calls stay TypeError. The hand model of _get_binding and of the 16 __call__ bodies is tied "
                "to the code by correspondence (cases.v + vm_compute) and the statement itself is replayed on the "
                "implementation for all 32 tuples x call shapes.",
        "design_ref": "DESIGN.md section 7 / C10",
        "note": "Trusted: Coq kernel+VM; reflection of _BINDING_CLS_MATRIX; correspondence harness; CPython's binding "
                "rule is the spec (checked against the interpreter and inspect.Signature.bind per generated call). "
                "functools.wraps metadata and the actual call of f are exercised by the oracle only.",
        "technique": "Coq proof (induction over argument lists, segment-form signatures) + reflected dispatch matrix "
                     "checked by vm_compute + model/implementation correspondence",
    },
}

# per-property claim files written next to each check: manifest.d/Cxx.json with keys text, design_ref, note, technique
MD = os.path.join(VERIF, "manifest.d")
if os.path.isdir(MD):
    for fn in sorted(os.listdir(MD)):
        if fn.endswith(".json"):
            CLAIMED[fn[:-5]] = json.load(open(os.path.join(MD, fn)))

TITLES = {}
for line in open(os.path.join(VERIF, "properties.jsonl")):
    p = json.loads(line)
    TITLES[p["id"]] = p["title"]

PENDING_REASON = "check not built yet in this development (planned: DESIGN.md section 10); no claim is made"


def main():
    checks = []
    for pid in sorted(CLAIMED):
        c = CLAIMED[pid]
        checks.append({
            "property_id": pid,
            "quick_cmd": f"./check {pid} --tier quick",
            "thorough_cmd": f"./check {pid} --tier thorough",
            "evidence_file": f"evidence/{pid}.json",
            "replay_cmd_template": f"./check {pid} --replay {{path}}",
            "engine": "coq-model",
            "level_claimed": {"category": "proof", "text": c["text"], "design_ref": c["design_ref"]},
            "level_note": c["note"],
            "technique": c["technique"],
        })
    na = [{"property_id": pid, "reason": PENDING_REASON} for pid in sorted(TITLES) if pid not in CLAIMED]
    m = {
        "version": 1,
        "setup_cmd": "bash setup.sh",
        "hooks": {
            "guard": "TYPELIB_VERIF",
            "enable": "checks import typelib from /repo/src with TYPELIB_VERIF=1 in the environment; no source hooks "
                      "are needed (tables are read by import, caches cleared through cache_clear())",
            "baseline_off_cmd": "cd /repo && /venv/bin/python -m pytest -ra -q -p no:cacheprovider --timeout=900 "
                                "--continue-on-collection-errors",
            "source_commits": [],
            "add_only": True,
        },
        "engines": [{
            "name": "coq-model", "path": "coq/",
            "serves_properties": sorted(CLAIMED),
            "kind_free_text": "hand-written Gallina model of typelib's logic + Coq 8.16.1 proofs; tables regenerated "
                              "from the live module each run; correspondence by cases.v + vm_compute",
        }],
        "checks": checks,
        "not_applicable": na,
        "notes": "Single entry point ./check <id> --tier quick|thorough. Fix commits in /repo are listed in "
                 "known_findings.json under 'fixed'.",
    }
    with open(os.path.join(VERIF, "MANIFEST.json"), "w") as f:
        json.dump(m, f, indent=1)
    print("claimed:", sorted(CLAIMED), "pending:", len(na))


if __name__ == "__main__":
    main()
