"""C05, round 3: two strata of the property's quantifier the random streams never produced.

(a) EQUAL MEMBERS: inside one composite value, member INPUTS that are distinct objects but compare == with equal
    hash (True / 1 / 1.0 / Decimal('1.0'), 0.0 / -0.0 / False, Decimal('1.5') / Decimal('1.50'), one instant at two
    UTC offsets, (1, 2) / (1.0, 2.0), frozenset({1}) / frozenset({True})) and that the member type's own routine
    converts DIFFERENTLY.  "Each member value converted by the routine obtained independently for that member's
    annotated type" quantifies over member values, not over ==-classes of member values.
(b) CALL HISTORIES: several calls, one after the other, of the public API on ONE annotation without clearing any
    cache in between (api.unmarshaller / api.marshaller cache the composite routine per annotation, so it is the same
    routine object that sees the whole history).  The statement is about every call, whatever the routine converted
    before.

Both strata are laid over every member POSITION a composite routine has (mapping key / mapping value / element of
list, tuple[..., ...], set, frozenset, deque / slot of a fixed tuple / member of a union / field of the four
structured flavours), at the root and nested (list of records holding a mapping, mapping of mappings, one mapping
type on two paths, Optional[mapping], list of frozensets, mapping of holders, a recursive class, NewType / alias
around a composite), for a catalogue of member types, in both directions.

Inputs are SOURCE TEXT evaluated in the synthesised module (so that a replay file can carry them).
The model (Model/Core.v) is stateless and sees ==-equal distinct atoms as distinct atoms (atom_eq only says which of
them set / dict constructors collapse): a per-routine memo is a mismatch of the k-th case of a history.
"""
from __future__ import annotations

import collections
import dataclasses
import datetime
import decimal
import enum
import fractions
import pathlib
import uuid
import warnings

import coremodel
import coreprop
import impl
import universe
from universe import cname

# ----------------------------------------------------------------------------------
# families of pairwise ==, hash-equal, distinct inputs (source text in the module namespace)
# ----------------------------------------------------------------------------------
_UTC = "datetime.timezone.utc"
_P2 = "datetime.timezone(datetime.timedelta(hours=2))"
_M5 = "datetime.timezone(datetime.timedelta(hours=-5))"
FAMILIES = {
    "one": ["1", "True", "decimal.Decimal('1.0')", "decimal.Decimal('1')", "1.0", "fractions.Fraction(1)"],
    "zero": ["0.0", "False", "-0.0", "0", "decimal.Decimal('0')", "decimal.Decimal('-0')", "decimal.Decimal('0.00')"],
    "three-halves": ["decimal.Decimal('1.50')", "decimal.Decimal('1.5')", "1.5", "fractions.Fraction(3, 2)"],
    "instant": [f"datetime.datetime(2024, 6, 1, 12, 0, tzinfo={_UTC})", f"datetime.datetime(2024, 6, 1, 14, 0, tzinfo={_P2})",
                f"datetime.datetime(2024, 6, 1, 7, 0, tzinfo={_M5})"],
    "time-of-day": [f"datetime.time(12, 0, tzinfo={_UTC})", f"datetime.time(14, 0, tzinfo={_P2})"],
    "big": ["2 ** 70", "float(2 ** 70)", "decimal.Decimal(2 ** 70)"],
    "pair": ["(1, 2)", "(1.0, 2.0)", "(True, 2)"],
    "frozenset": ["frozenset({1})", "frozenset({1.0})", "frozenset({True})"],
}
# a time without a date is completed with TODAY by the date / datetime / number routines: not a function of the input
FAMILY_ONLY_FOR = {"time-of-day": {"str", "bytes", "Any", "time", "opt-str", "newtype-str"}}

_NS = {"datetime": datetime, "decimal": decimal, "fractions": fractions}
for _n, _f in FAMILIES.items():
    _o = [eval(s, dict(_NS)) for s in _f]
    for _a in _o:
        for _b in _o:
            assert _a == _b and hash(_a) == hash(_b), (_n, _a, _b)
    assert len({(type(x), repr(x)) for x in _o}) == len(_o), _n

L = lambda k: ("leaf", k)
# member types: (tag, description).  Wrapper ids 71.. are private to this catalogue.
MEMBERS = [
    ("str", L("str")), ("Any", L("Any")), ("Decimal", L("Decimal")), ("float", L("float")), ("int", L("int")),
    ("bytes", L("bytes")), ("Fraction", L("Fraction")), ("datetime", L("datetime")), ("time", L("time")),
    ("bool", L("bool")),
    ("int|str", ("union", "|", [L("int"), L("str")])),
    ("opt-str", ("union", "Optional", [L("str"), ("none",)])),
    ("Decimal|float", ("union", "Union", [L("Decimal"), L("float")])),
    ("tuple[str,str]", ("tuple", "tuple[{}]", [L("str"), L("str")])),
    ("frozenset[str]", ("seq", "KFrozenset", "frozenset[{}]", L("str"))),
    ("newtype-str", ("newtype", 71, L("str"))),
    ("alias-Decimal", ("alias", 72, L("Decimal"))),
]
ALWAYS = ("str", "Any", "Decimal")          # quick tier: every shape for these; a sample of shapes for the others


def member_env(tag, m):
    """the module of one member type M: the four structured flavours with three M fields, a record holding a
    mapping keyed by M, a holder of M collections, a recursive class with an M field"""
    env = {"module": coregen_name("eq"), "defs": {}}
    f3 = [("a", m, None), ("b", m, None), ("c", m, None)]
    env["defs"][0] = ("class", "dataclass", "", list(f3))
    env["defs"][1] = ("class", "namedtuple", "", list(f3))
    env["defs"][2] = ("class", "typeddict", "", list(f3))
    env["defs"][3] = ("class", "plain", "", list(f3))
    env["defs"][4] = ("class", "dataclass", "", [("name", L("str"), None),
                                                 ("points", ("map", "KDict", "dict[{}, {}]", m, L("int")), None)])
    env["defs"][5] = ("class", "dataclass", "", [
        ("items", ("seq", "KList", "list[{}]", m), None),
        ("extra", ("union", "Optional", [("seq", "KSet", "set[{}]", m), ("none",)]), None)])
    env["defs"][6] = ("class", "dataclass", "", [("val", m, None),
                                                 ("kids", ("seq", "KList", "list[{}]", ("name", 6)), None)])
    return env


def coregen_name(tag):
    import coregen
    return coregen.new_module_name(tag)


# ----------------------------------------------------------------------------------
# shapes: (tag, root description, histories for unmarshal, histories for marshal)
# a history = (kind, [source, ...]); kind 'A' = one call holding several equal members, 'B' = several calls each
# holding one, 'AB' = both / ==-equal whole inputs
# ----------------------------------------------------------------------------------

def _cyc(fs, n):
    return [fs[i % len(fs)] for i in range(n)]


def shapes(m, fs, is_union):
    """fs: sources of one family, the first two convert differently under m"""
    f1, f2, f3 = _cyc(fs, 3)
    I = L("int")
    kv = lambda f, i: f"{{{f}: {10 * (i + 1)}}}"
    pairs = "[" + ", ".join(f"({f}, {10 * (i + 1)})" for i, f in enumerate(fs)) + "]"
    lists = "[" + ", ".join(f"[{f}, {10 * (i + 1)}]" for i, f in enumerate(fs)) + "]"
    singles = [kv(f, i) for i, f in enumerate(fs)]
    mapk = [("A", [pairs]), ("A", [lists]), ("B", singles), ("AB", [singles[0], pairs, singles[1]])]
    elems = "[" + ", ".join(fs) + "]"
    tup = "(" + ", ".join(fs) + ",)"
    seq = [("A", [elems]), ("A", [tup]), ("B", [f"({f},)" for f in fs]),
           ("AB", [f"({f1}, {f2})", f"({f2}, {f1})", f"[{f1}]", f"[{f2}]"])]
    out = []
    dm = ("map", "KDict", "dict[{}, {}]", m, I)
    for kind, sp in (("KDict", "dict[{}, {}]"), ("KOrderedDict", "collections.OrderedDict[{}, {}]"),
                     ("KDict", "typing.Mapping[{}, {}]")):
        out.append((f"key of {sp}", ("map", kind, sp, m, I), mapk, mapk))
    mv = [("A", [f"{{'p': {f1}, 'q': {f2}, 'r': {f3}}}"]), ("B", [f"{{'p': {f}}}" for f in fs])]
    out.append(("value of dict", ("map", "KDict", "dict[{}, {}]", L("str"), m), mv, mv))
    for kind, sp in (("KList", "list[{}]"), ("KTuple", "tuple[{}, ...]"), ("KSet", "set[{}]"),
                     ("KFrozenset", "frozenset[{}]"), ("KDeque", "collections.deque[{}]"),
                     ("KList", "typing.Sequence[{}]")):
        out.append((f"element of {sp}", ("seq", kind, sp, m), seq, seq))
    ft = [("A", [f"({f1}, {f2}, {f3})"]), ("B", [f"({f}, {f}, {f})" for f in fs]),
          ("AB", [f"({f1}, {f2}, {f1})", f"({f2}, {f1}, {f2})"])]
    out.append(("slot of tuple[M, M, M]", ("tuple", "tuple[{}]", [m, m, m]), ft, ft))
    if not is_union:
        oe = [("A", [f"[{f1}, None, {f2}, {f3}]"]), ("B", [f"[{f1}, None]", f"[None, {f2}]", f"({f3},)"])]
        out.append(("member of Optional in list", ("seq", "KList", "list[{}]", ("union", "Optional", [m, ("none",)])), oe, oe))
    # structured flavours
    for n in range(4):
        c = cname(n)
        mp = lambda a, b, c_: f"{{'a': {a}, 'b': {b}, 'c': {c_}}}"
        inst = (lambda a, b, c_: mp(a, b, c_)) if n == 2 else (lambda a, b, c_, c=c: f"{c}(a={a}, b={b}, c={c_})")
        u = [("A", [mp(f1, f2, f3)]), ("A", [f"[('a', {f1}), ('b', {f2}), ('c', {f3})]"]), ("A", [inst(f2, f1, f3)]),
             ("B", [mp(f, f, f) for f in fs])]
        mm = [("A", [inst(f1, f2, f3)]), ("A", [mp(f2, f3, f1)]), ("B", [inst(f, f, f) for f in fs])]
        out.append((f"field of {('dataclass', 'NamedTuple', 'TypedDict', 'plain class')[n]}", ("name", n), u, mm))
    # nested
    rec_u = lambda nm, f, i: f"{{'name': '{nm}', 'points': {kv(f, i)}}}"
    rec_m = lambda nm, f, i: f"{cname(4)}(name='{nm}', points={kv(f, i)})"
    lr = ("seq", "KList", "list[{}]", ("name", 4))
    out.append(("list of records holding dict[M, int]", lr,
                [("A", ["[" + ", ".join(rec_u(f"r{i}", f, i) for i, f in enumerate(fs)) + "]"]),
                 ("B", [f"[{rec_u('r', f, i)}]" for i, f in enumerate(fs)])],
                [("A", ["[" + ", ".join(rec_m(f"r{i}", f, i) for i, f in enumerate(fs)) + "]"]),
                 ("B", [f"[{rec_m('r', f, i)}]" for i, f in enumerate(fs)])]))
    dd = [("A", ["{" + ", ".join(f"'k{i}': {kv(f, i)}" for i, f in enumerate(fs)) + "}"]),
          ("B", [f"{{'k': {kv(f, i)}}}" for i, f in enumerate(fs)])]
    out.append(("dict of dict[M, int]", ("map", "KDict", "dict[{}, {}]", L("str"), dm), dd, dd))
    tp = [("A", [f"({kv(f1, 0)}, {kv(f2, 1)})"]), ("B", [f"({kv(f1, 0)}, {{}})", f"({{}}, {kv(f2, 1)})"])]
    out.append(("dict[M, int] on two paths of a tuple", ("tuple", "tuple[{}]", [dm, dm]), tp, tp))
    om = [("A", [pairs]), ("B", singles[:2] + ["None"])]
    out.append(("Optional[dict[M, int]]", ("union", "Optional", [dm, ("none",)]), om, om))
    lf = [("A", ["[" + ", ".join(f"[{f}]" for f in fs) + f", [{f2}, {f1}]]"]), ("B", [f"[[{f}]]" for f in fs])]
    out.append(("list of frozenset[M]", ("seq", "KList", "list[{}]", ("seq", "KFrozenset", "frozenset[{}]", m)), lf, lf))
    h = cname(5)
    ho_u = [("A", [f"{{'h': {{'items': [{f1}, {f2}], 'extra': [{f2}, {f1}]}}, 'k': {{'items': [{f3}], 'extra': None}}}}"]),
            ("B", [f"{{'h': {{'items': [{f1}], 'extra': None}}}}", f"{{'h': {{'items': [{f2}], 'extra': [{f2}]}}}}"])]
    ho_m = [("A", [f"{{'h': {h}(items=[{f1}, {f2}], extra={{{f2}}}), 'k': {h}(items=[{f3}], extra=None)}}"]),
            ("B", [f"{{'h': {h}(items=[{f1}], extra=None)}}", f"{{'h': {h}(items=[{f2}], extra={{{f2}}})}}"])]
    out.append(("dict of holders of list[M] / Optional[set[M]]", ("map", "KDict", "dict[{}, {}]", L("str"), ("name", 5)), ho_u, ho_m))
    nd = cname(6)
    nu = lambda f, kids: f"{{'val': {f}, 'kids': [{kids}]}}"
    nmm = lambda f, kids: f"{nd}(val={f}, kids=[{kids}])"
    out.append(("recursive class with an M field", ("name", 6),
                [("A", [nu(f1, nu(f2, "") + ", " + nu(f3, nu(f1, "")))]), ("B", [nu(f, "") for f in fs])],
                [("A", [nmm(f1, nmm(f2, "") + ", " + nmm(f3, nmm(f1, "")))]), ("B", [nmm(f, "") for f in fs])]))
    out.append(("NewType of list[M]", ("newtype", 81, ("seq", "KList", "list[{}]", m)), seq, seq))
    out.append(("alias of dict[M, int]", ("alias", 82, dm), mapk, mapk))
    return out


# ----------------------------------------------------------------------------------
# comparison: same value = same runtime class at every position (mapping keys included), ==, and for the numeric
# classes whose == is coarser than the value (sign of zero, Decimal exponent) the same repr
# ----------------------------------------------------------------------------------

def same_strict(a, b) -> bool:
    if type(a) is not type(b):
        return False
    if isinstance(a, dict):
        ka, kb = list(a), list(b)
        return len(ka) == len(kb) and all(same_strict(x, y) and same_strict(a[x], b[y]) for x, y in zip(ka, kb))
    if isinstance(a, (list, tuple, collections.deque)):
        return len(a) == len(b) and all(same_strict(x, y) for x, y in zip(a, b))
    if isinstance(a, (set, frozenset)):
        return len(a) == len(b) and all(any(same_strict(x, y) for y in b) for x in a)
    if dataclasses.is_dataclass(a) and not isinstance(a, type):
        return all(same_strict(getattr(a, f.name, None), getattr(b, f.name, None)) for f in dataclasses.fields(a))
    if hasattr(a, "__dict__") and type(a).__module__.startswith("verif_core"):
        return vars(a).keys() == vars(b).keys() and all(same_strict(vars(a)[k], vars(b)[k]) for k in vars(a))
    if isinstance(a, (datetime.datetime, datetime.time)):
        return a == b and a.utcoffset() == b.utcoffset()
    if isinstance(a, (float, decimal.Decimal, complex)):
        return repr(a) == repr(b)
    try:
        return bool(a == b)
    except Exception:
        return False


def agree(e, o) -> bool:
    """e, o: ('ok', value) | ('raise', kind)"""
    if e[0] != o[0]:
        return False
    if e[0] == "raise":
        return True          # exception parity: both reject (the kind is not part of the statement)
    try:
        return same_strict(e[1], o[1]) or repr(e[1]) == repr(o[1])
    except Exception:
        return False


# ----------------------------------------------------------------------------------
# Python value -> source text evaluable in the synthesised module (for replays of nested levels)
# ----------------------------------------------------------------------------------

def pysrc(x, reg) -> str | None:
    t = type(x)
    if x is None or t in (bool, int, str, bytes):
        return repr(x)
    if t is float:
        return repr(x) if x == x and x not in (float("inf"), float("-inf")) else f"float({str(x)!r})"
    if t is decimal.Decimal:
        return "decimal." + repr(x)
    if t is fractions.Fraction:
        return "fractions." + repr(x)
    if t is uuid.UUID:
        return "uuid." + repr(x)
    if isinstance(x, pathlib.PurePath):
        return "pathlib." + repr(x)
    if t in (datetime.datetime, datetime.date, datetime.time, datetime.timedelta):
        return repr(x)
    if isinstance(x, enum.Enum) and getattr(reg.mod, t.__name__, None) is t:
        return f"{t.__name__}.{x.name}"
    subs = None
    if t in (list, tuple, set, frozenset, collections.deque):
        subs = [pysrc(v, reg) for v in x]
        if any(s is None for s in subs):
            return None
        if t is list:
            return "[" + ", ".join(subs) + "]"
        if t is tuple:
            return "(" + ", ".join(subs) + ("," if len(subs) == 1 else "") + ")"
        inner = "[" + ", ".join(subs) + "]"
        return {set: "set", frozenset: "frozenset", collections.deque: "collections.deque"}[t] + f"({inner})"
    if t in (dict, collections.OrderedDict):
        ks, vs = [pysrc(k, reg) for k in x], [pysrc(v, reg) for v in x.values()]
        if any(s is None for s in ks + vs):
            return None
        if t is dict:
            return "{" + ", ".join(f"{k}: {v}" for k, v in zip(ks, vs)) + "}"
        return "collections.OrderedDict([" + ", ".join(f"({k}, {v})" for k, v in zip(ks, vs)) + "])"
    if t in reg.classes:
        n = reg.classes[t]
        d = reg.env["defs"][n]
        if d[1] == "namedtuple":
            items = list(zip([f for f, _, _ in d[3]], list(x)))
        else:
            items = [(f, getattr(x, f)) for f, _, _ in d[3] if hasattr(x, f)]
        subs = [(f, pysrc(v, reg)) for f, v in items]
        if any(s is None for _, s in subs):
            return None
        return f"{cname(n)}(" + ", ".join(f"{f}={s}" for f, s in subs) + ")"
    return None


# ----------------------------------------------------------------------------------
# running a history on the implementation
# ----------------------------------------------------------------------------------

def call_api(g, pytype, direction, x):
    """one call of the public API, NO cache is cleared"""
    from typelib import marshals, unmarshals
    try:
        with warnings.catch_warnings():
            warnings.simplefilter("ignore")
            if isinstance(pytype, str):
                depth = getattr(g, "ref_depth", 0)
                r = g.mod._verif_um(pytype, x, depth) if direction == "u" else g.mod._verif_m(pytype, x, depth)
            elif direction == "u":
                r = unmarshals.unmarshal(pytype, x)
            else:
                r = marshals.marshal(x, t=pytype)
        return ("ok", r)
    except RecursionError:
        return ("raise", "ERecursion")
    except BaseException as e:
        return ("raise", impl.exc_kind(e))


def run_history(g, pytype, direction, xs):
    """the calls of one history, in order, on one annotation, caches cleared once before the first call"""
    impl.clear_caches()
    return [call_api(g, pytype, direction, x) for x in xs]


def add_history(g, direction, ri, xs, meta):
    """correspondence cases of one history: the k-th case is (annotation, k-th input, what the k-th call of the
    history returned); the model evaluates every case from scratch (it has no state to carry)"""
    obs = run_history(g, g.pytys[ri], direction, xs)
    out = []
    for k, (x, o) in enumerate(zip(xs, obs)):
        g.observe = lambda d, r, v, o=o: o          # Group.add: observation -> mirror (tables) -> case
        try:
            g.add(direction, ri, x)
        finally:
            del g.observe
        g.cases[-1][4].update({"history": meta, "step": k, "of": len(xs)})
        out.append(o)
    return out


# ----------------------------------------------------------------------------------
# plans
# ----------------------------------------------------------------------------------

class Plan:
    __slots__ = ("group", "ri", "direction", "kind", "srcs", "member", "family", "shape", "observed")

    def __init__(self, group, ri, direction, kind, srcs, member, family, shape):
        self.group, self.ri, self.direction, self.kind, self.srcs = group, ri, direction, kind, srcs
        self.member, self.family, self.shape = member, family, shape
        self.observed = None

    def inputs(self):
        return [eval(s, dict(self.group.mod.__dict__)) for s in self.srcs]


def discriminating(pytype, fam_objs, direction):
    """order of the family's members such that the first two are converted, by the member type's own routine,
    into different values; None when the routine renders all of them alike (nothing a shared result could change)"""
    rs = []
    for o in fam_objs:
        impl.clear_caches()
        rs.append(call_api(None, pytype, direction, o))
    for i in range(len(rs)):
        for j in range(i + 1, len(rs)):
            if rs[i][0] == "ok" and rs[j][0] == "ok" and not same_strict(rs[i][1], rs[j][1]):
                rest = [k for k in range(len(rs)) if k not in (i, j)]
                # members the routine accepts come first
                rest.sort(key=lambda k: rs[k][0] != "ok")
                return [i, j] + rest
    return None


def generate(run, seed_offset=50):
    """-> (groups, plans, dist).  One group (module) per member type."""
    import random
    rng = random.Random(run.seed * 1000 + seed_offset)
    thorough = run.tier == "thorough"
    sup = coreprop.suppressed()
    groups, plans = [], []
    dist = {"member_types": 0, "roots": 0, "histories": 0, "within_call_histories": 0, "multi_call_histories": 0,
            "calls": 0, "skipped_member_family_pairs_rendered_alike": 0}
    nmem = 4 if not thorough else 7     # quick: the differently rendered pair + two more (one of the same class)
    for tag, m in MEMBERS:
        is_union = m[0] == "union"
        env = member_env(tag, m)
        probe_mod, (probe_ty,), _ = universe.materialise({"module": coregen_name("probe"), "defs": {}}, [m])
        # which families does M render differently, per direction
        fams = {"u": [], "m": []}
        for fname, srcs in FAMILIES.items():
            if fname in FAMILY_ONLY_FOR and tag not in FAMILY_ONLY_FOR[fname]:
                continue
            objs = [eval(s, dict(probe_mod.__dict__)) for s in srcs]
            for d in ("u", "m"):
                order = discriminating(probe_ty, objs, d)
                if order is None:
                    dist["skipped_member_family_pairs_rendered_alike"] += 1
                else:
                    fams[d].append((fname, [srcs[i] for i in order][:nmem]))
        impl.drop_module(probe_mod.__name__)
        if not fams["u"] and not fams["m"]:
            continue
        # the shapes do not depend on the family as far as the ROOT is concerned: take them from any family
        proto = shapes(m, ["0", "1", "2"], is_union)
        idx = list(range(len(proto)))
        if not thorough and tag not in ALWAYS:
            idx = sorted(rng.sample(idx, 7))
        roots = [proto[i][1] for i in idx]
        g = coremodel.Group(env, roots, sup)
        g.c05_member = tag
        groups.append(g)
        dist["member_types"] += 1
        dist["roots"] += len(roots)
        for ri, si in enumerate(idx):
            for d in ("u", "m"):
                if not fams[d]:
                    continue
                chosen = fams[d] if thorough else [fams[d][(ri + rng.randrange(len(fams[d]))) % len(fams[d])]]
                for fname, fs in chosen:
                    sh = shapes(m, fs, is_union)[si]
                    hists = sh[2] if d == "u" else sh[3]
                    if not thorough:
                        a = [h for h in hists if h[0] == "A"]
                        b = [h for h in hists if h[0] != "A"]
                        hists = [a[rng.randrange(len(a))], b[rng.randrange(len(b))]]
                    for kind, srcs in hists:
                        p = Plan(g, ri, d, kind, srcs, tag, fname, sh[0])
                        try:
                            xs = p.inputs()
                        except Exception as e:        # a member the family cannot build in this module
                            continue
                        p.observed = add_history(g, d, ri, xs, {"kind": kind, "member": tag, "family": fname, "shape": sh[0]})
                        plans.append(p)
                        dist["histories"] += 1
                        dist["within_call_histories" if len(srcs) == 1 else "multi_call_histories"] += 1
                        dist["calls"] += len(srcs)
    return groups, plans, dist
