"""C17 search oracle: the property statement read directly on the implementation, independent of the Coq model.

For an object of the catalogue it asks the RUNTIME what the answer should be (issubclass against the ABC/base after
__supertype__/__value__/get_origin resolution and the documented abstract->builtin map; typing/dataclasses/inspect
helpers) and compares with typelib.py.inspection.  Every public function is called twice without clearing caches
(stability).  Ambiguities of the statement are resolved in favour of the code:
  * sequence/collection "include builtins" (the seven classes of the docstring), mapping includes sqlite3.Row and
    MappingProxyType (documented in the source);
  * the raw family (enum/text/string/bytes/number/integer/float/pattern/path) is judged WITHOUT the abstract->builtin
    map (collections.abc.Hashable is not "a string type");
  * origin() of a union is whatever typing.get_origin says (typing.Union vs types.UnionType);
  * isgeneric, name, qualname, isbuiltintype, isstdlibtype are about the spelling by their own documentation and are
    not compared across spellings (isstdlibtype IS compared across orderings of one union: order is not spelling).
"""
from __future__ import annotations

import collections.abc as cabc
import dataclasses
import datetime
import decimal
import enum
import fractions
import functools
import inspect
import numbers
import pathlib
import re
import sqlite3
import types
import typing as tp
import uuid

import impl

DOC_MAP = {
    cabc.Sequence: list, cabc.MutableSequence: list, cabc.Collection: list, cabc.Iterable: list,
    cabc.Set: set, cabc.MutableSet: set, cabc.Mapping: dict, cabc.MutableMapping: dict, cabc.Hashable: str,
}
if hasattr(cabc, "ByteString"):
    DOC_MAP[cabc.ByteString] = bytes
BUILTINS = (int, bool, float, str, bytes, bytearray, list, set, frozenset, tuple, dict, type(None))
DOC_COLLECTIONS = (list, set, tuple, frozenset, dict, str, bytes)
DOC_MAPPINGS = (dict, sqlite3.Row, types.MappingProxyType, cabc.Mapping)

ORIGIN_FAMILY = {
    "isdatetype": (datetime.date,), "isdatetimetype": (datetime.datetime,), "istimetype": (datetime.time,),
    "istimedeltatype": (datetime.timedelta,), "isdecimaltype": (decimal.Decimal,),
    "isfractiontype": (fractions.Fraction,), "isuuidtype": (uuid.UUID,), "isiterabletype": (cabc.Iterable,),
    "isiteratortype": (cabc.Iterator,), "istupletype": (tuple,), "ismappingtype": DOC_MAPPINGS,
}
RAW_FAMILY = {
    "isenumtype": (enum.Enum,), "istexttype": (str, bytes, bytearray, memoryview), "isstringtype": (str,),
    "isbytestype": (bytes, bytearray, memoryview), "isnumbertype": (numbers.Number,), "isintegertype": (int,),
    "isfloattype": (float,), "ispatterntype": (re.Pattern,), "ispathtype": (pathlib.PurePath,),
}
SPECIAL_FORM_PREDS = ["isuniontype", "isoptionaltype", "isliteral", "isfinal", "isclassvartype", "isfixedtupletype",
                      "issubscriptedgeneric", "isstructuredtype", "isnonetype", "isforwardref"]
# class-valued predicates are compared across spellings of class-like annotations only (special forms are outside
# their domain); special-form predicates across every spelling pair
SPELLING_FREE = list(ORIGIN_FAMILY) + ["issequencetype", "iscollectiontype"] + SPECIAL_FORM_PREDS
UNION_SPELLING_FREE = SPECIAL_FORM_PREDS
UNION_ORDER_FREE = SPECIAL_FORM_PREDS + ["isstdlibtype", "isbuiltintype"]
# accessors asked in sequence on ==-equal annotations (member order / spelling): each answer must be the one the
# object itself gets from a cold cache (compared with ==; args() as an ordered tuple) and, for args, typing.get_args
ACCESSORS_HISTORY = ["args", "origin", "name", "qualname", "unwrap", "resolve_supertype"]


def normalized_get_args(obj):
    out = []
    for a in tp.get_args(obj):
        if type(a) is tp.TypeVar:
            a = a.__bound__ or (tp.Union[a.__constraints__] if a.__constraints__ else tp.Any)
        out.append(a)
    return tuple(out)


def expected_names(obj):
    """documented name()/qualname() of a class-like annotation: -> (name or None, qualname or None)"""
    if hasattr(obj, "__supertype__"):
        return obj.__name__, None
    if isinstance(obj, type) and not isinstance(obj, types.GenericAlias):
        q = obj.__qualname__.replace("<locals>.", "")
        return obj.__name__, (None if obj.__module__ == "typing" else q)
    og = tp.get_origin(obj)
    if type(obj) is types.GenericAlias and isinstance(og, type):
        q = og.__qualname__ if og.__module__ == "builtins" else f"{og.__module__}.{og.__qualname__}"
        return og.__name__, q
    if type(obj).__module__ == "typing" and isinstance(og, type) and getattr(obj, "_name", None) \
            and og not in (tp.Union,) and not isinstance(obj, tp.TypeVar):
        return obj._name, "typing." + obj._name
    if type(obj).__module__ == "typing" and isinstance(og, type) and getattr(obj, "_name", "x") is None:
        return og.__name__, None          # subscripted user generic
    return None, None


def _issub(a, bases):
    for b in bases:
        try:
            if issubclass(a, b):
                return True
        except TypeError:
            pass
    return False


def resolve(obj):
    """NewType and alias resolution (any nesting), then the typing origin.  -> (class or None, wrapper kinds)"""
    from typelib.py import compat
    kinds = []
    x = obj
    for _ in range(64):
        if hasattr(x, "__supertype__"):
            kinds.append("N"); x = x.__supertype__
        elif isinstance(x, compat.TypeAliasType):
            kinds.append("A"); x = x.__value__
        else:
            break
    og = tp.get_origin(x)
    generic = og is not None and og is not x
    head = og if og is not None else x
    if not isinstance(head, type) or isinstance(head, types.GenericAlias):
        return None, kinds, generic
    return head, kinds, generic


def doc_map(c):
    return c if c in BUILTINS else DOC_MAP.get(c, c)


def region_of(obj):
    """classification of the INPUT (not of the outcome) used by the narrow matchers of known findings"""
    c, kinds, generic = resolve(obj)
    r = []
    if not re.fullmatch(r"N*A?", "".join(kinds)):
        r.append("alias-chain")
    if c is not None and _issub(doc_map(c), (cabc.Callable,)):
        r.append("callable-class")
    if c is not None and not isinstance(_unwrapped(obj), type):
        r.append("non-class-core")
    if c is cabc.ByteString:
        r.append("bytestring")
    return r


def _unwrapped(obj):
    from typelib.py import compat
    x = obj
    for _ in range(64):
        if hasattr(x, "__supertype__"):
            x = x.__supertype__
        elif isinstance(x, compat.TypeAliasType):
            x = x.__value__
        else:
            return x
    return x


def expected_unwrap(obj):
    """unwrap(): qualifiers (Final/ClassVar), NewTypes and aliases peeled in any nesting -> (annotation, regions);
    None when a string-valued alias is met (the answer is then a ForwardRef built by the library)"""
    from typelib.py import compat
    x, regions, behind = obj, [], False
    for _ in range(64):
        og = tp.get_origin(x)
        if og in (tp.Final, tp.ClassVar):
            if behind:
                regions.append("qualifier-behind-wrapper")
            x = tp.get_args(x)[0]
            behind = False
            continue
        if x is tp.Final or x is tp.ClassVar:
            regions.append("bare-qualifier")
            return x, regions
        if hasattr(x, "__supertype__"):
            x, behind = x.__supertype__, True
            continue
        if isinstance(x, compat.TypeAliasType):
            if isinstance(x.__value__, str):
                return None, regions
            x, behind = x.__value__, True
            continue
        return x, regions
    return None, regions


def call2(fname, obj):
    """call twice, caches NOT cleared in between -> (outcome1, outcome2)"""
    from typelib.py import inspection as I
    f = getattr(I, fname)
    outs = []
    for _ in range(2):
        try:
            outs.append(("ok", f(obj)))
        except Exception as e:  # noqa: BLE001
            outs.append(("raise", type(e).__name__))
    return outs


def same(a, b):
    if a[0] != b[0]:
        return False
    try:
        return a[1] is b[1] or a[1] == b[1]
    except Exception:  # noqa: BLE001
        return False


def check_object(desc, obj, kind):
    """-> list of failures (dicts) for one catalogue object; caches are cleared once, before the object"""
    from typelib.py import inspection as I, compat
    fails = []

    def fail(site, symptom, got, expected, **kw):
        fails.append(dict(site=site, input=desc, symptom=symptom, got=repr(got), expected=repr(expected),
                          regions=region_of(obj) if kind != "inst" else [], **kw))

    impl.clear_caches()
    if kind == "inst":
        exp = {
            "ishashable": isinstance(obj, cabc.Hashable),
            "isproperty": isinstance(obj, (property, functools.cached_property)),
            "isdescriptor": any(hasattr(obj, m) for m in ("__get__", "__set__", "__delete__", "__set_name__")),
            "isbuiltininstance": isinstance(obj, BUILTINS),
        }
        for fn, e in exp.items():
            o1, o2 = call2(fn, obj)
            if not same(o1, o2):
                fail(fn, "unstable across calls", o2, o1)
            if o1 != ("ok", e):
                fail(fn, "disagrees with the runtime", o1, e)
        return fails

    c, kinds, generic = resolve(obj)
    core = _unwrapped(obj)
    special = tp.get_origin(core) in (tp.Union, types.UnionType, tp.Literal, tp.Final, tp.ClassVar) or \
        isinstance(core, (tp.TypeVar, tp.ForwardRef, str)) or core is None or not (isinstance(core, type) or tp.get_origin(core) is not None)
    # (1) class-valued predicates on class-like annotations
    if c is not None and not special:
        d = doc_map(c)
        for fn, bases in ORIGIN_FAMILY.items():
            o1, o2 = call2(fn, obj)
            e = _issub(d, bases)
            if not same(o1, o2):
                fail(fn, "unstable across calls", o2, o1)
            if o1[0] == "raise":
                fail(fn, "raises inside the domain", o1, e)
            elif bool(o1[1]) != e:
                fail(fn, "disagrees with issubclass on the resolved class", o1[1], e)
        for fn, abc_ in (("issequencetype", cabc.Sequence), ("iscollectiontype", cabc.Collection)):
            o1, o2 = call2(fn, obj)
            e = d in DOC_COLLECTIONS or _issub(d, (abc_,))
            if o1[0] == "raise":
                fail(fn, "raises inside the domain", o1, e)
            elif bool(o1[1]) != e:
                fail(fn, "disagrees with issubclass on the resolved class", o1[1], e)
        for fn, bases in RAW_FAMILY.items():
            o1, o2 = call2(fn, obj)
            e = _issub(c, bases)
            if not same(o1, o2):
                fail(fn, "unstable across calls", o2, o1)
            if o1[0] == "raise":
                fail(fn, "raises inside the domain", o1, e)
            elif bool(o1[1]) != e:
                fail(fn, "disagrees with issubclass on the resolved class", o1[1], e)
        # origin(): the resolved class under the documented map (callable classes are their own region)
        o1, o2 = call2("origin", obj)
        if o1 != ("ok", d):
            fail("origin", "is not the resolved class", o1, d)
        if _issub(c, (cabc.Collection,)) and o1[0] == "ok":
            og = o1[1]
            if not isinstance(og, type) or inspect.isabstract(og) or not (og is c or _issub(og, (c,))):
                fail("origin", "of a collection annotation is not a concrete class of that kind", og, d)
        # structured helpers on classes
        if isinstance(obj, type):
            for fn, e in (("istypeddict", tp.is_typeddict(obj)),
                          ("isnamedtuple", _issub(obj, (tuple,)) and hasattr(obj, "_fields")),
                          ("isfrozendataclass", dataclasses.is_dataclass(obj) and obj.__dataclass_params__.frozen),
                          ("isabstract", inspect.isabstract(obj) or obj is numbers.Number)):
                o1, o2 = call2(fn, obj)
                if o1 != ("ok", bool(e)) or not same(o1, o2):
                    fail(fn, "disagrees with the typing/dataclasses/inspect helper", o1, e)
    # (1b) name()/qualname() of class-like annotations: the class's own __name__ at any nesting depth, both spellings
    en, eq_ = expected_names(obj)
    for fn, e in (("name", en), ("qualname", eq_)):
        if e is None:
            continue
        o1, o2 = call2(fn, obj)
        if not same(o1, o2):
            fail(fn, "unstable across calls", o2, o1)
        if o1 != ("ok", e):
            fail(fn, "is not the documented name of the class", o1, e)
    # (1c) unwrap(): the underlying annotation, never an exception
    eu, ureg = expected_unwrap(obj)
    if eu is not None or ureg:
        o1, o2 = call2("unwrap", obj)
        if not same(o1, o2):
            fail("unwrap", "unstable across calls", o2, o1, extra_regions=ureg)
        if o1[0] == "raise":
            fail("unwrap", "raises inside the domain", o1, eu, extra_regions=ureg)
        elif eu is not None and not (o1[1] is eu or o1[1] == eu):
            fail("unwrap", "is not the underlying annotation", o1, eu, extra_regions=ureg)
    # (2) special-form predicates: typing.get_origin / get_args
    if kinds == []:
        og = tp.get_origin(obj)
        ga = tp.get_args(obj)
        # origin() documents "unwrap ClassVar": union/literal/optional-ness of ClassVar[X] is that of X
        inner = ga[0] if (og is tp.ClassVar and ga) else obj
        iog, iga = tp.get_origin(inner), tp.get_args(inner)
        exp = {
            # the bare forms typing.Union / typing.Literal count as union / literal (in favour of the code)
            "isuniontype": iog in (tp.Union, types.UnionType) or obj is tp.Union,
            "isliteral": iog is tp.Literal or obj is tp.Literal
            or (isinstance(obj, tp.ForwardRef) and obj.__forward_arg__.startswith("Literal")),
            "isfinal": iog is tp.Final or obj is tp.Final,
            "isclassvartype": og is tp.ClassVar or obj is tp.ClassVar,
            "isforwardref": isinstance(obj, tp.ForwardRef),
            "isnonetype": obj is None or obj is type(None),
            "istypealiastype": isinstance(obj, compat.TypeAliasType),
            "isoptionaltype": obj is tp.Optional or (og in (tp.Union, types.UnionType, tp.Literal)
                                                     and any(a is None or a is type(None) for a in ga)),
            # a parameterised tuple (tuple[()] included: it carries __args__) that does not end in `...`
            "isfixedtupletype": isinstance(og, type) and issubclass(og, tuple) and (bool(ga) or hasattr(obj, "__args__"))
            and not (ga and ga[-1] is Ellipsis),
        }
        if isinstance(obj, type) and obj.__name__ in ("Union", "Optional", "UnionType", "Literal"):
            pass_regions = ["named-like-special-form"]
        else:
            pass_regions = []
        wrapped_inner = hasattr(inner, "__supertype__") or isinstance(inner, compat.TypeAliasType)
        for fn, e in exp.items():
            o1, o2 = call2(fn, obj)
            if not same(o1, o2):
                fail(fn, "unstable across calls", o2, o1)
            if wrapped_inner and fn in ("isuniontype", "isliteral", "isoptionaltype", "isfinal"):
                continue          # ClassVar[<wrapper>]: how far origin() resolves is the code's choice
            if o1 != ("ok", bool(e)):
                fail(fn, "disagrees with typing.get_origin/get_args", o1, e, extra_regions=pass_regions)
        # args(): get_args with TypeVars normalised
        norm = []
        for a in ga:
            if type(a) is tp.TypeVar:
                a = a.__bound__ or (tp.Union[a.__constraints__] if a.__constraints__ else tp.Any)
            norm.append(a)
        o1, o2 = call2("args", obj)
        if o1 != ("ok", tuple(norm)) or not same(o1, o2):
            fail("args", "disagrees with typing.get_args", o1, tuple(norm))
    return fails


def check_spelling_pair(da, a, db, b, fns, tag):
    """two spellings of one annotation: cold answers must agree; then a-then-b history must equal cold b"""
    from typelib.py import inspection as I
    fails = []
    for fn in fns:
        f = getattr(I, fn)

        def cold(x):
            impl.clear_caches()
            try:
                return ("ok", f(x))
            except Exception as e:  # noqa: BLE001
                return ("raise", type(e).__name__)
        ca, cb = cold(a), cold(b)
        if not same(ca, cb):
            fails.append(dict(site=fn, input=[da, db], symptom="depends on the spelling (cold cache)",
                              got=repr(cb), expected=repr(ca), regions=[tag]))
        impl.clear_caches()
        try:
            f(a)
            h = ("ok", f(b))
        except Exception as e:  # noqa: BLE001
            h = ("raise", type(e).__name__)
        if not same(h, cb):
            fails.append(dict(site=fn, input=[da, db], symptom="answer depends on which spelling was asked first",
                              got=repr(h), expected=repr(cb), regions=[tag, "history"]))
        elif fn == "args" and h != ("ok", normalized_get_args(b)):
            fails.append(dict(site=fn, input=[da, db], symptom="disagrees with typing.get_args on the object itself",
                              got=repr(h), expected=repr(normalized_get_args(b)), regions=[tag, "history"]))
    return fails


def check_history_pair(da, a, db, b, fns, tag):
    """a and b compare ==: asking a first must not change the answer for b"""
    from typelib.py import inspection as I
    fails = []
    for fn in fns:
        f = getattr(I, fn)
        impl.clear_caches()
        try:
            cb = ("ok", f(b))
        except Exception as e:  # noqa: BLE001
            cb = ("raise", type(e).__name__)
        impl.clear_caches()
        try:
            f(a)
        except Exception:  # noqa: BLE001
            pass
        try:
            h = ("ok", f(b))
        except Exception as e:  # noqa: BLE001
            h = ("raise", type(e).__name__)
        if not same(h, cb):
            fails.append(dict(site=fn, input=[da, db], symptom="answer depends on which spelling was asked first",
                              got=repr(h), expected=repr(cb), regions=[tag, "history"]))
        elif fn == "args" and h != ("ok", normalized_get_args(b)):
            fails.append(dict(site=fn, input=[da, db], symptom="disagrees with typing.get_args on the object itself",
                              got=repr(h), expected=repr(normalized_get_args(b)), regions=[tag, "history"]))
    return fails
