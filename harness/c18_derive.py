"""C18 helper (round 3): the class-DERIVATION dimension of the structured classes and named tuples.

`serdes._is_iterable_of_pairs`, `get_items_iter`, `_make_fields_iterator` and `_namedtupleitems` decide from facts that
depend on HOW a class came about: `isnamedtuple` looks for `_fields` (inherited), `istypedtuple` at the class's OWN
`__annotations__`, `dataclasses.fields` at `__dataclass_fields__` (inherited, extended only by a decorated subclass),
`typing.get_type_hints` merges the MRO, `tp.__slots__` is whatever attribute lookup finds (the base's when the subclass
declares none, only the ADDED names when it does), `vars()` needs a `__dict__` that a subclass without `__slots__` brings
back.  The property quantifies over "instances of every structured flavour": a class that IS a named tuple / dataclass /
annotated / slots-only / vars-only class is one of them whether it was written directly or derived.  Round 1 wrote every
class directly, so each of those facts was exercised on one shape only.

A class description keeps what it was (the EFFECTIVE members in declaration order over the MRO, bases first -- the order
in which dataclasses, typing.get_type_hints and the slot layout see them) and gains

    cd["derive"] = {"kind": <kind>, "k": split point, "j": overridden member}         (absent = "direct")
    cd["slots"]  (flavour "annotated" too: the class also declares __slots__ for its instance members)
    cd["init_ann"]  (the parameters of the hand-written __init__ are annotated: hints live ONLY in the signature)
    cd["slots_str"] (a class of the chain that declares exactly one slot writes it as a str: __slots__ = 'key')

From (flavour, kind) this module derives the chain of classes (`layers`, base first), its source, and -- by the rules of
the interpreter, never asked from typelib -- the facts the code can read; `c18_objs.check_class_facts` cross-checks every
one of them with the live class on every run (obligation "harness:descriptions agree with the interpreter's view").

kinds (K = the class of the instance, B = its base; C13's 22 kinds of harness/c13_gen.py are the reference):
  dataclass [+slots]   direct | dc-sub-plain  class K(B): pass            | dc-sub-slots  class K(B): __slots__ = ()
                       dc-sub-dec  @dataclass class K(B): pass            | dc-sub-add    decorated, adds members[k:]
                       dc-sub-override  decorated, re-declares member j   | dc-sub-plain-ann  UNdecorated, annotates the
                       ClassVar-flagged members as plain `n: Any = 7` (hints, class attributes, NOT dataclass fields)
  annotated            direct | pl-sub-empty | pl-sub-add | pl-sub-override | pl-sub-slots0  class K(B): __slots__ = ()
  annotated +slots     direct (C13's pl-slots) | pl-slots-sub  __slots__ = () | pl-slots-sub-dict  no __slots__ (has
                       __dict__) | pl-slots-add  adds slots + annotations
  slots (no hints)     direct | sl-sub  __slots__ = () | sl-sub-dict | sl-add  adds slots
  vars                 direct | v-sub-empty | v-sub-add  (the subclass' __init__ sets further attributes)
  named tuple, styles typing / collections:
                       direct | nt-sub  class K(B): __slots__ = () + a method | nt-sub2  two levels
                       nt-sub-dict  class K(B): pass (instances have __dict__) | nt-sub-ann  __slots__ = () and OWN
                       annotations (typing: a plain class attribute `kind_: int = 5`, not a tuple field;
                       collections: every field annotated -- the typed idiom before 3.6)
  TypedDict            direct | td-sub-empty | td-sub-add | td-nontotal : the INSTANCE is a plain dict at runtime
                       (`type(TD(a=1)) is dict`, checked on every build): described as VDict MDict, nothing else to model.
"""
from __future__ import annotations

OBJ_KINDS = {
    "dataclass": ["direct", "dc-sub-plain", "dc-sub-slots", "dc-sub-dec", "dc-sub-add", "dc-sub-override",
                  "dc-sub-plain-ann"],
    "annotated": ["direct", "pl-sub-empty", "pl-sub-add", "pl-sub-override", "pl-sub-slots0"],
    "annotated+slots": ["direct", "pl-slots-sub", "pl-slots-sub-dict", "pl-slots-add"],
    "slots": ["direct", "sl-sub", "sl-sub-dict", "sl-add"],
    "vars": ["direct", "v-sub-empty", "v-sub-add"],
}
NAMED_KINDS = ["direct", "nt-sub", "nt-sub2", "nt-sub-dict", "nt-sub-ann"]
TD_KINDS = ["direct", "td-sub-empty", "td-sub-add", "td-nontotal"]


def family(cd) -> str:
    return "annotated+slots" if cd["flavour"] == "annotated" and cd.get("slots") else cd["flavour"]


def kind_of(cd) -> str:
    return (cd.get("derive") or {}).get("kind", "direct")


def all_obj_kinds():
    """(flavour, slots flag, kind) of every structured shape"""
    out = []
    for fam, kinds in OBJ_KINDS.items():
        for kind in kinds:
            if fam == "dataclass":
                out += [("dataclass", False, kind), ("dataclass", True, kind)]
            elif fam == "annotated+slots":
                out.append(("annotated", True, kind))
            else:
                out.append((fam, False, kind))
    return out


# ------------------------------------------------------------------------------------
# the chain of classes
# ------------------------------------------------------------------------------------
def _layer(ann=(), slots=None, dec=False, sets=None):
    """one class of the chain: annotations [(name, form)], explicit __slots__ (None = not declared), dataclass
    decorator, names its own __init__ assigns (None = it defines no __init__)"""
    return {"ann": list(ann), "slots": slots, "dec": dec, "sets": sets}


def _form(m):
    return (m["n"], "cv" if m["cv"] else "any")


def layers(cd):
    fl, mem = cd["flavour"], cd["members"]
    der = cd.get("derive") or {}
    kind = der.get("kind", "direct")
    k = max(0, min(der.get("k", 0), len(mem)))
    j = der.get("j")
    if j is not None and not (0 <= j < len(mem)):
        j = None
    inst = [m["n"] for m in mem if not m["cv"]]
    inst_a = [m["n"] for m in mem[:k] if not m["cv"]]
    inst_b = [m["n"] for m in mem[k:] if not m["cv"]]
    ann = [_form(m) for m in mem]
    over = [] if j is None else [(mem[j]["n"], "cv" if mem[j]["cv"] else "int")]
    if fl == "dataclass":
        if kind == "direct":
            return [_layer(ann, dec=True)]
        if kind == "dc-sub-plain":
            return [_layer(ann, dec=True), _layer()]
        if kind == "dc-sub-slots":
            return [_layer(ann, dec=True), _layer(slots=[])]
        if kind == "dc-sub-dec":
            return [_layer(ann, dec=True), _layer(dec=True)]
        if kind == "dc-sub-add":
            return [_layer(ann[:k], dec=True), _layer(ann[k:], dec=True)]
        if kind == "dc-sub-override":
            return [_layer(ann, dec=True), _layer(over, dec=True)]
        if kind == "dc-sub-plain-ann":
            return [_layer([a for a in ann if a[1] != "cv"], dec=True),
                    _layer([(n, "val7") for n, f in ann if f == "cv"])]
        raise ValueError(kind)
    init = cd["init"]
    own = init in ("matching", "renamed")       # a subclass that adds members writes its own __init__
    if fl == "annotated" and not cd.get("slots"):
        base = _layer(ann, sets=inst)
        if kind == "direct":
            return [base]
        if kind == "pl-sub-empty":
            return [base, _layer()]
        if kind == "pl-sub-add":
            return [_layer(ann[:k], sets=inst_a), _layer(ann[k:], sets=inst_b if own else None)]
        if kind == "pl-sub-override":
            return [base, _layer(over)]
        if kind == "pl-sub-slots0":
            return [base, _layer(slots=[])]
        raise ValueError(kind)
    if fl == "annotated":
        base = _layer(ann, slots=inst, sets=inst)
        if kind == "direct":
            return [base]
        if kind == "pl-slots-sub":
            return [base, _layer(slots=[])]
        if kind == "pl-slots-sub-dict":
            return [base, _layer()]
        if kind == "pl-slots-add":
            return [_layer(ann[:k], slots=inst_a, sets=inst_a), _layer(ann[k:], slots=inst_b, sets=inst_b if own else None)]
        raise ValueError(kind)
    if fl == "slots":
        base = _layer(slots=inst, sets=inst)
        if kind == "direct":
            return [base]
        if kind == "sl-sub":
            return [base, _layer(slots=[])]
        if kind == "sl-sub-dict":
            return [base, _layer()]
        if kind == "sl-add":
            return [_layer(slots=inst_a, sets=inst_a), _layer(slots=inst_b, sets=inst_b if own else None)]
        raise ValueError(kind)
    if fl == "vars":
        base = _layer(sets=inst)
        if kind == "direct":
            return [base]
        if kind == "v-sub-empty":
            return [base, _layer()]
        if kind == "v-sub-add":
            return [_layer(sets=inst_a), _layer(sets=inst_b if own else None)]
        raise ValueError(kind)
    raise ValueError(fl)


# ------------------------------------------------------------------------------------
# source
# ------------------------------------------------------------------------------------
_ANN = {"any": "{n}: typing.Any", "cv": "{n}: typing.ClassVar[int] = 7", "int": "{n}: int", "val7": "{n}: typing.Any = 7"}


def class_source(cd, name="K") -> str:
    ls = layers(cd)
    dc_slots = cd["flavour"] == "dataclass" and cd.get("slots")
    init = cd.get("init", "matching")
    pa = ": int" if cd.get("init_ann") else ""
    out = ["import dataclasses, typing"]
    inherited = []                                  # names the base classes' __init__ take, in order
    for i, L in enumerate(ls):
        cname = name if i == len(ls) - 1 else f"{name}_b{i}"
        base = f"({name}_b{i - 1})" if i else ""
        if L["dec"]:
            out.append("@dataclasses.dataclass(slots=True)" if dc_slots else "@dataclasses.dataclass")
        out.append(f"class {cname}{base}:")
        body = []
        if L["slots"] is not None:
            if cd.get("slots_str") and len(L["slots"]) == 1:
                body.append(f"    __slots__ = '{L['slots'][0]}'")          # a str names ONE slot
            else:
                body.append("    __slots__ = (" + "".join(f"'{n}', " for n in L["slots"]) + ")")
        body += ["    " + _ANN[f].format(n=n) for n, f in L["ann"]]
        if cd["flavour"] != "dataclass":
            if i == 0 and init == "kwargs":
                body.append("    def __init__(self, **kw):")
                body.append("        for k, v in kw.items(): setattr(self, k, v)")
            elif init in ("matching", "renamed") and L["sets"] is not None:
                allp = inherited + L["sets"]
                par = (lambda q: q) if init == "matching" else (lambda q: f"n{allp.index(q)}")
                body.append("    def __init__(self" + "".join(f", {par(n)}{pa}" for n in allp) + "):")
                stm = []
                if i:
                    stm.append("        super().__init__(" + ", ".join(par(n) for n in inherited) + ")")
                stm += [f"        self.{n} = {par(n)}" for n in L["sets"]]
                body += stm or ["        pass"]
                inherited = allp
        if i == len(ls) - 1 and len(ls) > 1:
            body.append("    def label(self):")                     # the usual reason for deriving: behaviour
            body.append("        return type(self).__name__")
        out += body or ["    pass"]
    return "\n".join(out) + "\n"


def named_source(style, fields, kind, name) -> str:
    B = f"{name}_b"
    flds = "".join(f"    {f}: typing.Any\n" for f in fields)
    meth = "    def label(self):\n        return len(self)\n"
    if style == "typing":
        def direct(n):
            return f"class {n}(typing.NamedTuple):\n" + (flds or "    pass\n")
        own = "    kind_: int = 5\n"
        head = "import typing\n"
    else:
        def direct(n):
            return f"{n} = collections.namedtuple({n!r}, {list(fields)!r})\n"
        own = flds
        head = "import collections, typing\n"
    if kind == "direct":
        return head + direct(name)
    if kind == "nt-sub":
        return head + direct(B) + f"class {name}({B}):\n    __slots__ = ()\n{meth}"
    if kind == "nt-sub2":
        return head + direct(B) + f"class {name}_m({B}):\n    __slots__ = ()\nclass {name}({name}_m):\n    __slots__ = ()\n{meth}"
    if kind == "nt-sub-dict":
        return head + direct(B) + f"class {name}({B}):\n{meth}"
    if kind == "nt-sub-ann":
        return head + direct(B) + f"class {name}({B}):\n    __slots__ = ()\n{own}{meth}"
    raise ValueError(kind)


def typeddict_source(keys, kind, k, name) -> str:
    body = lambda ks: "".join(f"    {x}: typing.Any\n" for x in ks) or "    pass\n"  # noqa: E731
    B = f"{name}_b"
    if kind == "direct":
        return f"import typing\nclass {name}(typing.TypedDict):\n{body(keys)}"
    if kind == "td-nontotal":
        return f"import typing\nclass {name}(typing.TypedDict, total=False):\n{body(keys)}"
    if kind == "td-sub-empty":
        return f"import typing\nclass {B}(typing.TypedDict):\n{body(keys)}class {name}({B}):\n    pass\n"
    if kind == "td-sub-add":
        return f"import typing\nclass {B}(typing.TypedDict):\n{body(keys[:k])}class {name}({B}):\n{body(keys[k:])}"
    raise ValueError(kind)


# ------------------------------------------------------------------------------------
# what the code can read from the class, by the interpreter's rules
# ------------------------------------------------------------------------------------
def class_facts(cd):
    fl = cd["flavour"]
    ls = layers(cd)
    dc_slots = fl == "dataclass" and cd.get("slots")
    hints, fields = {}, {}
    is_dc, slots_attr, mro_slots, has_dict = False, None, [], False
    sig_names = []
    for L in ls:
        for n, f in L["ann"]:
            hints[n] = f                      # a re-declared name keeps its first position (dict update over the MRO)
        own_slots = L["slots"]
        if L["dec"]:
            is_dc = True
            for n, f in L["ann"]:
                if f != "cv":
                    fields[n] = f
            if dc_slots:                      # dataclasses._add_slots: the fields no base already holds in a slot
                own_slots = [n for n in fields if n not in mro_slots]
        if own_slots is None:
            has_dict = True
        else:
            slots_attr = list(own_slots)
            mro_slots += [n for n in own_slots if n not in mro_slots]
        if L["sets"] is not None:
            sig_names = sig_names + L["sets"]
    inst = [m["n"] for m in cd["members"] if not m["cv"]]
    if fl == "dataclass":
        sig = list(fields)
    else:
        init = cd["init"]
        sig = {"matching": sig_names, "renamed": [f"n{i}" for i in range(len(sig_names))], "kwargs": ["kw"],
               "none": []}[init]
    return {"flavour": {"dataclass": "FDataclass", "annotated": "FAnnotated", "slots": "FSlots", "vars": "FVars"}[fl],
            "dataclass": is_dc, "dc_fields": list(fields), "hints": list(hints), "sig": sig,
            "slots_attr": slots_attr,                                   # tp.__slots__ as attribute lookup finds it
            "slots": None if slots_attr is None else mro_slots,         # the names over the MRO, bases first
            "has_dict": has_dict, "inst": inst}
