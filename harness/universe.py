"""The universe U of DESIGN section 3 for the core value model (Model/Core.v).

One *description* (plain tuples) of an annotation / class environment is turned into
  * real Python types in a throw-away module        (materialise)
  * the Coq `ty` / `env` terms of Model/Core.v      (emit_ty / emit_env)
and Python values are encoded as Coq `pv` terms through a per-case registry (Registry.enc).

Type descriptions
  ("leaf", key)                 key in LEAVES (or an enum / literal registered in the env)
  ("none",)
  ("seq", kind, spelling, a)    kind in SEQ_KINDS
  ("map", kind, spelling, k, v)
  ("tuple", spelling, [ts])
  ("union", spelling, [ts])     spelling in {"Union", "Optional", "|"}
  ("name", n)                   class / alias n of the environment
  ("ref", n, form)              form in {"str", "fwd"}
  ("newtype", i, t) ("alias", i, t) ("aliasstr", i, n) ("final", t) ("classvar", t)

Environment: {"module": name, "defs": {n: ("class", flavour, opts, [(fname, tdesc, default_src|None)]) |
                                           ("alias", tdesc_or_string) | ("enum", [(member, value_src)]) }}
"""
from __future__ import annotations

import collections
import dataclasses
import datetime
import decimal
import enum
import fractions
import itertools
import pathlib
import random
import re
import typing
import uuid

import impl
from lib import coq_list, coq_nat, coq_opt, coq_pair

UTC = datetime.timezone.utc

# ----------------------------------------------------------------------------------
# leaves
# ----------------------------------------------------------------------------------
LEAVES = {
    "int": ("int", int),
    "bool": ("bool", bool),
    "float": ("float", float),
    "str": ("str", str),
    "bytes": ("bytes", bytes),
    "Decimal": ("decimal.Decimal", decimal.Decimal),
    "Fraction": ("fractions.Fraction", fractions.Fraction),
    "UUID": ("uuid.UUID", uuid.UUID),
    "Path": ("pathlib.PurePosixPath", pathlib.PurePosixPath),
    "date": ("datetime.date", datetime.date),
    "datetime": ("datetime.datetime", datetime.datetime),
    "time": ("datetime.time", datetime.time),
    "timedelta": ("datetime.timedelta", datetime.timedelta),
    "Any": ("typing.Any", typing.Any),
    "list": ("list", list),          # bare containers: contents pass through
    "dict": ("dict", dict),
}
# exotic leaves of the extended grammar (C15): evaluated inside the synthesised module (PRELUDE defines them)
EXOTIC = {
    "object": "object", "tuple": "tuple", "set": "set", "frozenset": "frozenset",
    "typing.List": "typing.List", "typing.Dict": "typing.Dict", "typing.Set": "typing.Set",
    "typing.Tuple": "typing.Tuple", "typing.Sequence": "typing.Sequence", "typing.Mapping": "typing.Mapping",
    "Callable": "typing.Callable", "XG_int": "XG[int]", "XGD_int": "XGD[int]", "XNoAnn": "XNoAnn", "XEmpty": "XEmpty",
    "Hashable": "typing.Hashable",
}
for _k, _src in EXOTIC.items():
    LEAVES[_k] = (_src, None)
LEAF_IDS = {k: i for i, k in enumerate(LEAVES)}
# TypeVars are normalised by typelib when they are generic arguments: free -> Any, bound -> the bound,
# constrained -> Union of the constraints
TVARS = {"XT": ("leaf", "Any"), "XTB": ("leaf", "int"), "XTC": ("union", "Union", [("leaf", "int"), ("leaf", "str")])}
SEQ_KINDS = {
    "KList": [("list[{}]", list), ("typing.List[{}]", list), ("typing.Sequence[{}]", list),
              ("collections.abc.Sequence[{}]", list), ("typing.Iterable[{}]", list),
              ("typing.Collection[{}]", list), ("typing.MutableSequence[{}]", list)],
    "KTuple": [("tuple[{}, ...]", tuple), ("typing.Tuple[{}, ...]", tuple)],
    "KSet": [("set[{}]", set), ("typing.Set[{}]", set), ("typing.AbstractSet[{}]", set),
             ("typing.MutableSet[{}]", set)],
    "KFrozenset": [("frozenset[{}]", frozenset), ("typing.FrozenSet[{}]", frozenset)],
    "KDeque": [("collections.deque[{}]", collections.deque), ("typing.Deque[{}]", collections.deque)],
}
MAP_KINDS = {
    "KDict": [("dict[{}, {}]", dict), ("typing.Dict[{}, {}]", dict), ("typing.Mapping[{}, {}]", dict),
              ("typing.MutableMapping[{}, {}]", dict), ("collections.abc.Mapping[{}, {}]", dict)],
    "KOrderedDict": [("collections.OrderedDict[{}, {}]", collections.OrderedDict),
                     ("typing.OrderedDict[{}, {}]", collections.OrderedDict)],
}
SEQ_PY = {"KList": list, "KTuple": tuple, "KSet": set, "KFrozenset": frozenset, "KDeque": collections.deque}
MAP_PY = {"KDict": dict, "KOrderedDict": collections.OrderedDict}
HASHABLE_LEAVES = ["int", "str", "Decimal", "Fraction", "UUID", "date", "bool", "float"]

PRELUDE = ("import typing, collections, collections.abc, dataclasses, datetime, decimal, enum, fractions, "
           "pathlib, uuid\nfrom typelib.py.compat import TypeAliasType\n"
           "def _verif_um(t, x, depth=0):\n"
           "    from typelib import unmarshals\n"
           "    if depth:\n        return _verif_um(t, x, depth - 1)\n"
           "    return unmarshals.unmarshal(t, x)\n"
           "def _verif_m(t, x, depth=0):\n"
           "    from typelib import marshals\n"
           "    if depth:\n        return _verif_m(t, x, depth - 1)\n"
           "    return marshals.marshal(x, t=t)\n"
           "XT = typing.TypeVar('XT')\nXTB = typing.TypeVar('XTB', bound=int)\nXTC = typing.TypeVar('XTC', int, str)\n"
           "class XG(typing.Generic[XT]):\n    def __init__(self, v: XT):\n        self.v = v\n"
           "    def __eq__(self, o):\n        return type(o) is type(self) and o.v == self.v\n"
           "    def __repr__(self):\n        return f'XG({self.v!r})'\n"
           "@dataclasses.dataclass\nclass XGD(typing.Generic[XT]):\n    v: XT\n"
           "class XNoAnn:\n    def __init__(self, a, b=1):\n        self.a = a\n        self.b = b\n"
           "    def __eq__(self, o):\n        return type(o) is type(self) and vars(o) == vars(self)\n"
           "    def __repr__(self):\n        return f'XNoAnn({self.a!r}, {self.b!r})'\n"
           "class XEmpty:\n    def __eq__(self, o):\n        return type(o) is type(self)\n"
           "    def __repr__(self):\n        return 'XEmpty()'\n")


# ----------------------------------------------------------------------------------
# source rendering of a type description (inside its module)
# ----------------------------------------------------------------------------------

def cname(n: int) -> str:
    return f"N{n}"


def src_ty(d, env) -> str:
    k = d[0]
    if k == "leaf":
        key = d[1]
        if key in LEAVES:
            return LEAVES[key][0]
        return key              # enum / literal alias defined in the module under this name
    if k == "none":
        return "None"
    if k == "tvar":
        return d[1]
    if k == "seq":
        return d[2].format(src_ty(d[3], env))
    if k == "map":
        return d[2].format(src_ty(d[3], env), src_ty(d[4], env))
    if k == "tuple":
        return d[1].format(", ".join(src_ty(t, env) for t in d[2]))
    if k == "union":
        sp, ts = d[1], d[2]
        if sp == "Optional":
            assert len(ts) == 2 and ts[1] == ("none",)
            return f"typing.Optional[{src_ty(ts[0], env)}]"
        if sp == "|":
            return " | ".join(src_ty(t, env) for t in ts)
        return "typing.Union[" + ", ".join(src_ty(t, env) for t in ts) + "]"
    if k == "name":
        return cname(d[1])
    if k == "ref":
        return repr(cname(d[1])) if d[2] == "str" else f"typing.ForwardRef({cname(d[1])!r}, module=__name__)"
    if k == "wrapref":
        w = d[1]
        nm = {"newtype": "NT", "alias": "AL", "aliasstr": "AS"}[w[0]] + str(w[1])
        return repr(nm) if d[2] == "str" else f"typing.ForwardRef({nm!r}, module=__name__)"
    if k == "newtype":
        return f"NT{d[1]}"
    if k == "alias":
        return f"AL{d[1]}"
    if k == "aliasstr":
        return f"AS{d[1]}"
    if k == "final":
        return f"typing.Final[{src_ty(d[1], env)}]"
    if k == "classvar":
        return f"typing.ClassVar[{src_ty(d[1], env)}]"
    raise ValueError(d)


def wrappers_in(d, acc):
    """collect NewType / alias definitions used by a description (inner first)"""
    k = d[0]
    if k in ("seq",):
        wrappers_in(d[3], acc)
    elif k == "map":
        wrappers_in(d[3], acc); wrappers_in(d[4], acc)
    elif k in ("tuple", "union"):
        for t in d[2]:
            wrappers_in(t, acc)
    elif k in ("newtype", "alias"):
        wrappers_in(d[2], acc)
        acc.append(d)
    elif k == "aliasstr":
        acc.append(d)
    elif k == "wrapref":
        wrappers_in(d[1], acc)
    elif k in ("final", "classvar"):
        wrappers_in(d[1], acc)


def module_source(env, roots, derive=True) -> str:
    """Python source defining every class / alias / enum of env and the wrapper objects used by roots."""
    out = [PRELUDE]
    defs = env["defs"]
    # enums and literal aliases first (they are leaves of everything else)
    for n, d in defs.items():
        if d[0] == "enum":
            base = d[2] if len(d) > 2 else "enum.Enum"
            out.append(f"class {n}({base}):\n" + "".join(f"    {m} = {v}\n" for m, v in d[1]))
        elif d[0] == "literal":
            out.append(f"{n} = typing.Literal[{', '.join(d[1])}]\n")
    wr = []
    for n, d in defs.items():
        if d[0] == "class":
            for _, t, _ in d[3]:
                wrappers_in(t, wr)
        elif d[0] == "alias" and not isinstance(d[1], str):
            wrappers_in(d[1], wr)
    for r in roots:
        wrappers_in(r, wr)
    seen = set()
    late = []
    for w in wr:
        key = (w[0], w[1])
        if key in seen:
            continue
        seen.add(key)
        late.append(w)
    # classes; annotations that mention wrappers/classes defined later are written as strings
    # only where Python needs it (we define wrappers before the classes, and write class-to-class
    # references through `from __future__`-free string annotations when the target is not yet defined)
    defined = set()

    def mentions_undefined(t) -> bool:
        k = t[0]
        if k == "name":
            return t[1] not in defined
        if k == "seq":
            return mentions_undefined(t[3])
        if k == "map":
            return mentions_undefined(t[3]) or mentions_undefined(t[4])
        if k in ("tuple", "union"):
            return any(mentions_undefined(x) for x in t[2])
        if k in ("newtype", "alias"):
            return mentions_undefined(t[2])
        if k in ("final", "classvar"):
            return mentions_undefined(t[1])
        return False

    def emit_wrappers():
        nonlocal late
        rest = []
        for w in late:
            if w[0] == "aliasstr":
                out.append(f"AS{w[1]} = TypeAliasType('AS{w[1]}', {cname(w[2])!r})\n")
            elif mentions_undefined(w[2]):
                rest.append(w)
            elif w[0] == "newtype":
                out.append(f"NT{w[1]} = typing.NewType('NT{w[1]}', {src_ty(w[2], env)})\n")
            else:
                out.append(f"AL{w[1]} = TypeAliasType('AL{w[1]}', {src_ty(w[2], env)})\n")
        late = rest

    emit_wrappers()
    for n, d in defs.items():
        if d[0] == "alias":
            # named alias N<n>: value may be a string (recursive alias) or a description
            if isinstance(d[1], str):
                out.append(f"{cname(n)} = TypeAliasType({cname(n)!r}, {d[1]!r})\n")
            elif mentions_undefined(d[1]):
                out.append(f"{cname(n)} = TypeAliasType({cname(n)!r}, {src_ty(d[1], env)!r})\n")
            else:
                out.append(f"{cname(n)} = TypeAliasType({cname(n)!r}, {src_ty(d[1], env)})\n")
            defined.add(n)
            emit_wrappers()
            continue
        if d[0] != "class":
            continue
        flavour, opts, fields = d[1], d[2], d[3]
        lines = []
        for fname, t, default in fields:
            ann = src_ty(t, env)
            defined_tmp = mentions_undefined(t)
            if defined_tmp:
                ann = repr(ann)
            if flavour == "plain":
                continue
            lines.append(f"    {fname}: {ann}" + (f" = {default}" if default is not None else "") + "\n")
        # every third class has callable instances (origin() must still see a class, not typing.Callable)
        call = "    def __call__(self):\n        return None\n" if isinstance(n, int) and n % 3 == 1 else ""
        # every fourth class is spelled as a DERIVED class: a base of the same flavour declares all the fields in the
        # same order, some of them with ANOTHER (plain) type, and the class itself re-declares those with the type
        # the description says.  The hints, the field order and the generated __init__ are those of the flat
        # spelling (a re-declared field keeps its position and takes the subclass's annotation and default), so the
        # description -- and everything the model is told -- is unchanged; only code that merges annotations over
        # the MRO in the wrong direction sees a difference (seeded change C05-r6m1).
        base, redecl = "", set()
        if derive and isinstance(n, int) and n % 4 == 2 and fields and flavour in ("dataclass", "typeddict", "plain"):
            redecl = {f[0] for i, f in enumerate(fields) if i % 2 == 0 and f[1][0] not in ("final", "classvar")}
            base = cname(n) + "Base" if redecl else ""

        def other(ann):
            return "int" if ann.strip("'\"") in ("bytes", "typing.Optional[bytes]") else "bytes"
        blines = []
        if base:
            for fname, t, default in fields:
                ann = repr(src_ty(t, env)) if mentions_undefined(t) else src_ty(t, env)
                blines.append(f"    {fname}: {other(ann) if fname in redecl else ann}"
                              + (f" = {default}" if default is not None and flavour != "plain" else "") + "\n")
            lines = [ln for ln, f in zip(lines, [f for f in fields]) if f[0] in redecl] if flavour != "plain" else lines
        if flavour == "dataclass":
            if base:
                out.append(f"@dataclasses.dataclass({opts})\nclass {base}:\n" + "".join(blines))
            out.append(f"@dataclasses.dataclass({opts})\nclass {cname(n)}{'(' + base + ')' if base else ''}:\n"
                       + ("".join(lines) or "    pass\n") + call)
        elif flavour == "namedtuple":
            out.append(f"class {cname(n)}(typing.NamedTuple):\n" + ("".join(lines) or "    pass\n"))
        elif flavour == "typeddict":
            tot = ', total=False' if opts == 'total=False' else ''
            if base:
                out.append(f"class {base}(typing.TypedDict{tot}):\n" + "".join(blines))
            out.append(f"class {cname(n)}({base or 'typing.TypedDict'}{tot}):\n" + ("".join(lines) or "    pass\n"))
        elif flavour == "plain":
            params, body, anns = [], [], []
            if base:
                out.append(f"class {base}:\n" + "".join(blines))
            for fname, t, default in fields:
                ann = src_ty(t, env)
                if mentions_undefined(t):
                    ann = repr(ann)
                if not base or fname in redecl:
                    anns.append(f"    {fname}: {ann}\n")
                params.append(f"{fname}: {ann}" + (f" = {default}" if default is not None else ""))
                body.append(f"        self.{fname} = {fname}\n")
            eq = ("    def __eq__(self, o):\n        return type(o) is type(self) and vars(o) == vars(self)\n"
                  "    __hash__ = None\n"
                  f"    def __repr__(self):\n        return '{cname(n)}(' + repr(vars(self)) + ')'\n")
            out.append(f"class {cname(n)}{'(' + base + ')' if base else ''}:\n" + "".join(anns)
                       + f"    def __init__(self, {', '.join(params)}):\n"
                       + ("".join(body) or "        pass\n") + eq + call)
        defined.add(n)
        emit_wrappers()
    assert not late, late
    return "".join(out)


def canonicalise_unions(env, roots):
    """typing caches generic subscriptions on ==, and unions compare as sets: within one process
    `typing.Sequence[Union[a, b]]` evaluated after `typing.Sequence[Union[b, a]]` IS the earlier object, member order
    included.  So that a description always says what the evaluated annotation says, every union whose member set
    occurred before (in this module) takes the member order of its first occurrence (in place: the member lists
    are shared with the callers), and typing's caches are cleared before a module is materialised.  Differently
    ordered equal unions in one process are C12's subject (known finding KF-C12-union-order), not the core model's."""
    seen = {}

    def walk(d):
        k = d[0]
        if k == "seq":
            walk(d[3])
        elif k == "map":
            walk(d[3]); walk(d[4])
        elif k == "tuple":
            for x in d[2]:
                walk(x)
        elif k in ("newtype", "alias"):
            walk(d[2])
        elif k in ("final", "classvar", "wrapref"):
            walk(d[1])
        elif k == "union":
            for x in d[2]:
                walk(x)
            srcs = [src_ty(x, env) for x in d[2]]
            key = frozenset(srcs)
            if not isinstance(d[2], list) or len(key) != len(srcs):
                return
            ent = seen.setdefault(key, {"order": srcs, "lists": []})
            if d[1] == "Optional" and ent["order"] != srcs:
                # Optional[X] can only be spelled (X, None): the earlier occurrences follow it
                ent["order"] = srcs
                for l in ent["lists"]:
                    l.sort(key=lambda x: srcs.index(src_ty(x, env)))
            elif ent["order"] != srcs:
                order = ent["order"]
                d[2].sort(key=lambda x: order.index(src_ty(x, env)))
            ent["lists"].append(d[2])

    for n, dfn in env["defs"].items():
        if dfn[0] == "class":
            for f in dfn[3]:
                walk(f[1])
        elif dfn[0] == "alias" and len(dfn) > 1 and isinstance(dfn[1], tuple):
            walk(dfn[1])
    for r in roots:
        walk(r)


def materialise(env, roots):
    """-> (module, [python types for roots])"""
    import typing
    canonicalise_unions(env, roots)
    for f in getattr(typing, "_cleanups", ()):
        f()
    src = module_source(env, roots)
    mod = impl.new_module(env["module"], src)
    tys = [eval(src_ty(r, env), mod.__dict__) for r in roots]
    return mod, tys, src


def subdescs(d, acc):
    """every sub-description of d (d included)"""
    acc.append(d)
    k = d[0]
    if k == "seq":
        subdescs(d[3], acc)
    elif k == "map":
        subdescs(d[3], acc); subdescs(d[4], acc)
    elif k in ("tuple", "union"):
        for t in d[2]:
            subdescs(t, acc)
    elif k in ("newtype", "alias"):
        subdescs(d[2], acc)
    elif k == "wrapref":
        subdescs(d[1], acc)
    elif k in ("final", "classvar"):
        subdescs(d[1], acc)
    return acc


# ----------------------------------------------------------------------------------
# Coq emission of ty / env
# ----------------------------------------------------------------------------------

class Registry:
    """per-case tables: atoms, field names, leaf types"""

    def __init__(self, env, mod):
        self.env = env
        self.mod = mod
        self.atoms: dict = {}
        self.atom_objs: list = []
        self.fields: dict[str, int] = {}
        self.leaves: dict[str, int] = dict(LEAF_IDS)
        self.leaf_py: dict[int, typing.Any] = {
            LEAF_IDS[k]: (v[1] if v[1] is not None else eval(v[0], mod.__dict__)) for k, v in LEAVES.items()}
        self.classes: dict[type, int] = {}
        for n, d in env["defs"].items():
            if d[0] == "class":
                self.classes[getattr(mod, cname(n))] = n
                for fname, _, _ in d[3]:
                    self.fid(fname)
            elif d[0] in ("enum", "literal"):
                i = len(self.leaves)
                self.leaves[n] = i
                self.leaf_py[i] = getattr(mod, n)

    # ---- python annotation -> description (for nodes of graph.static_order) ----
    def build_reverse(self, roots):
        import typing
        self.rev = []
        ds = []
        for r in roots:
            subdescs(r, ds)
        for n, d in self.env["defs"].items():
            if d[0] == "class":
                ds.append(("name", n))
                for _, t, _ in d[3]:
                    subdescs(t, ds)
            elif d[0] == "alias":
                ds.append(("name", n))
                subdescs(d[2] if isinstance(d[1], str) else d[1], ds)
        for k in LEAVES:
            ds.append(("leaf", k))
        for v in TVARS.values():
            subdescs(v, ds)
        for n, d in self.env["defs"].items():
            if d[0] in ("enum", "literal"):
                ds.append(("leaf", n))
        ds.append(("none",))
        seen = set()
        for d in ds:
            key = repr(d)
            if key in seen or d[0] in ("ref", "wrapref"):
                continue
            seen.add(key)
            try:
                py = eval(src_ty(d, self.env), self.mod.__dict__)
            except Exception:
                continue
            if d == ("none",):
                py = type(None)
            self.rev.append((py, d))

    def desc_of(self, py):
        import typing
        if isinstance(py, typing.ForwardRef):
            arg = py.__forward_arg__
            if arg.startswith("N") and arg[1:].isdigit():
                return ("ref", int(arg[1:]), "fwd")
            short = arg.rsplit(".", 1)[-1]
            for key, i in self.leaves.items():
                if getattr(self.leaf_py[i], "__name__", getattr(self.leaf_py[i], "_name", None)) in (arg, short):
                    return ("lref", key)
            for cand, d in self.rev:
                if d[0] in ("newtype", "alias", "aliasstr") and arg == {"newtype": "NT", "alias": "AL", "aliasstr": "AS"}[d[0]] + str(d[1]):
                    return ("wref", d)
            return None
        if py is None:
            return ("none",)
        for cand, d in self.rev:
            if cand is py:
                return d
        for cand, d in self.rev:
            try:
                if type(cand) is type(py) and cand == py and repr(cand) == repr(py):
                    return d
            except Exception:
                pass
        for cand, d in self.rev:
            try:
                if cand == py:
                    return d
            except Exception:
                pass
        return None

    def fid(self, name: str) -> int:
        if name not in self.fields:
            self.fields[name] = len(self.fields)
        return self.fields[name]

    def atom(self, obj) -> int:
        key = (type(obj).__module__, type(obj).__qualname__, repr(obj))
        if key not in self.atoms:
            self.atoms[key] = len(self.atom_objs)
            self.atom_objs.append(obj)
        return self.atoms[key]

    # ---- values ----
    def kind_of(self, obj):
        """how the model sees obj: ('seq', K) | ('dict', K) | ('obj', n) | ('named', n) | ('key', f) | ('atom',)"""
        t = type(obj)
        for k, py in SEQ_PY.items():
            if t is py:
                return ("seq", k)
        for k, py in MAP_PY.items():
            if t is py:
                return ("dict", k)
        if t in self.classes:
            n = self.classes[t]
            fl = self.env["defs"][n][1]
            if fl == "namedtuple":
                return ("named", n)
            return ("obj", n)
        if t is str and obj in self.fields:
            return ("key", self.fields[obj])
        return ("atom",)

    def enc(self, obj) -> str:
        k = self.kind_of(obj)
        if k[0] == "seq":
            return f"(PSeq {k[1]} {coq_list([self.enc(x) for x in obj], 'pv')})"
        if k[0] == "dict":
            return f"(PDict {k[1]} {coq_list([coq_pair(self.enc(a), self.enc(b)) for a, b in obj.items()], '(pv * pv)')})"
        if k[0] == "obj":
            d = self.env["defs"][k[1]]
            fs = [(self.fid(f), getattr(obj, f)) for f, _, _ in d[3] if hasattr(obj, f)]
            return f"(PObj {coq_nat(k[1])} {coq_list([coq_pair(coq_nat(f), self.enc(v)) for f, v in fs], '(nat * pv)')})"
        if k[0] == "named":
            return f"(PNamed {coq_nat(k[1])} {coq_list([self.enc(x) for x in obj], 'pv')})"
        if k[0] == "key":
            return f"(PKey {coq_nat(k[1])})"
        return f"(PAtom {coq_nat(self.atom(obj))})"

    # ---- types ----
    def emit_ty(self, d) -> str:
        k = d[0]
        if k == "leaf":
            return f"(TLeaf {coq_nat(self.leaves[d[1]])})"
        if k == "none":
            return "TNone"
        if k == "tvar":
            return self.emit_ty(TVARS[d[1]])
        if k == "seq":
            return f"(TSeq {d[1]} {self.emit_ty(d[3])})"
        if k == "map":
            return f"(TMap {d[1]} {self.emit_ty(d[3])} {self.emit_ty(d[4])})"
        if k == "tuple":
            return f"(TTuple {coq_list([self.emit_ty(t) for t in d[2]], 'ty')})"
        if k == "union":
            return f"(TUnion {coq_list([self.emit_ty(t) for t in d[2]], 'ty')})"
        if k == "name":
            df = self.env["defs"].get(d[1])
            if df is not None and df[0] == "alias" and not isinstance(df[1], str):
                # a TypeAliasType object with a direct value: structural alias (id 1000 + n keeps it apart)
                return f"(TAlias {coq_nat(1000 + d[1])} {self.emit_ty(df[1])})"
            return f"(TName {coq_nat(d[1])})"
        if k == "ref":
            return f"(TRef {coq_nat(d[1])})"
        if k in ("wref", "wrapref"):
            return f"(TRefTo {self.emit_ty(d[1])})"
        if k == "lref":
            return f"(TRefLeaf {coq_nat(self.leaves[d[1]])})"
        if k == "newtype":
            return f"(TNewType {coq_nat(d[1])} {self.emit_ty(d[2])})"
        if k == "alias":
            return f"(TAlias {coq_nat(d[1])} {self.emit_ty(d[2])})"
        if k == "aliasstr":
            return f"(TAliasStr {coq_nat(d[1])} {coq_nat(d[2])})"
        if k == "final":
            return f"(TFinal {self.emit_ty(d[1])})"
        if k == "classvar":
            return f"(TClassVar {self.emit_ty(d[1])})"
        raise ValueError(d)

    def emit_env(self) -> str:
        arms = []
        for n, d in self.env["defs"].items():
            if d[0] == "class":
                fl = {"dataclass": "FDataclass", "namedtuple": "FNamedTuple", "typeddict": "FTypedDict",
                      "plain": "FPlain"}[d[1]]
                fs = []
                for fname, t, default in d[3]:
                    dv = None
                    if default is not None:
                        dv = self.enc(self.default_value(n, fname))
                    fs.append("{| fname := %s; fty := %s; fdefault := %s |}" % (
                        coq_nat(self.fid(fname)), self.emit_ty(t), coq_opt(dv, "pv")))
                req = []
                if d[1] == "typeddict" and d[2] != "total=False":
                    req = [coq_nat(self.fid(fname)) for fname, _, _ in d[3]]
                arms.append(f"| {n} => Some (NClass {{| cflavour := {fl}; cfields := {coq_list(fs, 'field')}; "
                            f"crequired := {coq_list(req, 'nat')} |}})")
            elif d[0] == "alias":
                arms.append(f"| {n} => Some (NType {self.emit_ty(d[2] if isinstance(d[1], str) else d[1])})")
        return "(fun n : nat => match n with " + " ".join(arms) + " | _ => None end)"

    def default_value(self, n, fname):
        cls = getattr(self.mod, cname(n))
        d = self.env["defs"][n]
        src = next(df for f, _, df in d[3] if f == fname)
        return eval(src, self.mod.__dict__)
