"""Cache bridge (WP-J): ties the memoised core system of Model/CacheBridge.v -- and with it the claim "the stateless
core model is a sound abstraction of the cached typelib" -- to /repo on every run.

`obligations(run)` does

  1. *theorems*: Props/C12Bridge.v is re-compiled in the build dir (Print Assumptions captured, one obligation per
     theorem): the soundness theorem C12Bridge_sound, the lifted value theorems (C01 / C03 / C13 `_in_any_history`), the
     instance lemmas for Model/Cache.v, the refutation witnesses.
  2. *reflection*: the parameters of the model that mirror /repo HEAD are read from the live module: every function the
     model gives a memo table is a functools cache there (inspection.unwrap, graph.static_order, unmarshaller,
     marshaller, codec, serdes._strload); strload hands out a fresh object (alias_load = false); _strload is not `typed`.
  3. *correspondence on HISTORIES* (`cache-bridge:*`): generated histories of public operations {unmarshaller /
     marshaller / codec, unmarshal, marshal, encode, decode, codec encode / decode, deep-mutate a returned result /
     a held input, cache_clear} are run in ONE process WITHOUT clearing caches between the operations, and every
     step is compared with
        (a) the STATELESS reference semantics Core.unm / Core.mar (coremodel.Group encoders, case_ok) -- histories
            inside the guard;  model = Core, implementation = cached typelib, on histories, not single calls;
        (b) the stateless mechanism (spec_op = Build.api_call on the observed node orders) -- inside the guard;
        (c) the MEMOISED model (outsS) -- every history, also outside the guard: there the model must reproduce
            what the warm process answered (KF-C12-union-order at the root and one level down);
     and the guard itself is compared: clean_hist (decided by vm_compute on the model) against a direct Python
     reading of "two ==-equal annotations with different member order met between two cache_clear()s"
     (c12_worker.ann_subterms / ann_sig on the live annotation objects).
     Two streams: `c12-universe` re-uses C12's generators by import (props/c12.py gen_history, c12_families: scalars
     incl. the equal-value families, bare list / dict, list[T], dict[str, T], unions in both member orders and three
     spellings); `classes` uses the core generators (coregen: dataclasses, named tuples, typed dicts, plain classes,
     recursive classes -> Delayed proxies resolved through the factory memo, NewType / alias wrappers).

Called from the property modules (C12; the lifted theorems are also claimed by C01 / C03 / C13); everything is
recorded on the given `run`.
"""
from __future__ import annotations

import collections
import copy
import json
import os
import random
import re
import sys
import warnings

import impl
import lib
from lib import coq_bool, coq_list

_HERE = os.path.dirname(os.path.abspath(__file__))
if os.path.join(_HERE, "props") not in sys.path:
    sys.path.insert(0, os.path.join(_HERE, "props"))

COQ_TARGETS = ["theories/Model/CacheBridge.vo", "theories/Proofs/CacheBridge.vo", "theories/Props/C12Bridge.vo"]
THEOREMS = [
    "C12Bridge_cached_refines", "C12Bridge_system_refines", "C12Bridge_run", "C12Bridge_step", "C12Bridge_sound",
    "C12Bridge_kth_call", "C12Bridge_warm_is_cold", "C12Bridge_position_free", "C12Bridge_unmarshal_is_reference", "C12Bridge_marshal_is_reference",
    "C12Bridge_contract_from_tables",
    "C01_roundtrip_in_any_history", "C03_conforms_in_any_history", "C13_passthrough_in_any_history",
    "C13_idempotent_in_any_history",
    "C12Bridge_cache_v_instances", "C12Bridge_cache_v_refines",
    "C12Bridge_refuted_union_order", "C12Bridge_refuted_union_order_c12", "C12Bridge_full_refuted",
    "C12Bridge_refuted_result_alias",
]
PROPS = [("Props/C12Bridge.v", THEOREMS)]
HDR = ("From Coq Require Import List NArith. Import ListNotations.\n"
       "Require Import TL.Model.Core TL.Model.CoreTables TL.Model.Build TL.Model.BuildTables TL.Model.CacheBridge.\n")

VALUE_OPS = ("unmarshal", "marshal", "encode", "decode", "cencode", "cdecode")


# ----------------------------------------------------------------------------------
# C12's type specs -> descriptions of the core universe
# ----------------------------------------------------------------------------------
SCALAR_LEAF = {"int": "int", "float": "float", "str": "str", "bytes": "bytes", "datetime": "datetime",
               "timedelta": "timedelta", "date": "date", "time": "time", "decimal": "Decimal", "fraction": "Fraction",
               "bool": "bool", "uuid": "UUID", "posixpath": "Path"}
UNION_STYLE = {"typing": "Union", "pipe": "|", "optional": "Optional"}


def desc_of_spec(t):
    """a C12 type spec (c12_worker.mk_type) as a universe description; None = outside the core universe"""
    k = t[0]
    if k == "S":
        if t[1] == "none":
            return ("none",)
        return ("leaf", SCALAR_LEAF[t[1]]) if t[1] in SCALAR_LEAF else None
    if k == "BL":
        return ("leaf", "list")
    if k == "BD":
        return ("leaf", "dict")
    if k == "ANY":
        return ("leaf", "Any")
    if k == "L":
        a = desc_of_spec(t[1])
        return None if a is None else ("seq", "KList", "list[{}]", a)
    if k == "D":
        a = desc_of_spec(t[1])
        return None if a is None else ("map", "KDict", "dict[{}, {}]", ("leaf", "str"), a)
    if k in ("U", "OPT"):
        style, ms = (t[1], t[2]) if k == "U" else ("optional", [t[1], ["S", "none"]])
        ds = [desc_of_spec(m) for m in ms]
        return None if any(d is None for d in ds) else ("union", UNION_STYLE[style], ds)
    return None


# ----------------------------------------------------------------------------------
# the guard, read directly on the live annotation objects
# ----------------------------------------------------------------------------------
class SpellingGuard:
    """which (sub-)annotations were handed to an annotation-keyed cache since the last cache_clear(): a collision is a
    new one that is == to an earlier one with another member order"""

    def __init__(self):
        self.seen = []
        self.collided = False

    def clear(self):
        self.seen = []

    def admit(self, pyty):
        import c12_worker as w
        for a in w.ann_subterms(pyty):
            sa = w.ann_sig(a)
            for b, sb in self.seen:
                if sa != sb and w._eq(a, b):
                    self.collided = True
            self.seen.append((a, sa))


# ----------------------------------------------------------------------------------
# one synthesised module, many histories
# ----------------------------------------------------------------------------------
def _observe(f):
    try:
        with warnings.catch_warnings():
            warnings.simplefilter("ignore")
            return ("ok", f())
    except RecursionError:
        return ("raise", "ERecursion")
    except BaseException as e:  # noqa: BLE001 - the kind is the observation
        if isinstance(e, (KeyboardInterrupt, SystemExit)):
            raise
        return ("raise", impl.exc_kind(e))


class HistGroup:
    """a coremodel.Group (one module: classes + root annotations) on which whole histories are run"""

    def __init__(self, env, roots, canonical_unions=True):
        import coremodel
        import coreprop
        import universe
        if canonical_unions:
            self.g = coremodel.Group(env, roots, coreprop.suppressed())
        else:
            # C12's universe holds BOTH member orders of one union in one process: the core harness' normalisation
            # (one member order per module) is switched off for this group; that every materialised annotation still
            # says what its description says is checked below
            keep = universe.canonicalise_unions
            universe.canonicalise_unions = lambda env, roots: None
            try:
                self.g = coremodel.Group(env, roots, coreprop.suppressed())
            finally:
                universe.canonicalise_unions = keep
        self.hists = []           # dicts: ops (normalised), obs, coq terms, guard
        self.case_of = {}         # (history index, op index) -> index in g.cases
        self.decs = {}
        self.problems = []
        self.variants = {}        # root index -> roots that are the same annotation with other union member orders

    # ---- running one history (no cache clearing between its operations)
    def run_history(self, ops, label=""):
        import typelib
        import c12_worker as w
        from typelib import compat
        g = self.g
        impl.clear_caches()
        guard = SpellingGuard()
        inputs, results, rec = [], [], []
        # an input is snapshotted only when the history mutates objects (a held input; a result, which may BE the input:
        # pass-through leaves).  Otherwise the object itself is kept: a deep copy of a set need not iterate in the order
        # of the original, and the marshalled list follows the iteration order of the object that was passed
        snap = copy.deepcopy if any(o["k"] in ("mutin", "mutres") for o in ops) else (lambda v: v)
        for o in ops:
            k = o["k"]
            r = {"obs": None, "x": None, "dec": None}
            rec.append(r)
            if k == "clear":
                impl.clear_caches()
                guard.clear()
                results.append(None)
                continue
            if k in ("mutres", "mutin"):
                base = (results[o["i"]] if o["i"] < len(results) else None) if k == "mutres" else \
                       (inputs[o["i"]] if o["i"] < len(inputs) else None)
                tgt = w.navigate(base, o["path"]) if base is not None else None
                if tgt is not None:
                    w.do_mutate(tgt)
                results.append(None)
                continue
            T = g.pytys[o["ri"]]
            if k.startswith("build"):
                f = {"build_u": typelib.unmarshaller, "build_m": typelib.marshaller, "build_c": typelib.codec}[k]
                guard.admit(T)
                _observe(lambda: f(T))
                results.append(None)
                continue
            if "new" in o:
                x = o["new"]
                inputs.append(x)
            else:
                x = inputs[o["old"]] if o["old"] < len(inputs) else None
            r["x"] = snap(x)                   # the input by its content at call time
            if k == "unmarshal":
                guard.admit(T)
                ob = _observe(lambda: typelib.unmarshal(T, x))
            elif k == "marshal":
                guard.admit(T)
                ob = _observe(lambda: typelib.marshal(x, t=T))
            elif k == "decode":
                r["dec"] = _observe(lambda: compat.json.loads(x))
                if r["dec"][0] == "ok":
                    guard.admit(T)
                ob = _observe(lambda: typelib.decode(T, x))
            elif k == "cdecode":
                guard.admit(T)
                r["dec"] = _observe(lambda: compat.json.loads(x))
                ob = _observe(lambda: typelib.codec(T).decode(x))
            elif k == "encode":
                guard.admit(T)
                ob = _observe(lambda: compat.json.loads(typelib.encode(x, t=T)))
            elif k == "cencode":
                guard.admit(T)
                ob = _observe(lambda: compat.json.loads(typelib.codec(T).encode(x)))
            else:
                raise ValueError(k)
            results.append(ob[1] if ob[0] == "ok" and k in ("unmarshal", "marshal", "decode", "cdecode") else None)
            r["obs"] = (ob[0], copy.deepcopy(ob[1])) if ob[0] == "ok" else ob
        self.hists.append({"ops": ops, "rec": rec, "py_guard": not guard.collided, "label": label})

    # ---- after all histories: cases for the stateless model, tables, Coq terms
    def _mirror_only(self, direction, ri, x):
        import coremodel
        g = self.g
        impl.clear_caches()
        g.mirror.depth = 0
        g.mirror.max_depth = g.fuel
        lim = sys.getrecursionlimit()
        sys.setrecursionlimit(max(lim, 40 * g.fuel + 2000))
        try:
            (g.mirror.unm if direction == "u" else g.mirror.mar)(g.roots[ri], x)
        except (coremodel.ModelRaise, RecursionError):
            pass
        finally:
            sys.setrecursionlimit(lim)

    def _add_case(self, direction, ri, x, obs):
        """coremodel.Group.add with the observation of the HISTORY in place of a fresh cold call"""
        g = self.g
        keep = g.observe
        g.observe = lambda d, i, v: obs
        try:
            g.add(direction, ri, x)
        finally:
            g.observe = keep
        return len(g.cases) - 1

    def _json_stable(self, ri, x):
        """the wire form of marshal(x) is what JSON carries unchanged (so that json.loads(encode(..)) is that form)"""
        import coreprop
        from typelib import compat, marshals
        impl.clear_caches()
        cold = _observe(lambda: marshals.marshal(x, t=self.g.pytys[ri]))
        if cold[0] != "ok":
            return True                      # encode raises like marshal: the kind is compared
        try:
            return coreprop.same(compat.json.loads(compat.json.dumps(cold[1])), cold[1])
        except Exception:  # noqa: BLE001
            return False

    def finish(self):
        g, reg = self.g, self.g.reg
        for hi, h in enumerate(self.hists):
            terms, obs_terms, compared = [], [], 0
            for oi, (o, r) in enumerate(zip(h["ops"], h["rec"])):
                k = o["k"]
                if k == "clear":
                    terms.append("CClear"); obs_terms.append("None"); continue
                if k in ("mutres", "mutin"):
                    terms.append("(CMutate (fun v => v))"); obs_terms.append("None"); continue
                tty = reg.emit_ty(g.roots[o["ri"]])
                if k.startswith("build"):
                    terms.append("(%s %s)" % ({"build_u": "CBuildU", "build_m": "CBuildM", "build_c": "CBuildC"}[k], tty))
                    obs_terms.append("None"); continue
                x, ob = r["x"], r["obs"]
                try:
                    ex = reg.enc(x)
                    eo = ("(Ok %s)" % reg.enc(ob[1])) if ob[0] == "ok" else "(@Raise pv %s)" % ob[1]
                except Exception as e:  # noqa: BLE001
                    self.problems.append("encode: %r" % e)
                    terms.append("CClear"); obs_terms.append("None"); continue
                con = {"unmarshal": "CUnmarshal", "marshal": "CMarshal", "encode": "CEncode", "decode": "CDecode",
                       "cencode": "CCEncode", "cdecode": "CCDecode"}[k]
                terms.append("(%s %s %s)" % (con, tty, ex))
                direction = "u" if k in ("unmarshal", "decode", "cdecode") else "m"
                cmp_obs = True
                if k in ("decode", "cdecode"):
                    d = r["dec"]
                    self.decs[ex] = ("(Ok %s)" % reg.enc(d[1])) if d[0] == "ok" else "(@Raise pv %s)" % d[1]
                    if d[0] == "ok":
                        self.case_of[(hi, oi)] = self._add_case("u", o["ri"], d[1], ob)
                elif k in ("encode", "cencode"):
                    if self._json_stable(o["ri"], x):
                        self.case_of[(hi, oi)] = self._add_case("m", o["ri"], x, ob)
                    else:
                        self._mirror_only("m", o["ri"], x)
                        cmp_obs = False
                else:
                    self.case_of[(hi, oi)] = self._add_case(direction, o["ri"], x, ob)
                obs_terms.append("(Some %s)" % eo if cmp_obs else "None")
                compared += cmp_obs
                if not h["py_guard"]:
                    # outside the guard the warm process may run the routine of another member order: the runtime
                    # tables must also hold what THAT routine asks of the leaves
                    xin = r["dec"][1] if k in ("decode", "cdecode") and r["dec"][0] == "ok" else x
                    for v in self.variants.get(o["ri"], []):
                        self._mirror_only(direction, v, xin)
            h["term"] = "(%s,\n    %s)" % (coq_list(terms, "cop"), coq_list(obs_terms, "(option (res pv))"))
            h["compared"] = compared
        for t in g.pytys:
            g.collect_orders(t)
        self.problems += g.order_problems

    def emit(self, name) -> str:
        from typelib import codecs
        from typelib.py import inspection
        g, reg = self.g, self.g.reg
        texts = ["(PAtom %d%%nat)" % i for i, o in enumerate(reg.atom_objs) if inspection.istexttype(type(o))]
        texts += ["(PKey %d%%nat)" % f for f in reg.fields.values()]
        isb = getattr(codecs, "isbyteslike", None)
        bts = []
        for d, t in zip(g.roots, g.pytys):
            try:
                if isb is not None and isb(t):
                    bts.append(reg.emit_ty(d))
            except Exception:  # noqa: BLE001
                pass
        decs = coq_list(["(%s, %s)" % kv for kv in self.decs.items()], "(pv * res pv)")
        hists = coq_list([h["term"] for h in self.hists], "(list cop * list (option (res pv)))")
        extra = ("Definition texts : list pv := %s.\nDefinition decs : list (pv * res pv) := %s.\n"
                 "Definition bytes_tys : list ty := %s.\n"
                 "Definition hists : list (list cop * list (option (res pv))) :=\n  %s.\n"
                 "Definition checks := map (tie_check rt E orders texts decs bytes_tys %d false) hists.\n"
                 % (coq_list(texts, "pv"), decs, coq_list(bts, "ty"), hists, g.fuel))
        base = g.emit_mech(name)
        return base.replace(f"End {name}.\n", extra + f"End {name}.\n")


def evaluate(run, hgroups, tag, per_file=2):
    """-> per group: (bad_spec, bad_mech, bad_agree, hyps_ok, checks) or None"""
    files, order = {}, []
    for fi in range(0, len(hgroups), per_file):
        chunk = hgroups[fi:fi + per_file]
        text = HDR
        for k, hg in enumerate(chunk):
            text += hg.emit(f"G{fi + k}")
        for k in range(len(chunk)):
            nm = f"G{fi + k}"
            text += "".join(f"Eval vm_compute in {nm}.{d}.\n" for d in ("bad", "bad_mech", "bad_agree", "hyps_ok", "checks"))
        fname = "cases_cachebridge_%s_%d.v" % (tag.replace("-", "_"), fi // per_file)
        files[fname] = text
        order.append((fname, chunk))
    results = run.coq_eval_many(files, timeout=1500)
    out, failed = {}, []
    for fname, chunk in order:
        res = results.get(fname)
        if res is None or len(res) != 5 * len(chunk):
            failed.append(fname)
            for hg in chunk:
                out[id(hg)] = None
            continue
        for k, hg in enumerate(chunk):
            r = res[5 * k: 5 * k + 5]
            checks = [(int(a), int(b), int(c)) for a, b, c in re.findall(r"\(\s*(\d+),\s*\(\s*(\d+),\s*(\d+)\s*\)\s*\)", r[4])]
            out[id(hg)] = (set(lib.parse_nat_list(r[0])), set(lib.parse_nat_list(r[1])), set(lib.parse_nat_list(r[2])),
                           r[3].strip() == "true", checks)
    run.oblige(f"evaluate:cache-bridge:{tag} model shards compile ({len(files)})", not failed, ", ".join(failed))
    return out


def account(run, hgroups, results, tag):
    """book-keeping of one stream: three correspondence layers + the guard comparison"""
    n_ops = n_cmp = n_hist = in_guard = out_guard = 0
    bad_ref, bad_spec, bad_memo, bad_guard, manifest = [], [], [], [], 0
    dist = collections.Counter()
    lengths = collections.Counter()
    hyps_bad, problems = [], []
    for hg in hgroups:
        res = results.get(id(hg))
        problems += hg.problems
        if res is None:
            for h in hg.hists:
                bad_memo.append({"history": h["label"], "why": "model evaluation did not compile"})
            continue
        bs, bm, ba, hyps, checks = res
        if not hyps:
            hyps_bad.append(hg.g.env["module"])
        if len(checks) != len(hg.hists):
            bad_memo.append({"module": hg.g.env["module"], "why": "checks not parsed"})
            continue
        for hi, (h, (cg, fm, fs)) in enumerate(zip(hg.hists, checks)):
            n_hist += 1
            lengths[len(h["ops"])] += 1
            n_ops += len(h["ops"])
            n_cmp += h["compared"]
            for o in h["ops"]:
                dist[o["k"]] += 1

            def describe(oi):
                o = h["ops"][oi]
                r = h["rec"][oi]
                return {"stream": tag, "history": h["label"], "op_index": oi, "op": o["k"],
                        "type": repr(hg.g.pytys[o["ri"]]) if "ri" in o else None, "input": repr(r["x"])[:200],
                        "observed": repr(r["obs"])[:200], "in_guard": bool(cg),
                        "ops": [(p["k"], repr(hg.g.pytys[p["ri"]]) if "ri" in p else None) for p in h["ops"][:oi + 1]][-8:]}
            if bool(cg) != h["py_guard"]:
                bad_guard.append({"stream": tag, "history": h["label"], "model_clean_hist": bool(cg), "python_reading": h["py_guard"],
                                  "ops": [(p["k"], repr(hg.g.pytys[p["ri"]]) if "ri" in p else None) for p in h["ops"]][:12]})
            if fm:
                bad_memo.append(describe(fm - 1))
            if cg:
                in_guard += 1
                if fs:
                    bad_spec.append(describe(fs - 1))
                for oi in range(len(h["ops"])):
                    ci = hg.case_of.get((hi, oi))
                    if ci is not None and ci in bs:
                        bad_ref.append(describe(oi))
            else:
                out_guard += 1
                manifest += bool(fs)
    run.oblige(f"tie:cache-bridge:{tag}: every observed graph node has a model annotation", not problems, "; ".join(problems[:3]))
    run.oblige(f"tie:cache-bridge:{tag}: order_ok (orders_contract, hypothesis of C12Bridge_*_is_reference) holds on every "
               "observed graph.static_order", not hyps_bad, "groups: " + ", ".join(hyps_bad[:5]))
    delayed = sum(v.count("ncyc := true") for hg in hgroups for v in hg.g.orders["u"].values())
    d = {"histories": n_hist, "operations": n_ops, "modules": len(hgroups),
         "node_orders": sum(len(hg.g.orders["u"]) for hg in hgroups), "deferred_nodes (Delayed proxies)": delayed, "compared_value_operations": n_cmp, "inside_guard": in_guard,
         "outside_guard": out_guard, "outside_guard_where_the_stateless_model_differs (the finding manifests)": manifest,
         "ops": dict(dist), "lengths": dict(sorted(lengths.items()))}
    run.record_corr(f"cache-bridge:{tag}:stateless-reference (Core.unm/mar) vs cached typelib, histories inside the guard",
                    sum(len(hg.g.cases) for hg in hgroups), bad_ref, n_cmp, d)
    run.record_corr(f"cache-bridge:{tag}:stateless-mechanism (spec_op) vs cached typelib, histories inside the guard",
                    in_guard, bad_spec, in_guard, d)
    run.record_corr(f"cache-bridge:{tag}:memoised-model (outsS) vs cached typelib, all histories",
                    n_hist, bad_memo, n_hist, d)
    run.record_corr(f"cache-bridge:{tag}:guard (clean_hist vs equal-annotation-other-order read on the live objects)",
                    n_hist, bad_guard, n_hist, d)
    run.extra_cov.setdefault("cache_bridge", {})[tag] = d
    return bad_ref + bad_spec + bad_memo + bad_guard


# ----------------------------------------------------------------------------------
# stream 1: C12's universe and generators
# ----------------------------------------------------------------------------------
def _c12():
    """props/c12.py, C12's own generators (the module instance the running check already imported, if any)"""
    m = sys.modules.get("props.c12")
    if m is not None:
        return m
    import c12
    return c12


def c12_histories(run, n_random, n_family, maxlen):
    c12 = _c12()
    import c12_families
    rng = random.Random(run.seed * 31 + 5)
    hists = [("corpus-%d" % i, h) for i, h in enumerate(c12.corpus_histories())]
    hists += [("random-%d" % i, c12.gen_history(rng, maxlen)) for i in range(n_random)]
    fam = c12_families.family_histories(run.tier != "quick", model=True)
    rng.shuffle(fam)
    hists += fam[:n_family]
    # the replay histories of C12's listed open findings: they must lie OUTSIDE the guard
    try:
        fd = json.load(open(os.path.join(lib.VERIF, "findings.d", "C12.json")))
        for e in fd.get("open", []):
            if isinstance(e.get("replay"), dict) and e["replay"].get("history"):
                hists.append(("finding:" + e["id"], e["replay"]["history"]))
    except Exception as ex:  # noqa: BLE001
        run.notes.append("cachetie: findings.d/C12.json not read: %r" % ex)
    # the two witnesses of KF-C12-union-order, always present
    hists.append(("witness-root", [{"op": "build_u", "t": c12.U("typing", c12.INT, c12.STR)},
                                   {"op": "unmarshal", "t": c12.U("typing", c12.STR, c12.INT), "x": {"new": ["s", "5"]}}]))
    hists.append(("witness-nested", [{"op": "build_m", "t": ["L", c12.U("typing", c12.INT, c12.STR)]},
                                     {"op": "marshal", "t": ["D", c12.U("typing", c12.STR, c12.INT)],
                                      "x": {"new": ["d", [[["s", "a"], ["i", 5]]]]}}]))
    return hists


def normalise_c12(ops, root_index):
    """C12's op dicts -> the normalised form; None when a type lies outside the core universe"""
    import c12_worker as w
    out = []
    for o in ops:
        k = o["op"]
        if k == "clear":
            out.append({"k": "clear"})
        elif k in ("mutres", "mutin"):
            out.append({"k": k, "i": o["i"], "path": o["path"]})
        else:
            d = desc_of_spec(o["t"])
            if d is None:
                return None
            ri = root_index(o["t"], d)
            n = {"k": k, "ri": ri}
            if k in VALUE_OPS:
                if "new" in o["x"]:
                    n["new"] = w.mk_val(o["x"]["new"])
                else:
                    n["old"] = o["x"]["old"]
            out.append(n)
    return out


def _norm_key(d):
    """a description up to the member order and spelling of its unions"""
    k = d[0]
    if k == "seq":
        return ("seq", d[1], _norm_key(d[3]))
    if k == "map":
        return ("map", d[1], _norm_key(d[3]), _norm_key(d[4]))
    if k == "union":
        return ("union", tuple(sorted(repr(_norm_key(m)) for m in d[2])))
    return d


def _unions_in(d, acc):
    k = d[0]
    if k == "seq":
        _unions_in(d[3], acc)
    elif k == "map":
        _unions_in(d[3], acc); _unions_in(d[4], acc)
    elif k == "union":
        for m in d[2]:
            _unions_in(m, acc)
        acc.setdefault(_norm_key(d), [])
        if not any(repr(d[2]) == repr(u[2]) for u in acc[_norm_key(d)]):
            acc[_norm_key(d)].append(d)


def _variants(d, alts, cap=6):
    """d with every union position replaced by each ==-equal union met in the group (what inspection.unwrap's memo may
    serve): the node orders of these annotations are what the memoised model looks up outside the guard"""
    k = d[0]
    if k == "seq":
        return [("seq", d[1], d[2], a) for a in _variants(d[3], alts, cap)][:cap]
    if k == "map":
        return [("map", d[1], d[2], a, b) for a in _variants(d[3], alts, cap) for b in _variants(d[4], alts, cap)][:cap]
    if k == "union":
        return ([d] + [u for u in alts.get(_norm_key(d), []) if repr(u[2]) != repr(d[2])])[:cap]
    return [d]


def stream_c12(run, n_random, n_family, maxlen, per_group=40):
    import c12_worker as w
    import coregen
    hists = c12_histories(run, n_random, n_family, maxlen)
    hgroups, skipped = [], 0
    for start in range(0, len(hists), per_group):
        chunk = hists[start:start + per_group]
        roots, index = [], {}

        def root_index(t, d):
            key = json.dumps(t)
            if key not in index:
                index[key] = len(roots)
                roots.append(d)
            return index[key]
        normed = []
        for label, ops in chunk:
            try:
                n = normalise_c12(ops, root_index)
            except Exception:  # noqa: BLE001
                n = None
            if n is None:
                skipped += 1
            else:
                normed.append((label, n))
        if not roots:
            continue
        alts = {}
        for d in roots:
            _unions_in(d, alts)
        have = {repr(d): i for i, d in enumerate(roots)}
        variants = {}
        for i, d in enumerate(list(roots)):
            for v in _variants(d, alts):
                if repr(v) not in have:
                    have[repr(v)] = len(roots)
                    roots.append(v)          # never the type of an operation: only its node order is looked up
                if have[repr(v)] != i:
                    variants.setdefault(i, []).append(have[repr(v)])
        env = {"module": coregen.new_module_name("cb"), "defs": {}}
        hg = HistGroup(env, roots, canonical_unions=False)
        hg.variants = variants
        # every materialised annotation says what its description says (member order included)
        specs = {i: json.loads(k) for k, i in index.items()}
        bad = [repr(hg.g.pytys[i]) for i, sp in specs.items()
               if w.ann_sig(hg.g.pytys[i]) != w.ann_sig(w.mk_type(sp)) or not w._eq(hg.g.pytys[i], w.mk_type(sp))]
        hg.problems += ["materialised annotation differs from its spec: " + b for b in bad[:3]]
        try:
            for label, n in normed:
                hg.run_history(n, label)
            hg.finish()
        finally:
            hg.g.close()
        hgroups.append(hg)
    res = evaluate(run, hgroups, "c12-universe")
    bad = account(run, hgroups, res, "c12-universe")
    # the listed open findings of C12 are excluded by the guard, and exactly as the memoised model says
    listed, inside = [], []
    for hg in hgroups:
        r = res.get(id(hg))
        for hi, h in enumerate(hg.hists):
            if h["label"].startswith(("finding:", "witness-")):
                listed.append(h["label"])
                if r is None or len(r[4]) != len(hg.hists) or r[4][hi][0] or h["py_guard"] or r[4][hi][1] or not r[4][hi][2]:
                    inside.append(h["label"])
    run.oblige("tie:cache-bridge: the replay histories of C12's listed open findings (findings.d/C12.json) and the two "
               "witnesses of C12Bridge_refuted_union_order lie outside the guard (clean_hist = false), the memoised model "
               "answers what the warm process answered and the stateless model does not",
               bool(listed) and not inside, "listed: %s; not as claimed: %s" % (", ".join(listed), ", ".join(inside)))
    run.extra_cov["cache_bridge"]["c12-universe"]["histories_outside_the_core_universe"] = skipped
    return bad


# ----------------------------------------------------------------------------------
# stream 2: classes, recursive classes, wrappers (core generators)
# ----------------------------------------------------------------------------------
def _has_set(v, depth=0):
    if isinstance(v, (set, frozenset)):
        return True
    if depth > 6:
        return False
    if isinstance(v, dict):
        return any(_has_set(a, depth + 1) or _has_set(b, depth + 1) for a, b in v.items())
    if isinstance(v, (list, tuple, collections.deque)):
        return any(_has_set(a, depth + 1) for a in v)
    d = getattr(v, "__dict__", None)
    if d is not None and type(v).__module__.startswith("verif_core"):
        return any(_has_set(a, depth + 1) for a in d.values())
    sl = getattr(type(v), "__slots__", None)
    if sl and type(v).__module__.startswith("verif_core"):
        return any(_has_set(getattr(v, a, None), depth + 1) for a in ([sl] if isinstance(sl, str) else sl))
    return False


def class_history(rng, g, maxlen):
    import coregen
    ops, held, nres = [], [], []
    sets = [False]          # results are mutated only in histories whose inputs hold no set (see run_history: snapshots)
    n = rng.randint(4, maxlen)
    nroots = len(g.roots)
    fam = rng.sample(range(nroots), min(nroots, rng.randint(2, 4)))
    vals = {}
    for ri in fam:
        vs = []
        for _ in range(2):
            try:
                vs.append(coregen.gen_value(rng, g.roots[ri], g.env, g.mod, depth=3))
            except RecursionError:
                pass
        vals[ri] = vs
    for i in range(n):
        r = rng.random()
        ri = rng.choice(fam)
        if r < 0.10:
            ops.append({"k": rng.choice(["build_u", "build_m", "build_c"]), "ri": ri})
        elif r < 0.16 and nres and not sets[0]:
            ops.append({"k": "mutres", "i": rng.choice(nres), "path": rng.choice([[], [0], [1], [0, 0]])})
        elif r < 0.20:
            ops.append({"k": "clear"})
        elif held and r < 0.45:
            k, ri2, x = rng.choice(held)          # the same call again, on a warm cache
            ops.append({"k": k, "ri": ri2, "new": copy.deepcopy(x)})
            if k in ("unmarshal", "marshal"):
                nres.append(len(ops) - 1)
        elif vals[ri]:
            v = rng.choice(vals[ri])
            k = rng.choices(["marshal", "unmarshal", "encode", "cencode"], [35, 50, 8, 7])[0]
            if k == "unmarshal":
                impl.clear_caches()
                from typelib import marshals
                wire = _observe(lambda: marshals.marshal(v, t=g.pytys[ri]))
                pool = coregen.input_pool(rng, v, wire[1] if wire[0] == "ok" else None)
                x = rng.choice(pool)[1]
            else:
                x = v
            if _has_set(x):
                if any(o["k"] == "mutres" for o in ops):
                    continue
                sets[0] = True
            ops.append({"k": k, "ri": ri, "new": copy.deepcopy(x)})
            held.append((k, ri, x))
            if k in ("unmarshal", "marshal"):
                nres.append(len(ops) - 1)
    return ops


def stream_classes(run, n_groups, per_group, maxlen):
    import coregen
    rng = random.Random(run.seed * 31 + 9)
    hgroups = []
    for gi in range(n_groups):
        env = coregen.gen_env(rng, ncls=rng.randint(2, 3), cyclic=(gi % 2 == 1), depth=2)
        classes = [n for n, d in env["defs"].items() if d[0] in ("class", "alias")]
        roots = [("name", n) for n in classes] + [coregen.gen_ty(rng, env, 2) for _ in range(3)]
        roots = [r for r in roots if not isinstance(r, str)]
        hg = HistGroup(env, roots)
        try:
            for hi in range(per_group):
                ops = class_history(rng, hg.g, maxlen)
                hg.run_history(ops, "%s-%d" % (env["module"], hi))
            hg.finish()
        finally:
            hg.g.close()
        hgroups.append(hg)
    res = evaluate(run, hgroups, "classes")
    return account(run, hgroups, res, "classes")


# ----------------------------------------------------------------------------------
# reflection: the parameters of the model that mirror /repo HEAD
# ----------------------------------------------------------------------------------
def reflect(run):
    from typelib import codecs, graph, serdes
    from typelib.marshals import api as mapi
    from typelib.py import inspection
    from typelib.unmarshals import api as uapi
    named = {"inspection.unwrap": getattr(inspection, "unwrap", None), "graph.static_order": graph.static_order,
             "unmarshaller": uapi.unmarshaller, "marshaller": mapi.marshaller, "codec": codecs.codec,
             "serdes._strload": getattr(serdes, "_strload", None)}
    missing = [k for k, f in named.items() if f is None or not hasattr(f, "cache_clear")]
    run.oblige("reflect:cache-bridge: every function the memoised model gives a memo table is a functools cache in "
               "typelib (inspection.unwrap, graph.static_order, unmarshaller, marshaller, codec, serdes._strload)",
               not missing, "not cached: " + ", ".join(missing))
    fresh, detail = True, ""
    impl.clear_caches()
    for txt in ("[1, 2]", '{"a": [1]}', b"[[1], 2]", "(1, [2])"):
        a, b = serdes.strload(txt), serdes.strload(txt)
        inner = getattr(serdes, "_strload", serdes.strload)
        c = inner(txt)
        import c12_worker as w
        shared = set(w.containers(a)) & (set(w.containers(b)) | set(w.containers(c)))
        if shared or a != b:
            fresh, detail = False, "strload(%r) hands out a container it keeps" % (txt,)
    run.oblige("reflect:cache-bridge: serdes.strload hands out a fresh object (alias_load = false in the model)", fresh, detail)
    try:
        typed = serdes._strload.cache_parameters()["typed"]
    except Exception as e:  # noqa: BLE001
        typed = repr(e)
    run.oblige("reflect:cache-bridge: _strload compares keys by == only (typed=False)", typed is False, f"typed = {typed}")


def ensure_built():
    missing = [t for t in COQ_TARGETS if not os.path.exists(os.path.join(lib.COQ, t))
               or os.path.getmtime(os.path.join(lib.COQ, t)) < os.path.getmtime(os.path.join(lib.COQ, t[:-1]))]
    if not missing:
        return True, ""
    rc, out, err = lib.sh(["bash", os.path.join(lib.VERIF, "setup.sh")] + COQ_TARGETS, timeout=1800, cwd=lib.VERIF)
    ok = all(os.path.exists(os.path.join(lib.COQ, t)) for t in COQ_TARGETS)
    return ok, (out + err)[-400:]


def obligations(run: lib.Run, streams: bool = True, theorems: bool = True):
    ok, detail = ensure_built()
    run.oblige("build:cache bridge theories (%s)" % " ".join(COQ_TARGETS), ok, detail)
    if not ok:
        return
    if theorems:
        for rel, thms in PROPS:
            run.check_props(rel, thms)
    run.assumptions += [
        "C12Bridge: the memoised core system (Model/CacheBridge.v: six memo tables, serdes.load through _strload's "
        "memo, Delayed proxies through the factory memo) is a hand-written model of the memoisation layer of typelib; "
        "it is tied by the `cache-bridge:*` streams: whole histories run in one process without clearing caches, the "
        "memoised model compared on every history (also outside the guard), the stateless models inside the guard",
        "C12Bridge: functools.cache / lru_cache return the value stored under the first ==/hash-equal key and never "
        "store an exception (Cache.memo_get / memo_put, shared with C12); a Delayed proxy's own slot `_resolved` is "
        "read as the factory memo; caches of the scalar routines (dateparse, _isoduration) are inside the runtime's "
        "leaf functions here and are C12's own subject (Model/Cache.v, an instance of the same construction)",
    ]
    reflect(run)
    if streams:
        stream_c12(run, n_random=run.budget(150, 1200), n_family=run.budget(150, 1500), maxlen=run.budget(12, 30))
        stream_classes(run, n_groups=run.budget(12, 80), per_group=run.budget(8, 12), maxlen=run.budget(10, 18))
