"""C12 round 3: the equal-value families of the quantifier, enumerated.

The property quantifies "over types and inputs that are distinct objects but compare/hash equal (... equal-instant
datetimes with different offsets, 1/1.0/True, equal text as str/bytes)".  A *family* is a list of value specs that are
pairwise == and hash-equal (checked on the live interpreter on every run: `family` request of the worker) although some
routine renders them differently -- i.e. exactly the inputs on which a ==-keyed memo in front of a routine is visible.
Every family is put, member after member, through every operation, under every declared type the members can be handed
to (including a subclass instance under its base type: datetime under date, IntEnum / bool under int, str-enum under
str, pendulum / user subclasses under the stdlib temporal types), at the root and one level down (list, dict value,
Optional, tuple, frozenset, field of a frozen dataclass -- the last three containers are themselves hashable and == --
and the key of a mapping).

Nothing here knows a cache: the histories are compared operation by operation with the cold process (oracle), and the
part of them that lies in the Coq model's universe with Model/Cache.v (correspondence).
"""
from __future__ import annotations

import json
import re

S = lambda n: ["S", n]  # noqa: E731
C = lambda n: ["C", n]  # noqa: E731
NON = S("none")


def dt(iso, off, fold=0):
    return ["dt", iso, off] + ([fold] if fold else [])


def tm(iso, off, fold=0):
    return ["tm", iso, off] + ([fold] if fold else [])


def fl(x):
    return ["f", float(x).hex()]


def cx(a, b):
    return ["cx", float(a).hex(), float(b).hex()]


def td(d, s, us=0):
    return ["td", d, s, us]


# ---- declared types ----------------------------------------------------------------------------------------------
TEMPORAL_T = [S("date"), S("time"), S("datetime"), S("timedelta")]
TEXT_T = [S("str"), S("bytes")]
NUM_T = [S("int"), S("float"), S("bool"), S("decimal"), S("fraction")]
OPEN_T = [["ANY"], ["OBJ"]]
PATH_T = [S("path"), S("purepath"), S("winpath"), S("posixpath")]
LIT_T = [["LIT", [1, "1", "abc"]]]
MODEL_SCALARS = ("int", "float", "str", "bytes", "datetime", "timedelta", "date", "time", "decimal", "fraction")

# ---- the catalogue -------------------------------------------------------------------------------------------------
# "eq": False marks a group the quantifier names although its members are NOT == (equal text as str / bytes): they
# must be *different* keys, which the same histories check.
FAMILIES = [
    # the same UTC time of day at different offsets (aware times 24 h apart are never ==); one fold twin
    {"name": "time-aware", "members": [tm("12:00:00", 0), tm("13:00:00", 60), tm("17:30:00", 330), tm("11:00:00", -60),
                                       tm("12:00:00", 0, 1), ["sub", "MyTime", tm("14:00:00", 120)]],
     "types": TEMPORAL_T + TEXT_T + NUM_T[:2] + OPEN_T},
    {"name": "time-aware-micro", "members": [tm("22:59:59.000001", 0), tm("23:59:59.000001", 60), tm("17:59:59.000001", -300)],
     "types": [S("time"), S("str"), S("bytes"), ["ANY"]]},
    # one instant, offsets on the same calendar day
    {"name": "instant-same-day", "members": [dt("2020-01-01T12:00:00", 0), dt("2020-01-01T17:00:00", 300),
                                             dt("2020-01-01T07:00:00", -300), dt("2020-01-01T12:00:00", 0, 1),
                                             ["sub", "MyDT", dt("2020-01-01T14:00:00", 120)],
                                             ["pend", dt("2020-01-01T13:00:00", 60)]],
     "types": TEMPORAL_T + TEXT_T + NUM_T[:2] + OPEN_T},
    # one instant on two calendar days (what a declared `date` reads differs); -01:00 and +23:00 are 24 h apart
    {"name": "instant-two-days", "members": [dt("2020-01-01T23:00:00", 0), dt("2020-01-02T00:00:00", 60),
                                             dt("2020-01-01T22:00:00", -60), dt("2020-01-02T22:00:00", 1380),
                                             dt("2020-01-01T00:00:00", -1380)],
     "types": TEMPORAL_T + TEXT_T + NUM_T[:2] + OPEN_T},
    {"name": "instant-24h-apart-micro", "members": [dt("2021-06-30T23:30:00.250000", -30), dt("2021-07-01T23:30:00.250000", 1410),
                                                    dt("2021-07-01T00:00:00.250000", 0)],
     "types": [S("datetime"), S("date"), S("time"), S("str"), S("bytes"), ["ANY"]]},
    {"name": "date", "members": [["date", "2020-01-01"], ["sub", "MyDate", ["date", "2020-01-01"]], ["pend", ["date", "2020-01-01"]]],
     "types": TEMPORAL_T + TEXT_T + NUM_T[:2] + OPEN_T},
    {"name": "timedelta", "members": [td(0, 3600), ["sub", "MyTD", td(0, 3600)], ["pend", td(0, 3600)]],
     "types": TEMPORAL_T[3:] + TEXT_T + NUM_T + OPEN_T},
    {"name": "timedelta-week", "members": [td(7, 0, 5), ["pend", td(7, 0, 5)], ["sub", "MyTD", td(7, 0, 5)]],
     "types": [S("timedelta"), S("str"), S("bytes"), S("float"), ["ANY"]]},
    # pendulum.Duration re-defines .seconds / .microseconds (sign-magnitude, float-derived) and still is == / hash-equal
    {"name": "timedelta-negative", "members": [td(-5, 0, 7), ["pend", td(-5, 0, 7)], ["sub", "MyTD", td(-5, 0, 7)]],
     "types": [S("timedelta"), S("str"), S("bytes"), S("float"), ["ANY"]]},
    {"name": "timedelta-huge-micro", "members": [td(99999999, 0, 1), ["pend", td(99999999, 0, 1)]],
     "types": [S("timedelta"), S("str"), S("bytes"), ["ANY"]]},
    # the numeric tower: equal numbers of different classes / exponents
    {"name": "one", "members": [["i", 1], fl(1.0), ["b", True], ["dec", "1"], ["dec", "1.0"], ["dec", "1.00"], ["frac", 1, 1],
                                cx(1, 0), ["enum", "IE", "ONE"], ["enum", "IF", "A"]],
     "types": NUM_T + TEXT_T + TEMPORAL_T + OPEN_T + [C("IE"), C("IF")] + LIT_T},
    {"name": "one-and-a-half", "members": [fl(1.5), ["dec", "1.5"], ["dec", "1.50"], ["dec", "1.500"], ["frac", 3, 2], cx(1.5, 0)],
     "types": NUM_T + TEXT_T + [S("timedelta"), S("datetime")] + OPEN_T},
    {"name": "zero", "members": [["i", 0], fl(0.0), fl(-0.0), ["b", False], ["dec", "0"], ["dec", "-0"], ["dec", "0.00"],
                                 ["dec", "0E+2"], ["frac", 0, 1], cx(0, 0), ["enum", "IE", "ZERO"]],
     "types": NUM_T + TEXT_T + [S("timedelta"), S("datetime")] + OPEN_T + [C("IE")]},
    {"name": "thousand", "members": [["i", 1000], fl(1000.0), ["dec", "1E+3"], ["dec", "1000"], ["dec", "1000.0"],
                                     ["frac", 1000, 1], ["enum", "IE", "K"]],
     "types": NUM_T + TEXT_T + [S("timedelta"), S("datetime"), S("date")] + OPEN_T},
    {"name": "minus-one", "members": [["i", -1], fl(-1.0), ["dec", "-1"], ["dec", "-1.0"], ["frac", -1, 1]],
     "types": NUM_T + TEXT_T + OPEN_T},
    {"name": "two-to-53", "members": [["i", 2 ** 53], fl(2.0 ** 53), ["dec", str(2 ** 53)], ["dec", str(2 ** 53) + ".0"]],
     "types": NUM_T + TEXT_T + OPEN_T},
    # equal text: a str and an ==-equal instance of a str subclass; the same characters as bytes (a different key)
    {"name": "text-1", "eq": False, "members": [["s", "1"], ["enum", "SE", "ONE"], ["y", "1"]],
     "types": TEXT_T + NUM_T + TEMPORAL_T + OPEN_T + [C("SE"), C("IE")] + LIT_T},
    {"name": "text-abc", "eq": False, "members": [["s", "abc"], ["enum", "SE", "A"], ["y", "abc"]],
     "types": TEXT_T + NUM_T[:1] + OPEN_T + [C("SE")] + LIT_T + PATH_T[:2]},
    {"name": "text-1.5", "eq": False, "members": [["s", "1.5"], ["enum", "SE", "NUM"], ["y", "1.5"], ["s", "1.50"], ["y", "1.50"]],
     "types": TEXT_T + NUM_T + [S("timedelta")] + OPEN_T},
    {"name": "text-instant", "eq": False, "members": [["s", "2020-01-01T12:00:00+00:00"], ["enum", "SE", "DT"],
                                                        ["y", "2020-01-01T12:00:00+00:00"], ["s", "2020-01-01T17:00:00+05:00"],
                                                        ["y", "2020-01-01T17:00:00+05:00"], ["s", "2020-01-01T12:00:00Z"]],
     "types": TEXT_T + TEMPORAL_T[:3] + NUM_T[:2] + OPEN_T},
    {"name": "text-time", "eq": False, "members": [["s", "12:00:00+00:00"], ["y", "12:00:00+00:00"], ["s", "13:00:00+01:00"],
                                                     ["y", "13:00:00+01:00"]],
     "types": TEXT_T + [S("time")] + OPEN_T},
    {"name": "text-duration", "eq": False, "members": [["s", "PT1H"], ["y", "PT1H"], ["s", "PT60M"], ["s", "PT3600S"]],
     "types": TEXT_T + [S("timedelta")] + OPEN_T},
    # near neighbours: NOT equal, but equal under a lossy key (float seconds, float(x), casefold, strip): the other
    # side of the same coin -- a memo must not identify them
    {"name": "near-timedelta", "eq": False, "members": [td(99999999, 0, 0), td(99999999, 0, 1), td(99999999, 0, 2)],
     "types": [S("timedelta"), S("str"), S("bytes"), S("float"), ["ANY"]]},
    {"name": "near-datetime", "eq": False, "members": [dt("9999-12-31T23:59:59.999998", 0), dt("9999-12-31T23:59:59.999999", 0),
                                                         dt("9999-12-31T23:59:59.999998", None)],
     "types": [S("datetime"), S("date"), S("time"), S("str"), S("bytes"), S("float"), ["ANY"]]},
    {"name": "near-time", "eq": False, "members": [tm("12:00:00.000001", 0), tm("12:00:00.000002", 0), tm("12:00:00.000001", None)],
     "types": [S("time"), S("str"), S("bytes"), ["ANY"]]},
    {"name": "near-int", "eq": False, "members": [["i", 2 ** 53], ["i", 2 ** 53 + 1], ["dec", str(2 ** 53 + 1)],
                                                    ["frac", 2 ** 53 + 1, 1]],
     "types": NUM_T + TEXT_T + [S("timedelta")] + OPEN_T[:1]},
    {"name": "near-float", "eq": False, "members": [fl(0.3), fl(0.1 + 0.2), ["dec", "0.3"], ["frac", 3, 10],
                                                      ["dec", "0.299999999999999988897769753748434595763683319091796875"]],
     "types": NUM_T + TEXT_T + [S("timedelta")] + OPEN_T[:1]},
    {"name": "near-text", "eq": False, "members": [["s", "abc"], ["s", "ABC"], ["s", " abc"], ["s", "abc "], ["y", "ABC"]],
     "types": TEXT_T + OPEN_T[:1] + [C("SE")] + LIT_T + PATH_T[:1]},
    # paths: equal under the flavour's case folding / after normalisation, another class of the same flavour
    {"name": "path-windows", "members": [["path", "PureWindowsPath", "Ab\\c"], ["path", "PureWindowsPath", "ab\\C"],
                                         ["path", "PureWindowsPath", "AB\\C"]],
     "types": PATH_T + TEXT_T + OPEN_T},
    {"name": "path-posix", "members": [["path", "PurePosixPath", "a/b"], ["path", "PosixPath", "a/b"]],
     "types": PATH_T + TEXT_T + OPEN_T},
]

TIME_ONLY = re.compile(r"^\d\d:\d\d")


def is_time_value(v):
    """a time of day (object or time-only text): what unixtime / DateUnmarshaller / DateTimeUnmarshaller complete with
    the CURRENT date -- the cold run may fall on the other side of midnight, so these calls are not generated"""
    if v[0] == "tm":
        return True
    if v[0] == "sub":
        return v[1] == "MyTime"
    if v[0] == "pend":
        return is_time_value(v[1])
    if v[0] in ("s", "y"):
        return bool(TIME_ONLY.match(v[1]))
    if v[0] == "enum":
        return False
    return False


WALLCLOCK_T = ("int", "float", "bool", "decimal", "fraction", "date", "datetime", "timedelta")


def wallclock(direction, t, v):
    return direction == "u" and is_time_value(v) and t[0] == "S" and t[1] in WALLCLOCK_T


# ---- one level down ------------------------------------------------------------------------------------------------
def wrap_type(w, t, model=False):
    if w == "root":
        return t
    if w == "L":
        return ["L", t]
    if w == "D":
        return ["D", t]
    if w == "OPT":
        return ["U", "optional", [t, NON]]
    if w == "TV":
        return ["TV", t]
    if w == "DK":
        return ["DK", t]
    if w == "FS":
        return ["FS", t]
    if w == "F":
        return ["F", t]
    raise ValueError(w)


def wrap_val(w, t, v, direction):
    """the input object that carries member v in position w (m: an instance of the declared type; u: its wire form)"""
    if w in ("root", "OPT"):
        return v
    if w == "L":
        return ["l", [v]]
    if w == "D":
        return ["d", [[["s", "k"], v]]]
    if w == "TV":
        return ["t", [v]]
    if w == "DK":                       # the KEY position of a mapping
        return ["d", [[v, ["i", 0]]]]
    if w == "FS":
        return ["fset", ["l", [v]]] if direction == "m" else ["l", [v]]
    if w == "F":
        return ["fobj", t, v] if direction == "m" else ["d", [[["s", "v"], v]]]
    raise ValueError(w)


def jsonable(v):
    return v[0] in ("i", "f", "b", "s", "n")


def plain(v):
    return {"i": lambda: v[1], "s": lambda: v[1], "n": lambda: None, "f": lambda: float.fromhex(v[1]),
            "b": lambda: bool(v[1])}[v[0]]()


def wrap_json(w, v):
    p = plain(v)
    if w in ("L", "TV", "FS"):
        p = [p]
    elif w == "DK":
        p = {str(p) if not isinstance(p, str) else p: 0}
    elif w == "D":
        p = {"k": p}
    elif w == "F":
        p = {"v": p}
    return json.dumps(p, separators=(",", ":"))


WRAPS = ["root", "L", "D", "OPT", "TV", "FS", "F", "DK"]
MODEL_WRAPS = ["root", "L", "D", "OPT"]


def chains(members, pairs):
    """orders in which the members follow each other: forwards and backwards round trips (every member is preceded
    by an equal one at least once, whichever is first); pairs: every ordered pair as well"""
    k = len(members)
    if k < 2:
        return []
    out = [list(range(k)) + [0], list(range(k - 1, -1, -1)) + [k - 1]]
    if pairs:
        out += [[i, j] for i in range(k) for j in range(k) if i != j]
    return out


def in_model(t):
    return t[0] == "S" and t[1] in MODEL_SCALARS


def model_value(v):
    """the model's values are atoms the worker can rebuild AND snapshot by content (no constructed instances)"""
    return v[0] in ("i", "f", "b", "s", "y", "n", "dt", "tm", "date", "td", "dec", "frac", "cx", "enum", "path")


def positions(fam, thorough, model):
    """(declared type, position) pairs.  thorough: the full product.  quick: every declared type at the root and in
    ONE nested position (rotating, so that every position meets many types), the family's own first two types in
    every position -- a memo sits in a scalar routine (reached from any position) or in a container routine (reached
    with any member type)"""
    wraps = MODEL_WRAPS if model else WRAPS
    types = [t for t in fam["types"] if not model or in_model(t)]
    out = []
    for ti, t in enumerate(types):
        for wi, w in enumerate(wraps):
            if thorough or w == "root" or ti < 2 or wi == 1 + ti % (len(wraps) - 1):
                out.append((t, w))
    return types, out


def family_histories(thorough, model=False):
    """-> list of (label, ops).  model=True: only what Model/Cache.v can express (scalar declared types of the model,
    list / dict / Optional one level down, values that are atoms)"""
    out = []
    wraps = MODEL_WRAPS if model else WRAPS
    for fam in FAMILIES:
        members = [m for m in fam["members"] if not model or model_value(m)]
        types, pos = positions(fam, thorough, model)
        for t, w in pos:
            T = wrap_type(w, t, model)
            for opk in ("marshal", "unmarshal", "encode", "cencode", "decode", "cdecode"):
                direction = "m" if opk in ("marshal", "encode", "cencode") else "u"
                if opk != "marshal" and opk != "unmarshal":
                    if T == S("bytes"):
                        continue                      # root bytes: identity coder, not JSON (not generated by C12)
                    if not thorough:                  # quick: the JSON layer at the root and at one nested position
                        nested = {"encode": "F", "cencode": "OPT", "decode": "L", "cdecode": "D"}[opk]
                        if model and nested == "F":
                            nested = "L"
                        if w not in ("root", nested):
                            continue
                if opk in ("decode", "cdecode"):
                    vals, seen = [], set()
                    for m in members:
                        if jsonable(m) and not wallclock("u", t, m):
                            txt = wrap_json(w, m)
                            for c in (["y", txt], ["s", txt]):
                                if json.dumps(c) not in seen:
                                    seen.add(json.dumps(c))
                                    vals.append(c)
                else:
                    vals = [wrap_val(w, t, m, direction) for m in members if not wallclock(direction, t, m)]
                # thorough: every ordered pair on its own, at the root (and in a list / a dataclass field)
                orders = chains(vals, thorough and opk in ("marshal", "unmarshal")
                                and w in (("root",) if model else ("root", "L", "F")))
                if not thorough and (opk not in ("marshal", "unmarshal") or w != "root"):
                    orders = orders[:1]               # quick: the backwards round trip only at the root
                for ci, order in enumerate(orders):
                    ops = [{"op": opk, "t": T, "x": {"new": vals[i]}} for i in order]
                    out.append(("%s/%s/%s/%s/%d" % (fam["name"], json.dumps(t), w, opk, ci), ops))
        # the members under *different* declared types in turn (a memo shared by several routines)
        for w in wraps:
            if not thorough and w not in ("root", "L", "F"):
                continue
            for opk in ("marshal", "unmarshal"):
                direction = "m" if opk == "marshal" else "u"
                seq = []
                n = max(len(members), len(types)) + 1
                for i in range(n):
                    m, t = members[i % len(members)], types[i % len(types)]
                    if not wallclock(direction, t, m):
                        seq.append({"op": opk, "t": wrap_type(w, t, model), "x": {"new": wrap_val(w, t, m, direction)}})
                seq = seq[:10]
                if len(seq) >= 2:
                    out.append(("%s/cross-type/%s/%s" % (fam["name"], w, opk), seq))
                    out.append(("%s/cross-type-rev/%s/%s" % (fam["name"], w, opk), seq[::-1]))
    return out


def all_members():
    return [(fam["name"], fam.get("eq", True), fam["members"]) for fam in FAMILIES]


def all_types():
    seen, out = set(), []
    for fam in FAMILIES:
        for t in fam["types"]:
            if json.dumps(t) not in seen:
                seen.add(json.dumps(t))
                out.append(t)
    return out
