"""Structured / cyclic types for the C12 oracle (outside the Coq model's universe: exercised cold-vs-warm only)."""
import dataclasses
import enum
import typing


@dataclasses.dataclass
class P:
    a: int
    b: typing.Union[int, str] = 0


@dataclasses.dataclass
class Q:
    a: int
    b: typing.Union[str, int] = 0


@dataclasses.dataclass
class Node:
    v: int
    nxt: "typing.Optional[Node]" = None
    kids: "typing.List[Node]" = dataclasses.field(default_factory=list)


@dataclasses.dataclass
class Tree:
    name: str
    sub: "typing.Dict[str, Tree]" = dataclasses.field(default_factory=dict)


@dataclasses.dataclass
class Box:
    items: list
    meta: dict
    any_: typing.Any = None


class TD(typing.TypedDict):
    x: int
    y: typing.List[str]


class Color(enum.Enum):
    RED = 1
    BLUE = "blue"


NT = typing.NamedTuple("NT", [("k", str), ("n", int)])
CLASSES = {c.__name__: c for c in (P, Q, Node, Tree, Box, TD, Color, NT)}
