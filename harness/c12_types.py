"""Structured / cyclic types for the C12 oracle (outside the Coq model's universe: exercised cold-vs-warm only)."""
import dataclasses
import enum
import typing


@dataclasses.dataclass
class P:
    a: int
    b: typing.Union[int, str] = 0


@dataclasses.dataclass
class Q:
    a: int
    b: typing.Union[str, int] = 0


@dataclasses.dataclass
class Node:
    v: int
    nxt: "typing.Optional[Node]" = None
    kids: "typing.List[Node]" = dataclasses.field(default_factory=list)


@dataclasses.dataclass
class Tree:
    name: str
    sub: "typing.Dict[str, Tree]" = dataclasses.field(default_factory=dict)


@dataclasses.dataclass
class Box:
    items: list
    meta: dict
    any_: typing.Any = None


class TD(typing.TypedDict):
    x: int
    y: typing.List[str]


class Color(enum.Enum):
    RED = 1
    BLUE = "blue"


NT = typing.NamedTuple("NT", [("k", str), ("n", int)])
CLASSES = {c.__name__: c for c in (P, Q, Node, Tree, Box, TD, Color, NT)}


# ---- source objects: one class per field-discovery route of serdes.get_items_iter / _make_fields_iterator ----------
@dataclasses.dataclass
class XY:                       # the target the sources are unmarshalled into
    x: int
    y: int = 0


@dataclasses.dataclass
class SrcDC:                    # dataclass fields (a private one is skipped)
    x: int
    y: int
    _h: int = 9


class SrcAnn:                   # class-level annotations, plain __init__
    x: int
    y: int

    def __init__(self, x, y):
        self.x, self.y = x, y


class SrcSlots:                 # __slots__ only; types only in the __init__ signature
    __slots__ = ("x", "y")

    def __init__(self, x: int, y: int):
        self.x, self.y = x, y


class SrcSlotsPriv:             # __slots__ with a private slot, untyped
    __slots__ = ("x", "y", "_z")

    def __init__(self, x, y):
        self.x, self.y, self._z = x, y, 7


class SrcVars:                  # nothing declared: vars() route
    def __init__(self, x, y):
        self.x, self.y, self._p = x, y, 5


class SrcSig:                   # no class-level hints, typed __init__ signature, instance __dict__
    def __init__(self, x: int, y: int = 0):
        self.x, self.y = x, y


class SrcSlotsDict:             # __slots__ incl. __dict__: declared slot + vars
    __slots__ = ("x", "__dict__")

    def __init__(self, x, y):
        self.x = x
        self.y = y


SrcNT = typing.NamedTuple("SrcNT", [("x", int), ("y", int)])


class SrcMap(dict):             # a Mapping subclass
    def __init__(self, x, y):
        super().__init__(x=x, y=y)


for _c in (XY, SrcDC, SrcAnn, SrcSlots, SrcSlotsPriv, SrcVars, SrcSig, SrcSlotsDict, SrcNT, SrcMap):
    for _m in ("__repr__",):
        pass
    CLASSES[_c.__name__] = _c


def _repr(self):
    d = {}
    for k in ("x", "y"):
        try:
            d[k] = getattr(self, k)
        except AttributeError:
            pass
    return f"{type(self).__name__}({d})"


for _c in (SrcAnn, SrcSlots, SrcSlotsPriv, SrcVars, SrcSig, SrcSlotsDict):
    _c.__repr__ = _repr


# ---- round 3: scalar kinds for the equal-value families (distinct objects that compare and hash equal) ------------
import datetime as _dt  # noqa: E402


class IE(enum.IntEnum):         # IE.ONE == 1 == 1.0 == True, same hash
    ZERO = 0
    ONE = 1
    K = 1000


class IF(enum.IntFlag):
    A = 1
    B = 2


class SE(str, enum.Enum):       # SE.ONE == "1", same hash (a str subclass instance under str)
    ONE = "1"
    A = "abc"
    NUM = "1.5"
    DT = "2020-01-01T12:00:00+00:00"

    def __str__(self):          # what enum.StrEnum does
        return str.__str__(self)


class MyDT(_dt.datetime):       # subclass instances under the base type
    pass


class MyDate(_dt.date):
    pass


class MyTime(_dt.time):
    pass


class MyTD(_dt.timedelta):
    pass


for _c in (IE, IF, SE, MyDT, MyDate, MyTime, MyTD):
    CLASSES[_c.__name__] = _c

_FIELD_CLASSES: dict = {}


def field_class(key: str, T):
    """a frozen dataclass `F(v: T)` (instances with ==-equal fields are == and hash equal), one per declared type"""
    if key not in _FIELD_CLASSES:
        import hashlib
        name = "F_" + hashlib.md5(key.encode()).hexdigest()[:8]      # the same name in every process
        cls = dataclasses.make_dataclass(name, [("v", T)], frozen=True)
        cls.__module__ = __name__
        cls.__qualname__ = cls.__name__
        globals()[cls.__name__] = cls
        _FIELD_CLASSES[key] = cls
    return _FIELD_CLASSES[key]


# ---- round 4: two structured classes with overlapping fields (which member of Union[Cat, Dog] takes a dict depends on
# the dict's keys, not on its class)
@dataclasses.dataclass
class Cat:
    name: str
    lives: int


@dataclasses.dataclass
class Dog:
    name: str


CLASSES["Cat"] = Cat
CLASSES["Dog"] = Dog
