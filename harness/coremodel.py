"""Correspondence driver for Model/Core.v: a Python mirror of `unm` / `mar` that collects the runtime
tables (leaf routines, load/iteration of scalars) by asking the implementation's *leaf* routines, and the
emission of cases_*.v files in which Coq evaluates the model on those tables and compares with the
observed end-to-end results of typelib."""
from __future__ import annotations

import collections
import collections.abc
import copy
import warnings

import impl
from lib import coq_list, coq_nat, coq_pair, coq_bool
from universe import MAP_PY, SEQ_PY, Registry, cname, materialise

FUEL = 60


class ModelRaise(Exception):
    def __init__(self, kind):
        super().__init__(kind)
        self.kind = kind


def measure_suppressed():
    """Which exception kinds do the two Union routines swallow?  Measured on the live classes."""
    import decimal
    from typelib import ctx
    from typelib.marshals import routines as mr
    from typelib.unmarshals import routines as ur
    samples = {
        "EValue": ValueError("x"), "EType": TypeError("x"), "ESyntax": SyntaxError("x"),
        "EAttribute": AttributeError("x"), "EKey": KeyError("x"), "EArith": decimal.InvalidOperation("x"),
        "EStopIter": StopIteration(), "EUnicode": UnicodeDecodeError("utf-8", b"\xff", 0, 1, "x"),
        "ERecursion": RecursionError("x"), "EOther": OSError("x"),
    }
    out = {}
    for side, cls in (("u", ur.UnionUnmarshaller), ("m", mr.UnionMarshaller)):
        sup = []
        for kind, exc in samples.items():
            class A: pass
            class B: pass

            def bad(v, exc=exc):
                raise exc

            c = ctx.TypeContext()
            c[A] = bad
            c[B] = lambda v: "second"
            import typing
            r = cls(typing.Union[A, B], c)
            try:
                if r(object()) == "second":
                    sup.append(kind)
            except BaseException:
                pass
        out[side] = sup
    return out


class Tables:
    def __init__(self):
        self.lu, self.lm, self.nu, self.ld, self.vs, self.its, self.pl = {}, {}, {}, {}, {}, {}, {}
        self.ups = {}      # `k, v = x` on a scalar: the interpreter's own unpacking
        self.ix = {}


class Mirror:
    """mirrors Core.unm / Core.mar on real Python objects; leaf calls go to the implementation"""

    def __init__(self, reg: Registry, suppressed):
        self.reg = reg
        self.t = Tables()
        self.sup = suppressed
        self.depth = 0
        self.max_depth = FUEL

    # -- encoding of results for tables
    def _res(self, f):
        try:
            with warnings.catch_warnings():
                warnings.simplefilter("ignore")
                v = f()
            return ("ok", v)
        except ModelRaise:
            raise
        except RecursionError:
            return ("raise", "ERecursion")
        except BaseException as e:
            return ("raise", impl.exc_kind(e))

    def enc_res(self, r, enc=None):
        enc = enc or self.reg.enc
        return f"(Ok {enc(r[1])})" if r[0] == "ok" else f"(Raise {r[1]})"

    def is_scalar(self, x):
        return self.reg.kind_of(x)[0] in ("atom", "key")

    def leaf(self, table, s, x, fn):
        key = (s, self.reg.enc(x))
        r = self._res(lambda: fn(x))
        table[key] = self.enc_res(r)
        if r[0] == "raise":
            raise ModelRaise(r[1])
        return r[1]

    def leaf_u(self, name, x):
        from typelib import unmarshals
        s = self.reg.leaves[name]
        t = self.reg.leaf_py[s]
        return self.leaf(self.t.lu, s, x, lambda v: unmarshals.unmarshal(t, v))

    def leaf_m(self, name, x):
        from typelib import marshals
        s = self.reg.leaves[name]
        t = self.reg.leaf_py[s]
        return self.leaf(self.t.lm, s, x, lambda v: marshals.marshal(v, t=t))

    def none_u(self, x):
        from typelib import unmarshals
        r = self._res(lambda: unmarshals.unmarshal(type(None), x))
        self.t.nu[self.reg.enc(x)] = self.enc_res(r)
        if r[0] == "raise":
            raise ModelRaise(r[1])
        return r[1]

    def load(self, x):
        from typelib import serdes
        if not self.is_scalar(x):
            return x
        r = self._res(lambda: copy.deepcopy(serdes.load(x)))
        self.t.ld[self.reg.enc(x)] = self.enc_res(r)
        if r[0] == "raise":
            raise ModelRaise(r[1])
        return r[1]

    def values_scalar(self, x):
        from typelib import serdes
        r = self._res(lambda: list(serdes.itervalues(x)))
        self.t.vs[self.reg.enc(x)] = (f"(Ok {coq_list([self.reg.enc(v) for v in r[1]], 'pv')})"
                                       if r[0] == "ok" else f"(Raise {r[1]})")
        if r[0] == "raise":
            raise ModelRaise(r[1])
        return r[1]

    def items_scalar(self, x):
        from typelib import serdes

        def go():
            out = []
            for item in serdes.iteritems(x):
                k, v = item
                out.append((k, v))
            return out
        r = self._res(go)
        self.t.its[self.reg.enc(x)] = (
            f"(Ok {coq_list([coq_pair(self.reg.enc(k), self.reg.enc(v)) for k, v in r[1]], '(pv * pv)')})"
            if r[0] == "ok" else f"(Raise {r[1]})")
        if r[0] == "raise":
            raise ModelRaise(r[1])
        return r[1]

    def itervalues(self, v):
        k = self.reg.kind_of(v)
        if k[0] == "seq" or k[0] == "named":
            return list(v)
        if k[0] == "dict":
            return list(v.values())
        if k[0] == "obj":
            return [getattr(v, f) for f, _, _ in self.reg.env["defs"][k[1]][3] if hasattr(v, f)]
        return self.values_scalar(v)

    def index(self, i):
        self.t.ix[i] = self.reg.enc(i)
        return i

    def pairlike(self, x):
        k = self.reg.kind_of(x)
        if k[0] in ("seq", "dict", "named"):
            return len(x) == 2
        if k[0] == "obj":
            return False
        b = isinstance(x, collections.abc.Collection) and len(x) == 2
        self.t.pl[self.reg.enc(x)] = coq_bool(b)
        return b

    def unpack2(self, x):
        k = self.reg.kind_of(x)
        if k[0] in ("seq", "named"):
            l = list(x)
            if len(l) != 2:
                raise ModelRaise("EValue")
            return l[0], l[1]
        if k[0] == "dict":
            l = list(x)
            if len(l) != 2:
                raise ModelRaise("EValue")
            return l[0], l[1]
        if k[0] == "obj":
            raise ModelRaise("EType")
        # a scalar element of an iterable of pairs is unpacked by the consumer's `for k, v in ...`: the interpreter's
        # iteration protocol, NOT serdes.itervalues (a mapping unpacks to its keys, a UUID is not iterable)
        def go():
            a, b = x
            return a, b
        r = self._res(go)
        self.t.ups[self.reg.enc(x)] = (f"(Ok {coq_pair(self.reg.enc(r[1][0]), self.reg.enc(r[1][1]))})"
                                       if r[0] == "ok" else f"(Raise {r[1]})")
        if r[0] == "raise":
            raise ModelRaise(r[1])
        return r[1]

    def iteritems(self, v):
        k = self.reg.kind_of(v)
        if k[0] == "dict":
            return list(v.items())
        if k[0] == "obj":
            return [(f, getattr(v, f)) for f, _, _ in self.reg.env["defs"][k[1]][3] if hasattr(v, f)]
        if k[0] == "named":
            return list(zip([f for f, _, _ in self.reg.env["defs"][k[1]][3]], list(v)))
        if k[0] == "seq":
            l = list(v)
            if not l:
                return []
            if self.pairlike(l[0]):
                return [self.unpack2(x) for x in l]
            return [(self.index(i), x) for i, x in enumerate(l)]
        return self.items_scalar(v)

    def _construct(self, f):
        try:
            return f()
        except ModelRaise:
            raise
        except TypeError:
            raise ModelRaise("EType")
        except BaseException as e:
            raise ModelRaise(impl.exc_kind(e))

    def _hash(self, a):
        try:
            hash(a)
        except TypeError:
            raise ModelRaise("EType")

    def first_ok(self, fns, x):
        for f in fns:
            try:
                return f(x)
            except ModelRaise as e:
                if e.kind in self.sup:
                    continue
                raise
        raise ModelRaise("EValue")

    def resolve(self, n):
        d = self.reg.env["defs"][n]
        return d

    def struct_fields(self, n):
        return {f: t for f, t, _ in self.reg.env["defs"][n][3]}

    def unm(self, d, x):
        self.depth += 1
        try:
            if self.depth > self.max_depth:
                raise ModelRaise("ERecursion")
            return self._unm(d, x)
        finally:
            self.depth -= 1

    def _unm(self, d, x):
        k = d[0]
        if k == "tvar":
            from universe import TVARS
            return self._unm(TVARS[d[1]], x)
        if k == "leaf":
            return self.leaf_u(d[1], x)
        if k == "none":
            return self.none_u(x)
        if k == "seq":
            dd = self.load(x)
            vs = self.itervalues(dd)
            # a GENERATOR is handed to the origin (Core.elem_conv): set / frozenset hash each member as it is produced
            return self._construct(lambda: SEQ_PY[d[1]](self.unm(d[3], v) for v in vs))
        if k == "map":
            dd = self.load(x)
            kvs = self.iteritems(dd)
            # Core.hashing fst: key, value, then the key is hashed, pair by pair
            return self._construct(lambda: MAP_PY[d[1]]((self.unm(d[3], a), self.unm(d[4], b)) for a, b in kvs))
        if k == "tuple":
            dd = self.load(x)
            vs = self.itervalues(dd)
            if len(vs) < len(d[2]):
                raise ModelRaise("EValue")
            return tuple(self.unm(t, v) for t, v in zip(d[2], vs))
        if k == "union":
            ts = list(d[2])
            if any(t == ("none",) for t in ts):
                ts = [t for t in ts if t == ("none",)] + [t for t in ts if t != ("none",)]
            return self.first_ok([lambda v, t=t: self.unm(t, v) for t in ts], x)
        if k in ("name", "ref", "aliasstr"):
            n = d[1] if k != "aliasstr" else d[2]
            df = self.reg.env["defs"][n]
            if df[0] == "alias":
                return self.unm(df[2] if isinstance(df[1], str) else df[1], x)
            fields = self.struct_fields(n)
            dd = self.load(x)
            kw = {}
            for a, b in self.iteritems(dd):
                self._hash(a)
                if type(a) is str and a in fields:
                    kw[a] = self.unm(fields[a], b)
            cls = getattr(self.reg.mod, cname(n))
            if df[1] == "typeddict" and df[2] != "total=False" and any(f not in kw for f in fields):
                raise ModelRaise("EType")
            return self._construct(lambda: cls(**kw))
        if k == "wrapref":
            return self.unm(d[1], x)
        if k in ("newtype", "alias"):
            return self.unm(d[2], x)
        if k in ("final", "classvar"):
            return self.unm(d[1], x)
        raise ValueError(d)

    def mar(self, d, x):
        self.depth += 1
        try:
            if self.depth > self.max_depth:
                raise ModelRaise("ERecursion")
            return self._mar(d, x)
        finally:
            self.depth -= 1

    def _mar(self, d, x):
        k = d[0]
        if k == "tvar":
            from universe import TVARS
            return self._mar(TVARS[d[1]], x)
        if k == "leaf":
            return self.leaf_m(d[1], x)
        if k == "none":
            if x is None:
                return x
            raise ModelRaise("EValue")
        if k == "seq":
            return [self.mar(d[3], v) for v in self.itervalues(x)]
        if k == "map":
            kvs = self.iteritems(x)
            return self._construct(lambda: dict((self.mar(d[3], a), self.mar(d[4], b)) for a, b in kvs))
        if k == "tuple":
            return [self.mar(t, v) for t, v in zip(d[2], self.itervalues(x))]
        if k == "union":
            ts = list(d[2])
            if any(t == ("none",) for t in ts) and x is None:
                return x
            return self.first_ok([lambda v, t=t: self.mar(t, v) for t in ts], x)
        if k in ("name", "ref", "aliasstr"):
            n = d[1] if k != "aliasstr" else d[2]
            df = self.reg.env["defs"][n]
            if df[0] == "alias":
                return self.mar(df[2] if isinstance(df[1], str) else df[1], x)
            fields = self.struct_fields(n)
            kw = {}
            for a, b in self.iteritems(x):
                self._hash(a)
                if type(a) is str and a in fields:
                    kw[a] = self.mar(fields[a], b)
            return kw
        if k == "wrapref":
            return self.mar(d[1], x)
        if k in ("newtype", "alias"):
            return self.mar(d[2], x)
        if k in ("final", "classvar"):
            return self.mar(d[1], x)
        raise ValueError(d)


def emit_tbl(d, ty):
    return coq_list([f"({k}, {v})" for k, v in d.items()], ty)


def emit_leaf_tbl(d):
    return coq_list([f"({coq_nat(s)}, {k}, {v})" for (s, k), v in d.items()], "(nat * pv * res pv)")


class Group:
    """one environment, several root annotations, many cases"""

    def __init__(self, env, roots, suppressed):
        # private copies: materialise() puts equal unions of this module into one member order IN PLACE, and
        # generators share sub-descriptions between roots and between groups
        import copy
        env, roots = copy.deepcopy((env, roots))
        self.env = env
        self.roots = roots
        self.mod, self.pytys, self.src = materialise(env, roots)
        self.reg = Registry(env, self.mod)
        self.mirror = Mirror(self.reg, suppressed["u"])
        self.sup = suppressed
        self.cases = []       # (dir, root index, enc input, enc observed, description)
        self.fuel = FUEL
        self.orders = {"u": {}, "m": {}}     # emitted ty -> emitted node list (graph.static_order as observed)
        self.order_problems = []
        self.reg.build_reverse(roots)

    def close(self):
        impl.drop_module(self.env["module"])

    def observe(self, direction, ri, x, clear=True):
        """run the implementation end to end; returns ('ok', obj) | ('raise', kind).  clear=False: keep every cache
        warm (the warm-replay pass: one call of a history)"""
        from typelib import marshals, unmarshals
        if clear:
            impl.clear_caches()
        t = self.pytys[ri]
        try:
            with warnings.catch_warnings():
                warnings.simplefilter("ignore")
                if isinstance(t, str):
                    # a bare string reference is resolved from the caller's frames: call from inside the module
                    depth = getattr(self, "ref_depth", 0)
                    r = self.mod._verif_um(t, x, depth) if direction == "u" else self.mod._verif_m(t, x, depth)
                elif direction == "u":
                    r = unmarshals.unmarshal(t, x)
                else:
                    r = marshals.marshal(x, t=t)
            return ("ok", r)
        except RecursionError:
            return ("raise", "ERecursion")
        except BaseException as e:
            return ("raise", impl.exc_kind(e))

    def add(self, direction, ri, x):
        enc_in = self.reg.enc(x)
        obs = self.observe(direction, ri, x)
        if not hasattr(self, "raw"):
            self.raw = []
        self.raw.append((direction, ri, x, obs))
        impl.clear_caches()
        self.mirror.depth = 0
        self.mirror.max_depth = self.fuel
        import sys
        lim = sys.getrecursionlimit()
        sys.setrecursionlimit(max(lim, 40 * self.fuel + 2000))
        try:
            if direction == "u":
                self.mirror.unm(self.roots[ri], x)
            else:
                self.mirror.mar(self.roots[ri], x)
        except ModelRaise:
            pass
        except RecursionError:
            pass
        finally:
            sys.setrecursionlimit(lim)
        enc_obs = f"(Ok {self.reg.enc(obs[1])})" if obs[0] == "ok" else f"(@Raise pv {obs[1]})"
        desc = {"dir": direction, "type": repr(self.pytys[ri]), "input": repr(x)[:300],
                "observed": (repr(obs[1])[:300] if obs[0] == "ok" else obs[1])}
        self.cases.append((direction, ri, enc_in, enc_obs, desc))
        return obs

    def collect_orders(self, pytype, depth=0):
        """graph.static_order of pytype and, recursively, of everything a delayed proxy may resolve"""
        from typelib import graph
        from typelib.py import refs
        impl.clear_caches()
        if isinstance(pytype, str) and pytype.split(".")[-1].startswith("N") and pytype.split(".")[-1][1:].isdigit():
            pytype = getattr(self.mod, pytype.split(".")[-1])      # the model looks orders up by the evaluated type
        import typing as _t
        if isinstance(pytype, _t.ForwardRef):
            pytype = getattr(self.mod, pytype.__forward_arg__.split(".")[-1])
        d = self.reg.desc_of(pytype)
        if d is None:
            self.order_problems.append(f"no description for {pytype!r}")
            return
        key = self.reg.emit_ty(d if d[0] != "ref" else ("name", d[1]))
        if key in self.orders["u"] or depth > 12:
            return
        try:
            with warnings.catch_warnings():
                warnings.simplefilter("ignore")
                nodes = list(graph.static_order(pytype))
        except BaseException as e:
            self.order_problems.append(f"static_order({pytype!r}) raised {e!r}")
            return
        out, later = [], []
        for n in nodes:
            dt, du = self.reg.desc_of(n.type), self.reg.desc_of(n.unwrapped)
            if dt is None or du is None:
                self.order_problems.append(f"no description for node {n!r}")
                return
            out.append("{| ntype := %s; nunw := %s; ncyc := %s |}" % (
                self.reg.emit_ty(dt), self.reg.emit_ty(du), coq_bool(bool(n.cyclic))))
            if n.cyclic:
                later.append(refs.evaluate(n.type))
        self.orders["u"][key] = coq_list(out, "node")
        for tgt in later:
            self.collect_orders(tgt, depth + 1)

    def emit_mech(self, name: str, strict=False) -> str:
        """like emit, plus the observed node orders; bad = mechanism vs observation, bad2 = mechanism vs spec"""
        base = self.emit(name, strict)
        orders = coq_list([f"({k}, {v})" for k, v in self.orders["u"].items()], "(ty * list node)")
        extra = (f"Definition orders : list (ty * list node) :=\n  {orders}.\n"
                 f"Definition bad_mech := mismatches (mech_case_ok rt E orders {self.fuel} {coq_bool(strict or getattr(self, 'strict_kinds', False))}) cases.\n"
                 f"Definition bad_agree := mismatches (mech_spec_agree rt E orders {self.fuel}) cases.\n"
                 f"Definition hyps_ok := orders_hyps_ok E [{self.reg.leaves['Any']}%nat] orders.\n")
        return base.replace(f"End {name}.\n", extra + f"End {name}.\n")

    def atom_eq_pairs(self):
        """distinct atoms that are == with equal hash (set / dict collapse them)"""
        buckets = {}
        for i, o in enumerate(self.reg.atom_objs):
            try:
                h = hash(o)
            except Exception:
                continue
            buckets.setdefault(h, []).append(i)
        out = []
        for ids in buckets.values():
            for x in range(len(ids)):
                for y in range(x + 1, len(ids)):
                    try:
                        if self.reg.atom_objs[ids[x]] == self.reg.atom_objs[ids[y]]:
                            out.append((ids[x], ids[y]))
                    except Exception:
                        pass
        return out

    def unhashable_classes(self):
        out = []
        for cls, n in self.reg.classes.items():
            if getattr(cls, "__hash__", None) is None:
                out.append(n)
        return out

    def emit(self, name: str, strict=False) -> str:
        t = self.mirror.t
        reg = self.reg
        none_enc = reg.enc(None)
        sup = coq_list(self.sup["u"], "exn")
        cases = coq_list([
            f"({coq_bool(d == 'u')}, {reg.emit_ty(self.roots[ri])}, {ei}, {eo})" for d, ri, ei, eo, _ in self.cases
        ], "case").replace("; (", ";\n   (")
        return (
            f"Module {name}.\n"
            f"Definition E : env := {reg.emit_env()}.\n"
            f"Definition rt : runtime := mk_runtime\n  {emit_leaf_tbl(t.lu)}\n  {emit_leaf_tbl(t.lm)}\n"
            f"  {emit_tbl(t.nu, '(pv * res pv)')}\n  {emit_tbl(t.ld, '(pv * res pv)')}\n"
            f"  {emit_tbl(t.vs, '(pv * res (list pv))')}\n  {emit_tbl(t.its, '(pv * res (list (pv * pv)))')}\n"
            f"  {emit_tbl(t.ups, '(pv * res (pv * pv))')}\n"
            f"  {emit_tbl(t.pl, '(pv * bool)')}\n"
            f"  {coq_list([coq_pair(coq_nat(i), v) for i, v in t.ix.items()], '(nat * pv)')}\n"
            f"  {coq_list([coq_nat(n) for n in self.unhashable_classes()], 'nat')}\n"
            f"  {coq_list([coq_pair(coq_nat(a), coq_nat(b)) for a, b in self.atom_eq_pairs()], '(nat * nat)')}\n"
            f"  {none_enc}\n  {sup}.\n"
            f"Definition cases : list case :=\n  {cases}.\n"
            f"Definition bad := mismatches (case_ok rt E {self.fuel} {coq_bool(strict or getattr(self, 'strict_kinds', False))}) cases.\n"
            f"End {name}.\n"
        )


# ----------------------------------------------------------------------------------
# warm replay: every property quantifies over every CALL, whatever ran before it.  The model is stateless, so
# the cases of a group are run once more in one process WITHOUT clearing any cache (forwards, then backwards) and
# each outcome must be the outcome of the same call made cold.  Groups in which two distinct annotation objects
# are == but spelled with another member order are skipped: that is the listed finding KF-C12-union-order.
# ----------------------------------------------------------------------------------

def _annotations_of(t, seen, out, depth=0):
    import typing
    if depth > 12 or id(t) in seen:
        return
    seen.add(id(t))
    out.append(t)
    for a in typing.get_args(t):
        if not isinstance(a, (str, int, bytes, bool, type(None), type(Ellipsis))) or isinstance(a, type):
            _annotations_of(a, seen, out, depth + 1)
    for attr in ("__value__", "__supertype__"):
        v = getattr(t, attr, None)
        if v is not None and not isinstance(v, str):
            _annotations_of(v, seen, out, depth + 1)
    if isinstance(t, typing.TypeVar):
        # what inspection resolves a type variable to: its bound, or the Union of its constraints (an IMPLIED union
        # spelling: TypeVar("T", int, str) collides with Union[str, int] exactly as Union[int, str] does)
        if t.__bound__ is not None and not isinstance(t.__bound__, str):
            _annotations_of(t.__bound__, seen, out, depth + 1)
        elif t.__constraints__:
            try:
                _annotations_of(typing.Union[t.__constraints__], seen, out, depth + 1)
            except Exception:
                pass
    if isinstance(t, type) and getattr(t, "__module__", "").startswith("verif_"):
        try:
            hints = typing.get_type_hints(t)
        except Exception:
            hints = getattr(t, "__annotations__", {}) or {}
        for h in hints.values():
            if not isinstance(h, str):
                _annotations_of(h, seen, out, depth + 1)


def union_spelling_collision(pytys) -> bool:
    """two union annotations of the group compare == (typing ignores member order) but list their members in
    another order: caches keyed by == serve the first spelling's routine to the second (KF-C12-union-order)"""
    import typing
    import types as _types
    anns, seen = [], set()
    for t in pytys:
        if not isinstance(t, str):
            _annotations_of(t, seen, anns)
    unions = [a for a in anns if typing.get_origin(a) in (typing.Union, _types.UnionType)]
    for i, a in enumerate(unions):
        for b in unions[i + 1:]:
            try:
                if a == b and typing.get_args(a) != typing.get_args(b):
                    return True
            except Exception:
                pass
    return False


def union_collision_roots(pytys) -> set:
    """indexes of the roots from which a union annotation is reachable that compares == to a differently ordered union
    reachable from some root of the group (only those roots can be served another spelling's routine)"""
    import typing
    import types as _types
    per_root, orders = [], {}
    for t in pytys:
        anns = []
        if not isinstance(t, str):
            _annotations_of(t, set(), anns)
        us = [a for a in anns if typing.get_origin(a) in (typing.Union, _types.UnionType)]
        per_root.append(us)
        for a in us:
            try:
                orders.setdefault(a, set()).add(typing.get_args(a))
            except Exception:
                pass
    bad = set()
    for i, us in enumerate(per_root):
        for a in us:
            try:
                if len(orders.get(a, ())) > 1:
                    bad.add(i)
                    break
            except Exception:
                pass
    return bad


def _value_src(x) -> str:
    import re
    return re.sub(r"<(\w+)\.(\w+): [^>]*>", r"\1.\2", repr(x))


class _Unconvertible:
    """a leaf no routine accepts (except those that take anything: then the repair history is skipped)"""
    __slots__ = ()

    def __repr__(self):
        return "coremodel._Unconvertible()"


def _leaf_paths(x, path=(), depth=0):
    """paths to the leaves of a wire form through its MUTABLE containers (list items, dict values)"""
    if depth > 8:
        return
    if isinstance(x, list):
        for i, y in enumerate(x):
            yield from _leaf_paths(y, path + (i,), depth + 1)
    elif type(x) is dict:
        for k, y in x.items():
            yield from _leaf_paths(y, path + (k,), depth + 1)
    elif path:
        yield path


def _at(x, path):
    for k in path[:-1]:
        x = x[k]
    return x, path[-1]


def repair_histories(g, agree, rng, per_group=4):
    """a call that FAILS must leave nothing behind: damage one leaf of a valid wire form, call (it raises), repair the
    same object in place, call again -- the outcome must be the cold outcome of the valid input (C12 lists "mutate a
    previously passed input" among the operations of a history; a guard that leaks its markers on failure shows here)"""
    import copy
    calls, fails = 0, []
    raw = getattr(g, "raw", [])
    cands = [i for i, (d, ri, x, cold) in enumerate(raw) if d == "u" and cold[0] == "ok" and isinstance(x, (list, dict))]
    rng.shuffle(cands)
    done = 0
    for idx in cands:
        if done >= per_group:
            break
        d, ri, x, cold = raw[idx]
        paths = list(_leaf_paths(x))
        if not paths:
            continue
        path = rng.choice(paths)
        try:
            y = copy.deepcopy(x)
        except Exception:
            continue
        parent, key = _at(y, path)
        good = parent[key]
        parent[key] = _Unconvertible()
        impl.clear_caches()
        r1 = g.observe(d, ri, y, clear=False)
        calls += 1
        if r1[0] != "raise":
            continue
        parent[key] = good
        r2 = g.observe(d, ri, y, clear=False)
        calls += 1
        done += 1
        if not agree(cold, r2):
            fails.append({
                "kind": "warm-history", "key": f"repair|{g.env['module']}|{ri}",
                "symptom": "a call on a REPAIRED input (the same object, one leaf was unconvertible in the previous, failing call) "
                           "gives another outcome than the same call cold: the failing call left state behind",
                "env": dict({k: v for k, v in g.env.items() if k not in ("module", "defs")},
                            module=g.env["module"], defs={str(k): v for k, v in g.env["defs"].items()}),
                "group_class": type(g).__module__ + ":" + type(g).__name__,
                "roots": list(g.roots), "ref_depth": getattr(g, "ref_depth", 0),
                "history": [{"dir": d, "ri": ri, "type": repr(g.pytys[ri]), "input": _value_src(x)}],
                "repair": {"damage_path": [k if isinstance(k, (int, str)) else repr(k) for k in path]},
                "cold": repr(cold[1])[:400], "warm": repr(r2[1])[:400] if r2[0] == "ok" else r2[1],
                "module_source": getattr(g, "src", None),
                "replay_spec": (g.replay_spec() if hasattr(g, "replay_spec") else None),
            })
            break
    repair_histories.done = getattr(repair_histories, 'done', 0) + done
    repair_histories.tried = getattr(repair_histories, 'tried', 0) + len(cands)
    return calls, fails


def warm_pass(groups, same, max_fail=6):
    """returns (calls made, failures, skipped groups); a failure is a self-contained replay payload"""
    calls, fails, skipped = 0, [], 0
    roots_skipped = 0

    def agree(a, b):
        if a[0] != b[0]:
            return False
        return same(a[1], b[1]) if a[0] == "ok" else a[1] == b[1]

    for g in groups:
        raw = getattr(g, "raw", None)
        if not raw:
            continue
        import inspect
        _ps = inspect.signature(g.observe).parameters
        if "clear" not in _ps and not any(q.kind is inspect.Parameter.VAR_KEYWORD for q in _ps.values()):      # a property's own Group subclass with its own observe()
            skipped += 1
            continue
        tainted = union_collision_roots(g.pytys) if union_spelling_collision(g.pytys) else set()
        usable = [i for i in range(len(raw)) if raw[i][1] not in tainted]
        if tainted:
            roots_skipped += len(tainted)
        if not usable:
            skipped += 1
            continue
        order = usable + list(reversed(usable))
        impl.clear_caches()
        hist, bad = [], None
        for idx in order:
            d, ri, x, cold = raw[idx]
            warm = g.observe(d, ri, x, clear=False)
            calls += 1
            hist.append(idx)
            if not agree(cold, warm):
                bad = (idx, cold, warm)
                break
        if bad is None and tainted:
            continue      # repair histories walk all roots of the group: only for groups without a spelling collision
        if bad is None:
            import random as _random
            c2, f2 = repair_histories(g, agree, _random.Random(len(raw) * 7919 + len(g.roots)))
            calls += c2
            fails.extend(f2)
            if len(fails) >= max_fail:
                break
            continue
        idx, cold, warm = bad
        # shrink: one earlier call that is enough?
        short = None
        for j in dict.fromkeys(hist[:-1]):
            impl.clear_caches()
            g.observe(raw[j][0], raw[j][1], raw[j][2], clear=False)
            w2 = g.observe(raw[idx][0], raw[idx][1], raw[idx][2], clear=False)
            calls += 2
            if not agree(cold, w2):
                short, warm = [j, idx], w2
                break
        steps = short or hist
        fails.append({
            "kind": "warm-history", "key": f"warm|{g.env['module']}|{raw[idx][0]}|{raw[idx][1]}",
            "symptom": "a call gives another outcome after earlier calls in the same process than it gives cold "
                       "(caches cleared only before the first call of the history)",
            "env": dict({k: v for k, v in g.env.items() if k not in ("module", "defs")},
                        module=g.env["module"], defs={str(k): v for k, v in g.env["defs"].items()}),
            "group_class": type(g).__module__ + ":" + type(g).__name__,
            "roots": list(g.roots), "ref_depth": getattr(g, "ref_depth", 0),
            "history": [{"dir": raw[k][0], "ri": raw[k][1], "type": repr(g.pytys[raw[k][1]]), "input": _value_src(raw[k][2])}
                        for k in steps],
            "cold": repr(cold[1])[:400] if cold[0] == "ok" else cold[1],
            "warm": repr(warm[1])[:400] if warm[0] == "ok" else warm[1],
            "module_source": getattr(g, "src", None) or getattr(g, "source", None),
            "replay_spec": (g.replay_spec() if hasattr(g, "replay_spec") else None),
        })
        if len(fails) >= max_fail:
            break
    impl.clear_caches()
    warm_pass.roots_skipped = roots_skipped
    return calls, fails, skipped


def replay_warm(payload, same):
    """re-run a warm-history payload: the last call cold vs after the history"""
    def _tup(x):
        if isinstance(x, list):
            return tuple(_tup(y) for y in x) if (x and isinstance(x[0], str)) else [_tup(y) for y in x]
        return x
    env = dict({k: _tup(v) for k, v in payload["env"].items() if k not in ("module", "defs")},
               module=payload["env"]["module"] + "_replay",
               defs={(int(k) if k.isdigit() else k): _tup(v) for k, v in payload["env"]["defs"].items()})
    import coreprop
    import importlib
    cls = Group
    modname, _, clsname = str(payload.get("group_class", "")).partition(":")
    if modname and modname != __name__:
        try:      # a property's own Group subclass (e.g. c07_spell.SpelledGroup materialises the module in another spelling)
            cls = getattr(importlib.import_module(modname), clsname)
        except Exception:
            cls = Group
    if payload.get("replay_spec") is not None and hasattr(cls, "from_replay_spec"):
        # a Group subclass that is not rebuilt from (env, roots) alone (several modules, derived classes ...)
        g = cls.from_replay_spec(payload["replay_spec"], coreprop.suppressed())
    else:
        g = cls(env, [_tup(r) for r in payload["roots"]], coreprop.suppressed())
    g.ref_depth = payload.get("ref_depth", 0)
    try:
        ns = dict(g.mod.__dict__)
        exec("from decimal import Decimal\nfrom fractions import Fraction\nfrom uuid import UUID\nimport datetime\n"
             "from pathlib import *\nfrom collections import *", ns)
        steps = []
        for h in payload["history"]:
            try:
                steps.append((h["dir"], h["ri"], eval(h["input"], ns)))
            except Exception as e:
                return {"fails": False, "note": f"input cannot be rebuilt from its repr: {e!r}"}
        d, ri, x = steps[-1]
        cold = g.observe(d, ri, x)
        impl.clear_caches()
        warm = None
        if payload.get("repair"):
            import copy
            y = copy.deepcopy(x)
            path = payload["repair"]["damage_path"]
            parent, key = _at(y, path)
            good = parent[key]
            parent[key] = _Unconvertible()
            g.observe(d, ri, y, clear=False)        # the failing call
            parent[key] = good
            warm = g.observe(d, ri, y, clear=False)  # the same object, repaired
            steps = []
        for d2, ri2, x2 in steps:
            warm = g.observe(d2, ri2, x2, clear=False)
        ok = cold[0] == warm[0] and (same(cold[1], warm[1]) if cold[0] == "ok" else cold[1] == warm[1])
        return {"fails": not ok, "cold": repr(cold)[:300], "after_history": repr(warm)[:300]}
    finally:
        g.close()


HEADER = ("From Coq Require Import List. Import ListNotations.\n"
          "Require Import TL.Model.Core TL.Model.CoreTables.\n")
HEADER_MECH = HEADER + "Require Import TL.Model.Build TL.Model.BuildTables.\n"


def warm_replay(run, groups, tag):
    """the warm-replay pass as a correspondence layer of this run (see warm_pass)"""
    import coreprop
    import time
    t0 = time.time()
    calls, fails, skipped = warm_pass(groups, coreprop.same)
    run.record_corr(f"warm-replay[{tag}](every case again without clearing caches, forwards then backwards, vs its cold outcome)",
                    calls, [{k: v for k, v in f.items() if k not in ("env", "module_source")} for f in fails],
                    dist={"groups": len(groups), "groups_skipped_for_union_spelling_collision": skipped,
                          "roots_skipped_for_union_spelling_collision": getattr(warm_pass, "roots_skipped", 0),
                          "repair_histories(fail, repair in place, call again)": getattr(repair_histories, "done", 0),
                          "repair_candidates": getattr(repair_histories, "tried", 0),
                          "seconds": round(time.time() - t0, 1)})
    if not hasattr(run, "tie_failures"):
        run.tie_failures = []
    run.tie_failures += fails


def evaluate_groups_mech(run, groups, tag, per_file=10, strict=False):
    """Evaluate spec AND mechanism; returns (bad_spec, bad_mech, bad_agree) lists of (group, case index)."""
    import lib
    warm_replay(run, groups, tag)
    files, order = {}, []
    for fi in range(0, len(groups), per_file):
        chunk = groups[fi:fi + per_file]
        text = HEADER_MECH
        names = []
        for gi, g in enumerate(chunk):
            nm = f"G{fi + gi}"
            text += g.emit_mech(nm, strict)
            names.append(nm)
        for nm in names:
            text += (f"Eval vm_compute in {nm}.bad.\nEval vm_compute in {nm}.bad_mech.\n"
                     f"Eval vm_compute in {nm}.bad_agree.\nEval vm_compute in {nm}.hyps_ok.\n")
        fname = f"cases_{tag}_{fi // per_file}.v"
        files[fname] = text
        order.append((fname, chunk))
    results = run.coq_eval_many(files, timeout=900)
    outs = ([], [], [])
    hyps_bad = []
    for fname, chunk in order:
        res = results[fname]
        if res is None or len(res) != 4 * len(chunk):
            run.oblige(f"evaluate:{fname}", False, "model evaluation did not compile")
            for g in chunk:
                for o in outs:
                    o += [(g, i) for i in range(len(g.cases))]
            continue
        for gi, g in enumerate(chunk):
            for k in range(3):
                outs[k].extend((g, i) for i in lib.parse_nat_list(res[4 * gi + k]))
            if res[4 * gi + 3].strip() != "true":
                hyps_bad.append(g.env["module"])
    run.oblige("tie:order_ok (hypotheses of C05_build_routes) holds on every observed graph.static_order",
               not hyps_bad, "groups: " + ", ".join(hyps_bad[:5]))
    return outs


def evaluate_groups(run, groups, tag, per_file=12, strict=False):
    """Evaluate all groups in Coq; returns list of (group, case index) mismatches."""
    warm_replay(run, groups, tag)
    files, order = {}, []
    for fi in range(0, len(groups), per_file):
        chunk = groups[fi:fi + per_file]
        text = HEADER
        names = []
        for gi, g in enumerate(chunk):
            nm = f"G{fi + gi}"
            text += g.emit(nm, strict)
            names.append(nm)
        for nm in names:
            text += f"Eval vm_compute in {nm}.bad.\n"
        fname = f"cases_{tag}_{fi // per_file}.v"
        files[fname] = text
        order.append((fname, chunk))
    results = run.coq_eval_many(files, timeout=900)
    import lib
    bad = []
    for fname, chunk in order:
        res = results[fname]
        if res is None or len(res) != len(chunk):
            run.oblige(f"evaluate:{fname}", False, "model evaluation did not compile")
            for g in chunk:
                bad += [(g, i) for i in range(len(g.cases))]
            continue
        for g, r in zip(chunk, res):
            bad += [(g, i) for i in lib.parse_nat_list(r)]
    return bad
