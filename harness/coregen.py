"""Generators over the universe U (DESIGN section 3) for the core value model: class environments,
annotations, valid values, and the input pool (valid values, wire forms, JSON / literal text of wire forms,
systematically corrupted wire forms, unrelated objects)."""
from __future__ import annotations

import collections
import copy
import datetime
import decimal
import fractions
import itertools
import json
import pathlib
import random
import uuid

from universe import HASHABLE_LEAVES, LEAVES, MAP_KINDS, MAP_PY, SEQ_KINDS, SEQ_PY, cname

UTC = datetime.timezone.utc
_counter = itertools.count()

LEAF_VALUES = {
    "int": [0, 1, -1, 7, 2 ** 70, -(2 ** 63)],
    "bool": [True, False],
    "float": [0.5, -0.0, 1e300, 3.14, 5e-324],
    "str": ["", "a", "ab", "null", "1", "[1]", "2020-01-01", "None", "true", "héllo", '{"a": 1}', "x y"],
    "bytes": [b"", b"ab", b"\xff\x00"],
    "Decimal": [decimal.Decimal("1.5"), decimal.Decimal("1E+3"), decimal.Decimal("-0")],
    "Fraction": [fractions.Fraction(1, 3), fractions.Fraction(-7, 2), fractions.Fraction(4)],
    "UUID": [uuid.UUID(int=5), uuid.UUID("12345678-1234-5678-1234-567812345678")],
    "Path": [pathlib.PurePosixPath("a/b"), pathlib.PurePosixPath("/x"), pathlib.PurePosixPath("1")],
    "date": [datetime.date(2020, 1, 2), datetime.date(1, 1, 1), datetime.date(9999, 12, 31)],
    "datetime": [datetime.datetime(2020, 1, 2, 3, 4, 5, 6, tzinfo=UTC),
                 datetime.datetime(1999, 12, 31, 23, 59, 59, tzinfo=datetime.timezone(datetime.timedelta(hours=5, minutes=30)))],
    "time": [datetime.time(3, 4, 5, tzinfo=UTC), datetime.time(23, 59, 59, 999999, tzinfo=UTC)],
    "timedelta": [datetime.timedelta(seconds=5), datetime.timedelta(days=2, seconds=3, microseconds=4),
                  datetime.timedelta(hours=1)],
    "Any": [1, "x", None, [1, "a"], {"k": 1.5}],
    "list": [[1, "a"], [], [[1], {"a": 2}]],
    "dict": [{"a": 1}, {}, {"k": [1, 2]}],
}


def new_module_name(tag="m"):
    return f"verif_core_{tag}_{next(_counter)}"


# ----------------------------------------------------------------------------------
# types
# ----------------------------------------------------------------------------------

AVOID_ANY_MEMBER = False     # Any as a generic argument / union member: KeyError at construction (finding, C15)
AVOID_EMPTY_TYPEDDICT = False


def gen_leaf(rng, env, hashable=False, pool=None, member=False):
    from universe import EXOTIC
    names = list(pool or (HASHABLE_LEAVES if hashable else [k for k in LEAVES if k not in ("bytes",) and k not in EXOTIC]))
    if member and AVOID_ANY_MEMBER:
        names = [n for n in names if n != "Any"]
    extra = [n for n, d in env["defs"].items() if d[0] in ("enum", "literal")]
    if rng.random() < 0.25 and extra:
        return ("leaf", rng.choice(extra))
    return ("leaf", rng.choice(names))


def gen_ty(rng, env, depth, hashable=False, allow_union=True, classes=None, wrap=0.15, wid=None, member=False):
    """a type description of at most the given depth; `classes` = names usable as members"""
    wid = wid if wid is not None else env.setdefault("wid", itertools.count(1))
    classes = classes if classes is not None else [n for n, d in env["defs"].items() if d[0] in ("class", "alias")]
    if wrap and rng.random() < wrap and not hashable:
        inner = gen_ty(rng, env, depth, hashable, allow_union, classes, wrap / 2, wid, member)
        w = rng.choice(["newtype", "alias", "final"])
        if w == "final":
            return inner        # Final only at roots / fields: added by callers
        return (w, next(wid), inner)
    if depth <= 0 or rng.random() < 0.25:
        if classes and rng.random() < 0.35 and not hashable:
            n = rng.choice(classes)
            return ("name", n)
        return gen_leaf(rng, env, hashable, member=member)
    r = rng.random()
    sub = lambda h=False: gen_ty(rng, env, depth - 1, h, allow_union, classes, wrap, wid, True)
    if hashable:
        if r < 0.5:
            return ("seq", "KTuple", rng.choice(SEQ_KINDS["KTuple"])[0], sub(True))
        if r < 0.8:
            return ("seq", "KFrozenset", rng.choice(SEQ_KINDS["KFrozenset"])[0], sub(True))
        return ("tuple", rng.choice(["tuple[{}]", "typing.Tuple[{}]"]), [sub(True) for _ in range(rng.randint(1, 3))])
    if r < 0.35:
        kind = rng.choice(["KList", "KList", "KTuple", "KSet", "KFrozenset", "KDeque"])
        return ("seq", kind, rng.choice(SEQ_KINDS[kind])[0], sub(kind in ("KSet", "KFrozenset")))
    if r < 0.55:
        kind = rng.choice(["KDict", "KDict", "KOrderedDict"])
        kt = ("leaf", "str") if rng.random() < 0.7 else gen_leaf(rng, env, True, member=True)
        return ("map", kind, rng.choice(MAP_KINDS[kind])[0], kt, sub())
    if r < 0.7:
        return ("tuple", rng.choice(["tuple[{}]", "typing.Tuple[{}]"]), [sub() for _ in range(rng.randint(1, 4))])
    if r < 0.9 and allow_union:
        if rng.random() < 0.5:
            m = gen_ty(rng, env, depth - 1, False, False, classes, 0, wid, True)   # typing flattens nested unions
            return ("union", rng.choice(["Optional", "|", "Union"]), [m, ("none",)])
        n = rng.randint(2, 3)
        ms = []
        for _ in range(n):
            m = gen_ty(rng, env, depth - 1, False, False, classes, 0, wid, True)
            if m not in ms:
                ms.append(m)
        if rng.random() < 0.3:
            ms.insert(rng.randint(0, len(ms)), ("none",))
        if len(ms) < 2:
            return ms[0]
        return ("union", rng.choice(["|", "Union"]), ms)
    if classes:
        return ("name", rng.choice(classes))
    return gen_leaf(rng, env, member=member)


FIELD_NAMES = ["a", "b", "c", "val", "kids", "x", "name", "items"]


def gen_env(rng, ncls=3, cyclic=False, depth=2, with_alias=True):
    """a module with enums, a literal, `ncls` classes (later classes may use earlier ones; with `cyclic`,
    earlier classes refer to later ones / themselves through Optional, list, dict, tuple edges)"""
    env = {"module": new_module_name(), "defs": {}}
    defs = env["defs"]
    if rng.random() < 0.7:
        defs["EnA"] = ("enum", [("RED", "1"), ("BLUE", "2")])
    if rng.random() < 0.4:
        defs["EnS"] = ("enum", [("ONE", "'1'"), ("X", "'x'")], "str, enum.Enum")
    if rng.random() < 0.4:
        defs["EnI"] = ("enum", [("LO", "0"), ("HI", "9")], "enum.IntEnum")
    if rng.random() < 0.5:
        defs["Lit"] = ("literal", ["1", "'a'", "None"] if rng.random() < 0.3 else ["1", "'a'", "'b'"])
    names = list(range(ncls))
    for n in names:
        usable = [m for m in names if m < n]
        flavour = rng.choice(["dataclass", "dataclass", "namedtuple", "typeddict", "plain"])
        opts = ""
        if flavour == "dataclass":
            opts = rng.choice(["", "", "frozen=True", "slots=True", "kw_only=True"])
        elif flavour == "typeddict":
            opts = rng.choice(["", "", "total=False"])
        nf = rng.randint(0 if flavour not in ("namedtuple",) + (("typeddict",) if AVOID_EMPTY_TYPEDDICT else ()) else 1, 4)
        if opts == "slots=True":
            nf = max(nf, 1)      # an empty slots dataclass has neither fields nor __dict__: iteritems raises (C18 edge)
        fields, have_default = [], False
        fnames = rng.sample(FIELD_NAMES, nf)
        for fn in fnames:
            t = gen_ty(rng, env, depth, classes=usable, wrap=0.1)
            if cyclic and rng.random() < 0.5:
                tgt = rng.choice(names)
                edge = rng.choice(["opt", "list", "dict", "tuple", "bar"])
                inner = ("name", tgt)
                t = {"opt": ("union", "Optional", [inner, ("none",)]),
                     "bar": ("union", "|", [inner, ("none",)]),
                     "list": ("seq", "KList", "list[{}]", inner),
                     "dict": ("map", "KDict", "dict[{}, {}]", ("leaf", "str"), inner),
                     "tuple": ("seq", "KTuple", "tuple[{}, ...]", inner)}[edge]
            default = None
            if flavour != "typeddict" and (have_default or rng.random() < 0.3):
                default = default_src(rng, t, env)
                if default is None and have_default:
                    default = "None"     # a field without default cannot follow one with a default
                have_default = have_default or default is not None
            if rng.random() < 0.1 and flavour in ("dataclass", "plain"):
                t = ("final", t)
            fields.append((fn, t, default))
        defs[n] = ("class", flavour, opts, fields)
    if with_alias and rng.random() < 0.4 and ncls:
        n = ncls
        tgt = rng.choice(names)
        defs[n] = ("alias", ("seq", "KList", "list[{}]", ("name", tgt)))
    return env


def default_src(rng, t, env):
    k = t[0]
    if k == "leaf" and t[1] in LEAVES:
        v = rng.choice(LEAF_VALUES[t[1]])
        if t[1] in ("Any", "list", "dict") and isinstance(v, (list, dict)):
            return "None"
        if t[1] in ("int", "bool", "float", "str", "bytes"):
            return repr(v)
        return {"Decimal": "decimal.Decimal('1.5')", "Fraction": "fractions.Fraction(1, 3)",
                "UUID": "uuid.UUID(int=5)", "Path": "pathlib.PurePosixPath('a/b')",
                "date": "datetime.date(2020, 1, 2)",
                "datetime": "datetime.datetime(2020, 1, 2, 3, 4, 5, tzinfo=datetime.timezone.utc)",
                "time": "datetime.time(3, 4, 5, tzinfo=datetime.timezone.utc)",
                "timedelta": "datetime.timedelta(seconds=5)"}.get(t[1], "None")
    if k == "union" and ("none",) in t[2]:
        return "None"
    return "None" if rng.random() < 0.5 else None


# ----------------------------------------------------------------------------------
# values
# ----------------------------------------------------------------------------------

def gen_value(rng, t, env, mod, depth=3, size=3):
    """a valid instance of t made of exactly the annotated classes"""
    k = t[0]
    if k == "leaf":
        key = t[1]
        if key in LEAF_VALUES:
            return copy.deepcopy(rng.choice(LEAF_VALUES[key]))
        d = env["defs"][key]
        if d[0] == "enum":
            return rng.choice(list(getattr(mod, key)))
        if d[0] == "literal":
            return eval(rng.choice(d[1]))
    if k == "none":
        return None
    if k == "seq":
        n = rng.randint(0, size) if depth > 0 else 0
        vals = [gen_value(rng, t[3], env, mod, depth - 1, size) for _ in range(n)]
        if t[1] in ("KSet", "KFrozenset"):
            vals = _dedupe_eq(vals)
        return SEQ_PY[t[1]](vals)
    if k == "map":
        n = rng.randint(0, size) if depth > 0 else 0
        pairs = []
        for _ in range(n):
            kk = gen_value(rng, t[3], env, mod, depth - 1, size)
            if any(kk == p[0] for p in pairs):
                continue
            pairs.append((kk, gen_value(rng, t[4], env, mod, depth - 1, size)))
        return MAP_PY[t[1]](pairs)
    if k == "tuple":
        return tuple(gen_value(rng, x, env, mod, depth - 1, size) for x in t[2])
    if k == "union":
        ms = t[2]
        if depth <= 0 and ("none",) in ms:
            return None
        return gen_value(rng, rng.choice(ms), env, mod, depth - 1, size)
    if k in ("name", "ref", "aliasstr"):
        n = t[1] if k != "aliasstr" else t[2]
        d = env["defs"][n]
        if d[0] == "alias":
            return gen_value(rng, d[2] if isinstance(d[1], str) else d[1], env, mod, depth, size)
        cls = getattr(mod, cname(n))
        kw = {}
        for fn, ft, default in d[3]:
            if default is not None and (depth <= 0 or rng.random() < 0.3):
                continue
            if d[2] == "total=False" and rng.random() < 0.3:
                continue
            kw[fn] = gen_value(rng, ft, env, mod, depth - 1, size)
        return cls(**kw)
    if k == "wrapref":
        return gen_value(rng, t[1], env, mod, depth, size)
    if k in ("newtype", "alias"):
        return gen_value(rng, t[2], env, mod, depth, size)
    if k in ("final", "classvar"):
        return gen_value(rng, t[1], env, mod, depth, size)
    raise ValueError(t)


def _dedupe_eq(vals):
    out = []
    for v in vals:
        try:
            if not any(v == o for o in out):
                out.append(v)
        except Exception:
            out.append(v)
    return out


# ----------------------------------------------------------------------------------
# input pool
# ----------------------------------------------------------------------------------

UNRELATED = [0, 1.5, "zzz", b"raw", None, True, [], {}, [1, 2, 3], {"q": 1}, (1, 2), "[1, 2", "{\"a\": }",
             "\x00\x01", object]


def corrupt(rng, w):
    """systematic corruption of a wire value"""
    w = copy.deepcopy(w)
    if isinstance(w, dict) and w:
        k = rng.choice(list(w))
        r = rng.random()
        if r < 0.25:
            del w[k]
        elif r < 0.5:
            w[str(k) + "_x"] = w.pop(k)
        elif r < 0.75:
            w[k] = rng.choice(UNRELATED[:10])
        else:
            w[k] = corrupt(rng, w[k])
        return w
    if isinstance(w, list):
        r = rng.random()
        if w and r < 0.3:
            w.pop(rng.randrange(len(w)))
        elif r < 0.5:
            w.append(rng.choice(UNRELATED[:10]))
        elif w and r < 0.8:
            i = rng.randrange(len(w))
            w[i] = corrupt(rng, w[i])
        else:
            return {"0": w}
        return w
    return rng.choice(UNRELATED[:12])


def jsonable(w):
    try:
        json.dumps(w)
        return True
    except Exception:
        return False


def input_pool(rng, value, wire):
    """inputs derived from one valid value and its wire form (wire may be None when marshal failed)"""
    out = [("valid", value)]
    if wire is not None:
        out.append(("wire", wire))
        if jsonable(wire):
            out.append(("json", json.dumps(wire)))
            if rng.random() < 0.3:
                out.append(("json-bytes", json.dumps(wire).encode()))
        if rng.random() < 0.3:
            out.append(("repr", repr(wire)))
        for _ in range(2):
            out.append(("corrupt", corrupt(rng, wire)))
    out.append(("unrelated", rng.choice(UNRELATED)))
    return out
