"""C09 -- descriptions of annotations / class graphs, from which BOTH the Python objects (synthesised
modules) and the Coq terms (gty / env) are produced, plus the case generators.

A type description is a tuple:
  ('s', name)  ('none',)  ('ell',)  ('any',)  ('lit', n)
  ('gen', g, [args])            g in GENS
  ('union', sp, [members])      sp in 'opt' (typing.Optional[X]; members [X, none]) | 'union' | 'pipe'
  ('cls', k)
  ('newtype', mod, name, body)  ('alias', mod, name, body)  ('aliasstr', mod, name, text)
  ('final', body)               ('ref', arg, module)
A case: {'classes': [{'id','module','qual','flavour','fields': [(fname, desc)]}], 'named': [desc...],
         'root': desc, 'tag': str}
"""
from __future__ import annotations

import itertools
import random

import impl

MOD_A, MOD_B = "vm_c09_a", "vm_c09_b"
ENUM_MOD = "verif_c09_enum"

SCALARS = {
    "int": ("SInt", "int"), "str": ("SStr", "str"), "float": ("SFloat", "float"), "bool": ("SBool", "bool"),
    "bytes": ("SBytes", "bytes"), "Decimal": ("SDecimal", "decimal.Decimal"),
    "datetime": ("SDatetime", "datetime.datetime"), "date": ("SDate", "datetime.date"),
    "UUID": ("SUuid", "uuid.UUID"), "Fraction": ("SFraction", "fractions.Fraction"),
    "PurePath": ("SPurePath", "pathlib.PurePath"), "Color": ("SEnum", ENUM_MOD + ".Color"),
}
STDLIB_SCALARS = ["int", "str", "float", "bool", "bytes", "Decimal", "datetime", "date", "UUID"]
OTHER_SCALARS = ["Fraction", "PurePath", "Color"]
GENS = {
    "list": "GList", "set": "GSet", "frozenset": "GFrozenset", "dict": "GDict", "tuple": "GTuple",
    "collections.deque": "GDeque", "typing.List": "GTList", "typing.Dict": "GTDict",
    "typing.Sequence": "GTSequence",
}
NONE = ("none",)
ELL = ("ell",)
INT = ("s", "int")
STR = ("s", "str")

HEADER = ("from __future__ import annotations\n"
          "import dataclasses, typing, collections, decimal, datetime, uuid, fractions, pathlib\n"
          "import %s\nfrom typelib.py import compat\n" % ENUM_MOD)


def ensure_enum_module():
    import sys
    if ENUM_MOD not in sys.modules:
        impl.new_module(ENUM_MOD, "import enum\nclass Color(enum.Enum):\n    RED = 1\n    BLUE = 2\n")


# ----------------------------------------------------------------------------------
# description -> Python source text / Coq term
# ----------------------------------------------------------------------------------

def cls_by_id(case, k):
    return next(c for c in case["classes"] if c["id"] == k)


def src(case, d, cur_mod) -> str:
    k = d[0]
    if k == "s":
        return SCALARS[d[1]][1]
    if k == "none":
        return "None"
    if k == "ell":
        return "..."
    if k == "any":
        return "typing.Any"
    if k == "lit":
        return f"typing.Literal[{d[1]}]"
    if k == "gen":
        return f"{d[1]}[{', '.join(src(case, a, cur_mod) for a in d[2])}]"
    if k == "union":
        if d[1] == "opt":
            return f"typing.Optional[{src(case, d[2][0], cur_mod)}]"
        if d[1] == "union":
            return f"typing.Union[{', '.join(src(case, a, cur_mod) for a in d[2])}]"
        return " | ".join(src(case, a, cur_mod) for a in d[2])
    if k == "cls":
        c = cls_by_id(case, d[1])
        return c["qual"] if c["module"] == cur_mod else f"{c['module']}.{c['qual']}"
    if k in ("newtype", "alias", "aliasstr"):
        return d[2] if d[1] == cur_mod else f"{d[1]}.{d[2]}"
    if k == "final":
        return f"typing.Final[{src(case, d[1], cur_mod)}]"
    if k == "ref":
        return d[1]          # the raw annotation text of an unresolvable member
    raise ValueError(d)


def cstr(s: str) -> str:
    assert all(32 <= ord(c) < 127 for c in s) and '"' not in s, s
    return '"' + s + '"'


def coq(d) -> str:
    k = d[0]
    if k == "s":
        return f"(GScalar {SCALARS[d[1]][0]})"
    if k == "none":
        return "GNone"
    if k == "ell":
        return "GEllipsis"
    if k == "any":
        return "GAny"
    if k == "lit":
        return f"(GLit {d[1]})"
    if k == "gen":
        return f"(GGen {GENS[d[1]]} [{'; '.join(coq(a) for a in d[2])}])"
    if k == "union":
        sp = {"opt": "UOptional", "union": "UUnion", "pipe": "UPipe"}[d[1]]
        return f"(GUnion {sp} [{'; '.join(coq(a) for a in d[2])}])"
    if k == "cls":
        return f"(GClass {d[1]})"
    if k == "newtype":
        return f"(GNewType {cstr(d[1])} {cstr(d[2])} {coq(d[3])})"
    if k == "alias":
        return f"(GAlias {cstr(d[1])} {cstr(d[2])} {coq(d[3])})"
    if k == "aliasstr":
        return f"(GAliasStr {cstr(d[1])} {cstr(d[2])} {cstr(d[3])})"
    if k == "final":
        return f"(GFinal {coq(d[1])})"
    if k == "ref":
        return f"(GRef {cstr(d[1])} {'None' if d[2] is None else '(Some ' + cstr(d[2]) + ')'})"
    raise ValueError(d)


def coq_env(case) -> str:
    items = []
    for c in case["classes"]:
        fields = "; ".join(f"({cstr(f)}, {coq(t)})" for f, t in c["fields"])
        items.append(f"({c['id']}, {{| cmodule := {cstr(c['module'])}; cqual := {cstr(c['qual'])}; "
                     f"cfields := [{fields}] |}})")
    return "[" + "; ".join(items) + "]" if items else "(@nil (cname * classdef))"


def freeze(d):
    if isinstance(d, (list, tuple)):
        return tuple(freeze(x) for x in d)
    return d


def subterms(d):
    yield d
    k = d[0]
    if k in ("gen", "union"):
        for a in d[2]:
            yield from subterms(a)
    elif k in ("newtype", "alias"):
        yield from subterms(d[3])
    elif k == "final":
        yield from subterms(d[1])


def universe(case):
    seen, out = set(), []
    roots = [case["root"]] + [t for c in case["classes"] for _, t in c["fields"]] + list(case.get("named", []))
    roots += [("cls", c["id"]) for c in case["classes"]]
    for r in roots:
        for s in subterms(r):
            f = freeze(s)
            if f not in seen:
                seen.add(f)
                out.append(s)
    return out


# ----------------------------------------------------------------------------------
# description -> live modules and objects
# ----------------------------------------------------------------------------------

def class_source(case, mod, only=None) -> str:
    """Source of all classes of one module (only: just these ids); nested classes are grouped under their holder chain."""
    tree: dict = {}
    for c in case["classes"]:
        if c["module"] != mod or (only is not None and c["id"] not in only):
            continue
        parts = c["qual"].split(".")
        node = tree
        for p in parts[:-1]:
            node = node.setdefault(p, {})
        node[parts[-1]] = c
    lines: list[str] = []

    def emit(name, node, ind):
        pad = "    " * ind
        if isinstance(node, dict) and "id" not in node:
            lines.append(f"{pad}class {name}:")
            lines.append(f"{pad}    pass")
            for n2, sub in node.items():
                emit(n2, sub, ind + 1)
            return
        c = node
        fl = c["flavour"]
        if fl == "dataclass":
            lines.append(f"{pad}@dataclasses.dataclass")
            lines.append(f"{pad}class {name}:")
        elif fl == "namedtuple":
            lines.append(f"{pad}class {name}(typing.NamedTuple):")
        elif fl == "typeddict":
            lines.append(f"{pad}class {name}(typing.TypedDict):")
        else:
            lines.append(f"{pad}class {name}:")
        if not c["fields"]:
            lines.append(f"{pad}    pass")
        for f, t in c["fields"]:
            lines.append(f"{pad}    {f}: {src(case, t, mod)}")

    for name, node in tree.items():
        emit(name, node, 0)
    return "\n".join(lines) + "\n"


def named_source(case, d) -> str:
    k, mod, name = d[0], d[1], d[2]
    if k == "newtype":
        return f"{name} = typing.NewType({name!r}, {src(case, d[3], mod)})\n"
    if k == "alias":
        return f"{name} = compat.TypeAliasType({name!r}, {src(case, d[3], mod)})\n"
    return f"{name} = compat.TypeAliasType({name!r}, {d[3]!r})\n"


class Live:
    """The synthesised modules of a case and the object of every description in its universe."""

    def __init__(self, case):
        ensure_enum_module()
        self.case = case
        mods = sorted({c["module"] for c in case["classes"]} | {d[1] for d in case.get("named", [])} | {MOD_A})
        self.source = {}
        self.mods = {}
        for m in mods:
            self.source[m] = HEADER + class_source(case, m)
            self.mods[m] = impl.new_module(m, self.source[m])
        for m in mods:
            for m2 in mods:
                setattr(self.mods[m], m2, self.mods[m2])
        for d in case.get("named", []):
            s = named_source(case, d)
            self.source[d[1]] += s
            exec(compile(s, f"<verif:{d[1]}>", "exec", dont_inherit=True), self.mods[d[1]].__dict__)
        self.registry = {}
        self.ambiguous = []
        for d in universe(case):
            o = self.obj(d)
            try:
                if o in self.registry and freeze(self.registry[o]) != freeze(d):
                    self.ambiguous.append((d, self.registry[o]))
                    continue
                self.registry[o] = d
            except TypeError:
                pass

    def obj(self, d):
        import typing
        if d[0] == "ref":
            return typing.ForwardRef(d[1], module=d[2])
        if d[0] == "ell":
            return Ellipsis
        if d[0] == "none":
            return type(None)
        return eval(src(self.case, d, MOD_A), self.mods[MOD_A].__dict__)

    def describe(self, o):
        """Python annotation object -> description (None when it is not an annotation of the case)."""
        import typing
        if o.__class__ is typing.ForwardRef:
            return ("ref", o.__forward_arg__, o.__forward_module__)
        if o is Ellipsis:
            return ELL
        try:
            return self.registry.get(o)
        except TypeError:
            return None


# ----------------------------------------------------------------------------------
# generators
# ----------------------------------------------------------------------------------
EDGE_KINDS = ["opt", "list", "dict", "tuplevar", "pipe_none", "plain"]
ROOT_KINDS = ["plain", "opt", "list", "dict", "tuplevar", "pipe_none", "fixedtuple"]


def wrap(kind, x, optspell="opt"):
    if kind in ("opt", "pipe_none"):
        kind = optspell if optspell != "keep" else kind
    if kind == "opt":
        return ("union", "opt", [x, NONE])
    if kind == "pipe_none":
        return ("union", "pipe", [x, NONE])
    if kind == "none_pipe":
        return ("union", "pipe", [NONE, x])
    if kind == "list":
        return ("gen", "list", [x])
    if kind == "dict":
        return ("gen", "dict", [STR, x])
    if kind == "tuplevar":
        return ("gen", "tuple", [x, ELL])
    if kind == "fixedtuple":
        return ("gen", "tuple", [x, INT])
    if kind == "plain":
        return x
    raise ValueError(kind)


def class_graph_case(n, mask, rng: random.Random, root_cls, root_kind, variant="plain"):
    """One case over n classes; edge i->j present iff bit i*n+j of mask."""
    # one spelling of "optional X" per target class within a case (predicates are cached on ==)
    optspell = [rng.choice(["opt", "pipe_none", "none_pipe"] if rng.random() < 0.25 else ["opt", "pipe_none"])
                for _ in range(n)]
    classes = []
    nest_twomod = variant == "twomod" and rng.random() < 0.4
    for i in range(n):
        module, qual, flav = MOD_A, f"C{i}", rng.choice(["dataclass", "dataclass", "namedtuple", "typeddict", "plainclass"])
        if variant == "nested":
            depth = rng.choice([1, 1, 2])
            # a holder whose name ENDS in the module name: "<module>." re-occurs inside the qualified name without
            # leading it (refs.forwardref must leave it alone, /repo 31a6d65)
            outer = f"X{MOD_A}" if rng.random() < 0.3 else f"Outer{i}"
            qual = ".".join([outer, f"Mid{i}"][:depth] + [f"C{i}"])
            flav = rng.choice(["dataclass", "plainclass"])
        elif variant == "twomod":
            module = MOD_A if i % 2 == 0 else MOD_B
            qual = "Node" if i < 2 else f"C{i}"
            if nest_twomod and i < 2:
                qual = "Outer.Node"          # same qualified name, nested, in two modules
                flav = rng.choice(["dataclass", "plainclass"])
        elif rng.random() < 0.12:
            # nested classes are ordinary members of every stream
            qual = f"X{MOD_A}.C{i}" if rng.random() < 0.3 else f"Outer{i}.C{i}"
            flav = rng.choice(["dataclass", "plainclass"])
        classes.append({"id": i, "module": module, "qual": qual, "flavour": flav, "fields": []})
    named = []
    # wrappers variant: most targets get ONE wrapped annotation shared by every class that refers to them
    # (same object under the same field name f<j>: the node identity (type, unwrapped, var) is shared)
    shared = {}
    if variant == "wrappers":
        for j in range(n):
            if rng.random() < 0.7:
                w = rng.choice(["newtype", "alias", "final", "aliasstr", "aliasstr_plain"])
                body = wrap(rng.choice(["list", "dict", "tuplevar", "plain", "list", "dict"]), ("cls", j))
                nm = f"S{j}"
                if w == "newtype":
                    t = ("newtype", MOD_A, nm, body); named.append(t)
                elif w == "alias":
                    t = ("alias", MOD_A, nm, body); named.append(t)
                elif w == "aliasstr":
                    t = ("aliasstr", MOD_A, nm, f"list[{classes[j]['qual']}]"); named.append(t)
                elif w == "aliasstr_plain":
                    t = ("aliasstr", MOD_A, nm, classes[j]["qual"]); named.append(t)
                else:
                    t = ("final", body)
                shared[j] = (w, t)
    for i in range(n):
        for j in range(n):
            if not (mask >> (i * n + j)) & 1:
                continue
            kind = rng.choice(EDGE_KINDS)
            target = ("cls", j)
            if j in shared and rng.random() < 0.85:
                w, target = shared[j]
                if w == "final":
                    classes[i]["flavour"] = "dataclass"
                    kind = "plain"
                elif rng.random() < 0.7:
                    kind = "plain"
            elif variant == "wrappers" and rng.random() < 0.4:
                w = rng.choice(["newtype", "alias", "aliasstr", "aliasstr_plain", "final"])
                nm = f"W{i}{j}"
                if w == "newtype":
                    target = ("newtype", MOD_A, nm, ("cls", j)); named.append(target)
                elif w == "alias":
                    target = ("alias", MOD_A, nm, wrap(rng.choice(["list", "plain", "dict"]), ("cls", j))); named.append(target)
                elif w == "aliasstr":
                    target = ("aliasstr", MOD_A, nm, f"list[{classes[j]['qual']}]"); named.append(target)
                elif w == "aliasstr_plain":
                    target = ("aliasstr", MOD_A, nm, classes[j]["qual"]); named.append(target)
                else:
                    target = ("final", ("cls", j))
                    classes[i]["flavour"] = "dataclass"
                    kind = "plain"
            sp = optspell[j]
            if target[0] != "cls":
                sp = "opt"      # NewType / alias objects turn `X | None` into typing.Optional[X] themselves
            t = wrap(kind, target, sp)
            classes[i]["fields"].append((f"f{j}", t))
        r = rng.random()
        if r < 0.3:
            classes[i]["fields"].append(("s", INT))
        if r < 0.12:
            classes[i]["fields"].append(("t", INT))
        if 0.3 <= r < 0.36:
            classes[i]["fields"].append(("u", ("any",)))
    root = wrap(root_kind, ("cls", root_cls), optspell[root_cls])
    if variant == "wrappers" and rng.random() < 0.5:
        w = rng.choice(["newtype", "alias", "final", "aliasstr"])
        if w == "newtype":
            root = ("newtype", MOD_A, "RootNT", ("cls", root_cls)); named.append(root)
        elif w == "alias":
            root = ("alias", MOD_A, "RootAL", root); named.append(root)
        elif w == "aliasstr":
            root = ("aliasstr", MOD_A, "RootSA", classes[root_cls]["qual"]); named.append(root)
        else:
            root = ("final", ("cls", root_cls))
    return {"classes": classes, "named": named, "root": root,
            "tag": f"{variant}:n{n}:m{mask}:r{root_cls}:{root_kind}"}


def rand_type(rng: random.Random, depth: int, used_opt: dict):
    """random non-class annotation"""
    r = rng.random()
    if depth <= 0 or r < 0.3:
        r2 = rng.random()
        if r2 < 0.7:
            return ("s", rng.choice(STDLIB_SCALARS))
        if r2 < 0.85:
            return ("s", rng.choice(OTHER_SCALARS))
        if r2 < 0.9:
            return ("lit", rng.randint(0, 3))
        return ("any",)
    if r < 0.6:
        g = rng.choice(["list", "set", "frozenset", "collections.deque", "typing.List", "typing.Sequence"])
        return ("gen", g, [rand_type(rng, depth - 1, used_opt)])
    if r < 0.72:
        g = rng.choice(["dict", "typing.Dict"])
        return ("gen", g, [("s", rng.choice(["str", "int"])), rand_type(rng, depth - 1, used_opt)])
    if r < 0.8:
        return ("gen", "tuple", [rand_type(rng, depth - 1, used_opt), ELL])
    if r < 0.9:
        return ("gen", "tuple", [rand_type(rng, depth - 1, used_opt) for _ in range(rng.randint(1, 3))])
    # unions: members are distinct non-union types; one spelling per member set
    k = rng.randint(1, 3)
    ms, seen = [], set()
    for _ in range(k):
        m = rand_type(rng, depth - 1, used_opt)
        if m[0] in ("union", "none", "any") or freeze(m) in seen:
            continue
        seen.add(freeze(m)); ms.append(m)
    if not ms:
        ms = [INT]
    sp = rng.choice(["opt", "pipe_none", "union", "pipe"])
    has_none = len(ms) == 1 or sp in ("opt", "pipe_none")
    key = (frozenset(freeze(m) for m in ms), has_none)
    if key in used_opt:
        return used_opt[key]
    typing_form = any(is_typing_form(m) for m in ms)
    if has_none:
        if len(ms) == 1 and (sp == "opt" or typing_form):
            d = ("union", "opt", [ms[0], NONE])
        elif typing_form:
            d = ("union", "union", ms + [NONE])
        else:
            d = ("union", "pipe", ms + [NONE])
    elif sp == "union" or typing_form:
        d = ("union", "union", ms)
    else:
        d = ("union", "pipe", ms)
    used_opt[key] = d
    return d


def is_typing_form(d) -> bool:
    """objects whose `|` operator builds typing.Union instead of types.UnionType"""
    return d[0] in ("lit", "any", "final", "newtype", "alias", "aliasstr") or \
        (d[0] == "gen" and d[1].startswith("typing.")) or (d[0] == "union" and d[1] != "pipe")


def random_case(rng: random.Random, depth=3):
    return {"classes": [], "named": [], "root": rand_type(rng, depth, {}), "tag": "random"}


def topologies(n):
    return range(1 << (n * n))


# ----------------------------------------------------------------------------------
# wrapper chains (alias of alias, alias of NewType, NewType of alias, Final of alias of NewType ...)
# ----------------------------------------------------------------------------------

def mkchain(rng: random.Random, base, prefix: str, named: list, allow_final: bool):
    """2-3 wrapper layers around base, in a random alternation; Final only as the outermost layer."""
    length = rng.choice([2, 2, 3])
    d = base
    for k in range(length):
        last = k == length - 1
        kind = rng.choice(["newtype", "alias", "alias"] + (["final"] if (last and allow_final) else []))
        if kind == "final":
            d = ("final", d)
        else:
            d = (kind, MOD_A, f"{prefix}{k}", d)
            named.append(d)
    return d


def chain_case(rng: random.Random, n: int):
    """classes with members; every edge goes through a wrapper chain, used as a member, as a generic
    argument, or (Final outermost) as a qualified member; the root is a chain, a class or a container"""
    mask = rng.randrange(1, 1 << (n * n))
    classes = [{"id": i, "module": MOD_A, "qual": f"C{i}", "flavour": "dataclass", "fields": [("s", INT)]} for i in range(n)]
    named: list = []
    shared = {}
    for j in range(n):
        if rng.random() < 0.6:
            base = wrap(rng.choice(["plain", "plain", "list", "dict"]), ("cls", j))
            shared[j] = mkchain(rng, base, f"S{j}x", named, False)
    for i in range(n):
        for j in range(n):
            if not (mask >> (i * n + j)) & 1:
                continue
            if j in shared and rng.random() < 0.8:
                w = shared[j]
            else:
                base = wrap(rng.choice(["plain", "plain", "list", "dict", "tuplevar"]), ("cls", j))
                w = mkchain(rng, base, f"W{i}{j}x", named, False)
            pos = rng.choice(["member", "member", "list", "dict", "opt", "tuplevar", "final"])
            if pos == "member":
                t = w
            elif pos == "final":
                t = ("final", w)
            else:
                t = wrap(pos, w, "opt")
            classes[i]["fields"].append((f"f{j}", t))
    r = rng.randrange(n)
    rk = rng.choice(["chain", "chain", "chainfinal", "cls", "list_of_chain", "shared"])
    if rk == "cls":
        root = ("cls", r)
    elif rk == "shared" and shared:
        root = shared[rng.choice(sorted(shared))]
    elif rk == "list_of_chain":
        root = ("gen", "list", [mkchain(rng, ("cls", r), "Rx", named, False)])
    else:
        root = mkchain(rng, wrap(rng.choice(["plain", "plain", "list"]), ("cls", r)), "Rx", named, rk == "chainfinal")
    return {"classes": classes, "named": named, "root": root, "tag": f"chains:n{n}:m{mask}:{rk}"}


# ----------------------------------------------------------------------------------
# unresolvable hints: typing.get_type_hints raises NameError, so EVERY member of the class comes from the
# signature as ForwardRef(text, module=<class module>) and is walked unevaluated
# ----------------------------------------------------------------------------------

def unresolvable_case(rng: random.Random):
    texts = ["Zed", "Zed", rng.choice(["Zed", "Yod", "list[Zed]"]), rng.choice(["int", "C1", "Zed", "dict[str, Zed]"])]
    names = ["x", "y", "z", "w"][: rng.randint(2, 4)]
    a = {"id": 0, "module": MOD_A, "qual": "C0", "flavour": "dataclass",
         "fields": [(nm, ("ref", texts[i], MOD_A)) for i, nm in enumerate(names)]}
    b = {"id": 1, "module": MOD_A, "qual": "C1", "flavour": "dataclass",
         "fields": [("f0", wrap(rng.choice(["plain", "list", "opt"]), ("cls", 0), "opt")), ("s", INT)]}
    root = rng.choice([("cls", 0), ("cls", 1), ("gen", "list", [("cls", 0)]), ("gen", "dict", [STR, ("cls", 1)])])
    return {"classes": [a, b], "named": [], "root": root, "tag": "unresolvable"}


# ----------------------------------------------------------------------------------
# operation histories (round 3): the class environment CHANGES between calls of graph.static_order
#
# A history case is an ordinary case (classes = every class with the fields it is DECLARED with, root = the
# last annotation asked) plus case['history'], a list of steps run in ONE process without clearing any cache:
#   {'op': 'define',   'ids': [k...]}                      the class statements of these classes are executed
#   {'op': 'annotate', 'cls': k, 'field': f, 'type': desc, 'as': 'text' | 'object'}
#                                                          k.__annotations__[f] = <annotation> (a new member, or
#                                                          another type for a member k already has)
#   {'op': 'call',     'fn': 'static_order' | 'itertypes', 'root': desc}
#   {'op': 'resolve',  'how': 'evaluate'}                  refs.evaluate on every ForwardRef (node.type, node.unwrapped)
#                                                          of every sequence returned so far -- what a consumer of
#                                                          the graph does with deferred nodes (failures ignored)
#   {'op': 'resolve',  'how': 'static_order-of-ref'}       graph.static_order(<each such ForwardRef>)
#   {'op': 'resolve',  'how': 'unmarshal' | 'marshal', 'root': desc, 'value': v}   typelib.unmarshal / marshal
# A resolve step changes NOTHING in the environment the model is given: resolving a reference is no change of any
# class.  The last two kinds ask static_order for annotations of their own, so they only occur in histories
# whose classes never change (history_resolve_case), where a memoised answer and a fresh one coincide.
# A class statement may name classes defined by a LATER step (forward references; every module starts with
# `from __future__ import annotations`).  The environment "as it is" at a call (LiveHistory.snapshot):
#   * a defined class all of whose member annotations name defined classes has its current members
#     (declared + annotated so far) -- typing.get_type_hints succeeds;
#   * a defined class one of whose annotations names a class not defined yet has the members the SIGNATURE
#     fall-back gives: dataclass -> every declared field as ForwardRef(<source text>, module=<its module>),
#     NamedTuple -> the same without module (what was put into its annotation table later: as put there),
#     TypedDict / plain class -> none.
# ----------------------------------------------------------------------------------
FUTURE = "from __future__ import annotations\n"


def cls_ids(d):
    return {s[1] for s in subterms(d) if s[0] == "cls"}


class LiveHistory:
    """The module of a history case, built step by step."""

    def __init__(self, case):
        ensure_enum_module()
        self.case = case
        self.source = {MOD_A: HEADER}
        self.mods = {MOD_A: impl.new_module(MOD_A, HEADER)}
        setattr(self.mods[MOD_A], MOD_A, self.mods[MOD_A])
        self.defined: list[int] = []
        self.declared = {c["id"]: list(c["fields"]) for c in case["classes"]}
        self.fields = {c["id"]: list(c["fields"]) for c in case["classes"]}
        self.form = {c["id"]: {f: "declared" for f, _ in c["fields"]} for c in case["classes"]}
        self.registry: dict = {}
        self.ambiguous: list = []
        for d in case.get("named", []):
            assert d[0] == "aliasstr" and d[1] == MOD_A, d      # the only named objects of a history case
            s = named_source(case, d)
            self.source[MOD_A] += s
            exec(compile(s, f"<verif:{MOD_A}>", "exec", dont_inherit=True), self.mods[MOD_A].__dict__)

    # -- steps --------------------------------------------------------------------
    def define(self, ids):
        s = class_source(self.case, MOD_A, only=ids)
        self.source[MOD_A] += s
        exec(compile(FUTURE + s, f"<verif:{MOD_A}>", "exec", dont_inherit=True), self.mods[MOD_A].__dict__)
        self.defined += [k for k in ids]
        for k in ids:       # the annotation texts the interpreter stored are the texts the model is given
            c = cls_by_id(self.case, k)
            if c["flavour"] in ("dataclass", "plainclass"):
                got = dict(vars(self.cls(k)).get("__annotations__", {}))
                want = {f: src(self.case, t, MOD_A) for f, t in c["fields"]}
                assert got == want, (got, want)

    def cls(self, k):
        return eval(cls_by_id(self.case, k)["qual"], self.mods[MOD_A].__dict__)

    def annotate(self, step):
        k, f, t = step["cls"], step["field"], step["type"]
        text = src(self.case, t, MOD_A)
        self.source[MOD_A] += f"{cls_by_id(self.case, k)['qual']}.__annotations__[{f!r}] = " + \
            (repr(text) if step["as"] == "text" else text) + "\n"
        self.cls(k).__annotations__[f] = text if step["as"] == "text" else self.obj(t)
        cur = self.fields[k]
        self.form[k][f] = step["as"]
        if any(g == f for g, _ in cur):
            self.fields[k] = [(g, t if g == f else u) for g, u in cur]
        else:
            self.fields[k] = cur + [(f, t)]

    # -- the environment as it is ----------------------------------------------------
    def resolved(self, k) -> bool:
        return all(j in self.defined for _, t in self.fields[k] for j in cls_ids(t))

    def members(self, k):
        if self.resolved(k):
            return list(self.fields[k])
        fl = cls_by_id(self.case, k)["flavour"]
        if fl == "dataclass":
            return [(f, ("ref", src(self.case, t, MOD_A), MOD_A)) for f, t in self.declared[k]]
        if fl == "namedtuple":
            # a NamedTuple's __annotations__ IS the annotation table of its __new__: the signature shows, for the
            # declared parameters, whatever the table holds now -- the class statement's ForwardRef (no module),
            # an object put there later as it is, a text put there later as a reference with the class's module
            cur = dict(self.fields[k])
            out = []
            for f, _ in self.declared[k]:
                how, t = self.form[k][f], cur[f]
                out.append((f, t if how == "object" else ("ref", src(self.case, t, MOD_A), None if how == "declared" else MOD_A)))
            return out
        return []

    def reaches_unresolved(self, root) -> bool:
        todo, seen = list(cls_ids(root)), set()
        while todo:
            k = todo.pop()
            if k in seen:
                continue
            seen.add(k)
            if not self.resolved(k):
                return True
            todo += [j for _, t in self.fields[k] for j in cls_ids(t)]
        return False

    def reaches_reannotated(self, root) -> bool:
        """does root reach a class, other than a plain class, whose annotation table was edited after the class
        statement?  (what its "fields" are is then ambiguous: dataclasses.fields / _fields / __required_keys__
        still say what the class statement said; for a plain class the table is the only definition there is)"""
        todo, seen = list(cls_ids(root)), set()
        while todo:
            k = todo.pop()
            if k in seen:
                continue
            seen.add(k)
            if cls_by_id(self.case, k)["flavour"] != "plainclass" and any(h != "declared" for h in self.form[k].values()):
                return True
            if self.resolved(k):
                todo += [j for _, t in self.fields[k] for j in cls_ids(t)]
        return False

    def snapshot(self, root, tag=""):
        """The ordinary (single call) case describing the environment at this moment; refreshes the registry."""
        classes = [dict(cls_by_id(self.case, k), fields=self.members(k)) for k in self.defined]
        snap = {"classes": classes, "named": list(self.case.get("named", [])), "root": root, "tag": tag or self.case["tag"]}
        self.registry = {}
        for d in universe(snap):
            try:
                o = self.obj(d)
                if o in self.registry and freeze(self.registry[o]) != freeze(d):
                    self.ambiguous.append((d, self.registry[o]))
                    continue
                self.registry[o] = d
            except TypeError:
                pass
        return snap

    obj = Live.obj
    describe = Live.describe


HIST_FLAVOURS = ["dataclass", "dataclass", "dataclass", "namedtuple", "typeddict", "plainclass"]


def hist_classes(n, mask, rng: random.Random, flavours=None):
    """n module-level classes of MOD_A; edge i->j iff bit i*n+j of mask (the member f<j> of class i)."""
    optspell = [rng.choice(["opt", "pipe_none"]) for _ in range(n)]
    classes = []
    for i in range(n):
        fl = flavours[i] if flavours else rng.choice(HIST_FLAVOURS)
        fields = []
        for j in range(n):
            if (mask >> (i * n + j)) & 1:
                fields.append((f"f{j}", wrap(rng.choice(EDGE_KINDS), ("cls", j), optspell[j])))
        r = rng.random()
        if r < 0.45 or not fields:
            fields.append(("s", rng.choice([INT, STR, ("s", "Decimal")])))
        if 0.45 <= r < 0.55:
            fields.append(("u", ("any",)))
        classes.append({"id": i, "module": MOD_A, "qual": f"C{i}", "flavour": fl, "fields": fields})
    return classes, optspell


def hist_root(rng, j, optspell, kinds=None):
    return wrap(rng.choice(kinds or ROOT_KINDS), ("cls", j), optspell[j])


def _fresh_calls(rng, defined, optspell, asked, k, fn_iter=0.0):
    """k calls on annotations over the defined classes, preferring ones not asked before"""
    out = []
    for _ in range(k):
        for _try in range(6):
            root = hist_root(rng, rng.choice(defined), optspell)
            if freeze(root) not in asked:
                break
        fn = "itertypes" if rng.random() < fn_iter else "static_order"
        if fn == "static_order":
            asked.add(freeze(root))
        out.append({"op": "call", "fn": fn, "root": root})
    return out


def history_late_case(n, mask, order, cut, prime_kind, rng: random.Random, flavours=None, prime_fn="static_order",
                      resolve=False):
    """Late definition: the classes order[:cut] are defined, ONE annotation over the first of them is asked
    (the priming call: it walks through classes whose referenced names may not exist yet), the rest is
    defined, then annotations NOT asked before are asked over every class -- as root and inside containers."""
    classes, optspell = hist_classes(n, mask, rng, flavours)
    asked: set = set()
    steps = [{"op": "define", "ids": list(order[:cut])}]
    prime = wrap(prime_kind, ("cls", order[0]), optspell[order[0]])
    steps.append({"op": "call", "fn": prime_fn, "root": prime})
    if prime_fn == "static_order":
        asked.add(freeze(prime))
    if cut < n:
        steps.append({"op": "define", "ids": list(order[cut:])})
    # afterwards: every class in a container not asked before, the primed class first; plus its plain form
    later = []
    for j in [order[0]] + [x for x in order if x != order[0]]:
        kinds = [k for k in ROOT_KINDS if freeze(wrap(k, ("cls", j), optspell[j])) not in asked]
        kinds = [k for k in kinds if k != "plain"] or kinds
        root = wrap(rng.choice(kinds), ("cls", j), optspell[j])
        asked.add(freeze(root))
        later.append({"op": "call", "fn": "static_order", "root": root})
    if resolve:      # a consumer resolves what it can of the deferred nodes it was handed, at either moment
        if rng.random() < 0.5:
            steps.insert(2, {"op": "resolve", "how": "evaluate"})
        k = rng.randrange(len(later) + 1)
        later.insert(k, {"op": "resolve", "how": "evaluate"})
    steps += later
    steps.append({"op": "call", "fn": rng.choice(["static_order", "itertypes"]), "root": ("cls", order[0])})
    last = [st for st in later if st["op"] == "call"][-1]["root"]
    return {"classes": classes, "named": [], "root": last, "history": steps,
            "tag": f"history-late:n{n}:m{mask}:o{''.join(map(str, order))}:c{cut}:{prime_kind}:{prime_fn}" + (":resolve" if resolve else "")}


def history_random_case(rng: random.Random, n: int):
    """Definitions in random stages, calls between them, members added to / retyped on classes already used."""
    mask = rng.randrange(1 << (n * n))
    classes, optspell = hist_classes(n, mask, rng)
    order = list(range(n))
    rng.shuffle(order)
    steps, defined, asked = [], [], set()
    fields = {c["id"]: [f for f, _ in c["fields"]] for c in classes}
    extra = 0
    pos = 0
    while pos < n:
        k = rng.choice([1, 1, 2, n])
        ids = order[pos:pos + k]
        pos += len(ids)
        steps.append({"op": "define", "ids": ids})
        defined += ids
        steps += _fresh_calls(rng, defined, optspell, asked, rng.choice([1, 1, 2]), fn_iter=0.2)
        if rng.random() < 0.3:      # a consumer resolves what it can of the deferred nodes it was handed
            steps.append({"op": "resolve", "how": "evaluate"})
        # a member registered on a class after its first use (sometimes naming a class defined later: text form)
        if rng.random() < 0.6:
            plain = [k for k in defined if classes[k]["flavour"] == "plainclass"]
            c = rng.choice(plain) if plain and rng.random() < 0.6 else rng.choice(defined)
            later_ok = rng.random() < 0.15
            j = rng.choice(range(n) if later_ok else defined)
            t = rng.choice([wrap(rng.choice(EDGE_KINDS), ("cls", j), optspell[j]), INT, ("gen", "list", [STR])])
            if fields[c] and rng.random() < 0.3:
                f = rng.choice(fields[c])           # another type for a member it already has
            else:
                f = f"a{extra}"
                extra += 1
                fields[c].append(f)
            how = "text" if (j not in defined or rng.random() < 0.5) else "object"
            steps.append({"op": "annotate", "cls": c, "field": f, "type": t, "as": how})
            steps += _fresh_calls(rng, defined, optspell, asked, rng.choice([1, 2]), fn_iter=0.15)
    steps += _fresh_calls(rng, defined, optspell, asked, rng.choice([1, 2, 3]), fn_iter=0.15)
    last = [s for s in steps if s["op"] == "call"][-1]["root"]
    return {"classes": classes, "named": [], "root": last, "history": steps, "tag": f"history-random:n{n}:m{mask}"}


def history_annotate_case(rng: random.Random, n: int):
    """Every class defined at once and used; then members are added / retyped; then NEW annotations are asked."""
    mask = rng.randrange(1 << (n * n))
    flavours = [rng.choice(HIST_FLAVOURS) for _ in range(n)]
    flavours[rng.randrange(n)] = "plainclass"       # e.g. a settings class plugins register options on
    classes, optspell = hist_classes(n, mask, rng, flavours)
    ids = list(range(n))
    plain = [i for i in ids if flavours[i] == "plainclass"]
    steps, asked = [{"op": "define", "ids": ids}], set()
    steps += _fresh_calls(rng, ids, optspell, asked, rng.choice([1, 2]), fn_iter=0.25)
    fields = {c["id"]: [f for f, _ in c["fields"]] for c in classes}
    for r in range(rng.choice([1, 1, 2])):
        c = rng.choice(plain) if rng.random() < 0.7 else rng.choice(ids)
        j = rng.choice(ids)
        t = rng.choice([wrap(rng.choice(EDGE_KINDS), ("cls", j), optspell[j]), INT, ("s", "UUID"),
                        ("gen", "dict", [STR, ("s", "float")])])
        if fields[c] and rng.random() < 0.3:
            f = rng.choice(fields[c])
        else:
            f = f"a{r}"
            fields[c].append(f)
        steps.append({"op": "annotate", "cls": c, "field": f, "type": t, "as": rng.choice(["text", "object"])})
        # the class just changed, inside a container not asked before, first
        kinds = [k for k in ROOT_KINDS[1:] if freeze(wrap(k, ("cls", c), optspell[c])) not in asked] or ROOT_KINDS[1:]
        root = wrap(rng.choice(kinds), ("cls", c), optspell[c])
        asked.add(freeze(root))
        steps.append({"op": "call", "fn": "static_order", "root": root})
        steps += _fresh_calls(rng, ids, optspell, asked, rng.choice([1, 2]), fn_iter=0.15)
    last = [s for s in steps if s["op"] == "call"][-1]["root"]
    return {"classes": classes, "named": [], "root": last, "history": steps, "tag": f"history-annotate:n{n}:m{mask}"}


def show_step(case, st) -> str:
    """one history step as the Python statement(s) it stands for (for replays and reports)"""
    if st["op"] == "define":
        return "define " + ", ".join(cls_by_id(case, k)["qual"] for k in st["ids"]) + ": " + \
            class_source(case, MOD_A, only=st["ids"]).replace("\n", "; ")
    if st["op"] == "annotate":
        text = src(case, st["type"], MOD_A)
        return f"{cls_by_id(case, st['cls'])['qual']}.__annotations__[{st['field']!r}] = " + \
            (repr(text) if st["as"] == "text" else text)
    if st["op"] == "resolve":
        if st["how"] == "evaluate":
            return "for every ForwardRef r in node.type / node.unwrapped of the sequences so far: refs.evaluate(r)"
        if st["how"] == "static_order-of-ref":
            return "for every ForwardRef r in node.type / node.unwrapped of the sequences so far: graph.static_order(r)"
        if st["how"] == "unmarshal":
            return f"typelib.unmarshal({src(case, st['root'], MOD_A)}, {st['value']!r})"
        return f"typelib.marshal({st['value']!r}, t={src(case, st['root'], MOD_A)})"
    return f"graph.{st['fn']}({src(case, st['root'], MOD_A)})"


# ----------------------------------------------------------------------------------
# two-level container edges (round 4): the member of class i that leads to class j is OUTER[INNER[Cj]], e.g.
# list[Optional[Cj]], dict[str, list[Cj]], tuple[Cj | None, ...].  The inner generic is an ARGUMENT node
# (var=None): the same graph node wherever it occurs, whatever the field that holds its container is called.
#   * inner[j] is (mostly) ONE container per target class, so that the classes referring to j share the argument node
#   * field names are the owner's own (`g<i>_<j>`) or the target's (`f<j>`, shared by every referring class: then
#     the outer container is the same NAMED node too), or differ only between the root's class and the others
#   * the outer container varies per edge
# ----------------------------------------------------------------------------------
INNER_KINDS = ["opt", "list", "dict", "tuplevar", "pipe_none"]
OUTER_KINDS = ["list", "dict", "tuplevar", "opt", "fixedtuple"]


def wrap2(outer, inner, x, optspell):
    a = wrap(inner, x, optspell)
    if outer in ("opt", "pipe_none"):
        # `Optional[Optional[X]]` flattens; an optional outer layer goes around a non-union inner one only
        if a[0] == "union":
            outer = "list"
        else:
            return ("union", "opt", [a, NONE]) if is_typing_form(a) or optspell == "opt" else ("union", "pipe", [a, NONE])
    return wrap(outer, a)


def deep_case(n, mask, rng: random.Random, root_cls, root_kind, naming=None):
    optspell = [rng.choice(["opt", "pipe_none"]) for _ in range(n)]
    inner = [rng.choice(INNER_KINDS) for _ in range(n)]
    naming = naming or rng.choice(["own", "own", "target", "root-differs"])
    classes = []
    for i in range(n):
        fl = rng.choice(["dataclass", "dataclass", "namedtuple", "typeddict", "plainclass"])
        fields = []
        for j in range(n):
            if not (mask >> (i * n + j)) & 1:
                continue
            ik = inner[j] if rng.random() < 0.85 else rng.choice(INNER_KINDS + ["plain"])
            ok = rng.choice(OUTER_KINDS)
            if ik == "plain":
                t = wrap(ok if ok != "fixedtuple" else "list", ("cls", j), optspell[j])
            else:
                t = wrap2(ok, ik, ("cls", j), optspell[j])
            if naming == "own":
                name = f"g{i}_{j}"
            elif naming == "target":
                name = f"f{j}"
            else:
                name = f"r{j}" if i == root_cls else f"f{j}"
            fields.append((name, t))
        if rng.random() < 0.25 or not fields:
            fields.append(("s", INT))
        classes.append({"id": i, "module": MOD_A, "qual": f"C{i}", "flavour": fl, "fields": fields})
    root = wrap(root_kind, ("cls", root_cls), optspell[root_cls])
    return {"classes": classes, "named": [], "root": root, "tag": f"deep:n{n}:m{mask}:r{root_cls}:{root_kind}:{naming}"}


# ----------------------------------------------------------------------------------
# resolve histories (round 4): nothing in the environment changes; between the calls a consumer RESOLVES deferred
# nodes (string-alias bodies, forward-reference nodes).  String-valued aliases: recursive JSON-like ones, ones over
# the case's classes, a chain alias -> alias; they occur as class members, as generic arguments and as roots.
# ----------------------------------------------------------------------------------
JSON_VALUES = [1, None, {"k": 1}, {"k": None}, {}, 0]      # no text, no lists: the union routines iterate those


def alias_text(rng: random.Random, name, classes, others):
    r = rng.random()
    if r < 0.4 or not classes:
        ms = rng.sample([f"dict[str, {name}]", f"list[{name}]", f"tuple[{name}, ...]", "int", "str", "float"], rng.randint(2, 4))
        if not any(name in m for m in ms):
            ms.insert(0, f"list[{name}]")
        return " | ".join(ms + ["None"]), True
    c = rng.choice(classes)["qual"]
    if r < 0.55:
        return c, False
    if r < 0.8:
        return rng.choice([f"list[{c}]", f"dict[str, {c}]", f"typing.Optional[{c}]", f"tuple[{c}, ...]"]), False
    if others and r < 0.9:
        return rng.choice([others[0], f"list[{others[0]}]"]), False
    return f"list[{c}] | None", False


def history_resolve_case(rng: random.Random, n: int):
    classes = [{"id": i, "module": MOD_A, "qual": f"C{i}", "flavour": rng.choice(HIST_FLAVOURS), "fields": []} for i in range(n)]
    optspell = [rng.choice(["opt", "pipe_none"]) for _ in range(n)]
    named, jsonlike = [], {}
    for k in range(rng.choice([1, 1, 2])):
        text, js = alias_text(rng, f"J{k}", classes, [d[2] for d in named])
        d = ("aliasstr", MOD_A, f"J{k}", text)
        named.append(d)
        jsonlike[d[2]] = js
    for i in range(n):
        for j in range(n):
            if rng.random() < 0.3:
                classes[i]["fields"].append((f"f{j}", wrap(rng.choice(EDGE_KINDS), ("cls", j), optspell[j])))
        for d in named:
            if rng.random() < 0.6:
                # NewType / alias objects turn `X | None` into typing.Optional[X] themselves
                classes[i]["fields"].append((f"j{d[2]}", wrap(rng.choice(["plain", "plain", "list", "dict", "opt", "tuplevar"]), d, "opt")))
        if not classes[i]["fields"] or rng.random() < 0.3:
            classes[i]["fields"].append(("s", rng.choice([INT, STR])))
    pool = [wrap(k, d, "opt") for d in named for k in ["plain", "list", "dict", "opt", "tuplevar", "fixedtuple"]]
    pool += [wrap(k, ("cls", i), optspell[i]) for i in range(n) for k in ROOT_KINDS]
    rng.shuffle(pool)
    alias_first = [r for r in pool if any(s[0] == "aliasstr" for s in subterms(r))]
    steps = [{"op": "define", "ids": list(range(n))}]
    asked: set = set()

    def call(root, fn="static_order"):
        if fn == "static_order":
            asked.add(freeze(root))
        steps.append({"op": "call", "fn": fn, "root": root})

    def fresh(prefer_alias):
        src_pool = (alias_first if prefer_alias and rng.random() < 0.8 else pool)
        cand = [r for r in src_pool if freeze(r) not in asked] or pool
        return rng.choice(cand)

    for _ in range(rng.choice([1, 2])):
        call(fresh(True), "itertypes" if rng.random() < 0.15 else "static_order")
    for _ in range(rng.choice([1, 1, 2])):
        how = rng.choice(["evaluate", "evaluate", "static_order-of-ref", "unmarshal", "marshal"])
        if how in ("unmarshal", "marshal"):
            js = [d for d in named if jsonlike[d[2]]]
            if js:
                d = rng.choice(js)
                kind = rng.choice(["plain", "list", "dict"])
                v = rng.choice(JSON_VALUES)
                steps.append({"op": "resolve", "how": how, "root": wrap(kind, d),
                              "value": v if kind == "plain" else [v] if kind == "list" else {"k": v}})
            else:
                steps.append({"op": "resolve", "how": "evaluate"})
        else:
            steps.append({"op": "resolve", "how": how})
        for _ in range(rng.choice([1, 2, 3])):
            call(fresh(True))
    last = [st for st in steps if st["op"] == "call"][-1]["root"]
    return {"classes": classes, "named": named, "root": last, "history": steps, "tag": f"history-resolve:n{n}:{rng.randrange(10 ** 6)}"}
