"""C09 -- descriptions of annotations / class graphs, from which BOTH the Python objects (synthesised
modules) and the Coq terms (gty / env) are produced, plus the case generators.

A type description is a tuple:
  ('s', name)  ('none',)  ('ell',)  ('any',)  ('lit', n)
  ('gen', g, [args])            g in GENS
  ('union', sp, [members])      sp in 'opt' (typing.Optional[X]; members [X, none]) | 'union' | 'pipe'
  ('cls', k)
  ('newtype', mod, name, body)  ('alias', mod, name, body)  ('aliasstr', mod, name, text)
  ('final', body)               ('ref', arg, module)
A case: {'classes': [{'id','module','qual','flavour','fields': [(fname, desc)]}], 'named': [desc...],
         'root': desc, 'tag': str}
"""
from __future__ import annotations

import itertools
import random

import impl

MOD_A, MOD_B = "vm_c09_a", "vm_c09_b"
ENUM_MOD = "verif_c09_enum"

SCALARS = {
    "int": ("SInt", "int"), "str": ("SStr", "str"), "float": ("SFloat", "float"), "bool": ("SBool", "bool"),
    "bytes": ("SBytes", "bytes"), "Decimal": ("SDecimal", "decimal.Decimal"),
    "datetime": ("SDatetime", "datetime.datetime"), "date": ("SDate", "datetime.date"),
    "UUID": ("SUuid", "uuid.UUID"), "Fraction": ("SFraction", "fractions.Fraction"),
    "PurePath": ("SPurePath", "pathlib.PurePath"), "Color": ("SEnum", ENUM_MOD + ".Color"),
}
STDLIB_SCALARS = ["int", "str", "float", "bool", "bytes", "Decimal", "datetime", "date", "UUID"]
OTHER_SCALARS = ["Fraction", "PurePath", "Color"]
GENS = {
    "list": "GList", "set": "GSet", "frozenset": "GFrozenset", "dict": "GDict", "tuple": "GTuple",
    "collections.deque": "GDeque", "typing.List": "GTList", "typing.Dict": "GTDict",
    "typing.Sequence": "GTSequence",
}
NONE = ("none",)
ELL = ("ell",)
INT = ("s", "int")
STR = ("s", "str")

HEADER = ("from __future__ import annotations\n"
          "import dataclasses, typing, collections, decimal, datetime, uuid, fractions, pathlib\n"
          "import %s\nfrom typelib.py import compat\n" % ENUM_MOD)


def ensure_enum_module():
    import sys
    if ENUM_MOD not in sys.modules:
        impl.new_module(ENUM_MOD, "import enum\nclass Color(enum.Enum):\n    RED = 1\n    BLUE = 2\n")


# ----------------------------------------------------------------------------------
# description -> Python source text / Coq term
# ----------------------------------------------------------------------------------

def cls_by_id(case, k):
    return next(c for c in case["classes"] if c["id"] == k)


def src(case, d, cur_mod) -> str:
    k = d[0]
    if k == "s":
        return SCALARS[d[1]][1]
    if k == "none":
        return "None"
    if k == "ell":
        return "..."
    if k == "any":
        return "typing.Any"
    if k == "lit":
        return f"typing.Literal[{d[1]}]"
    if k == "gen":
        return f"{d[1]}[{', '.join(src(case, a, cur_mod) for a in d[2])}]"
    if k == "union":
        if d[1] == "opt":
            return f"typing.Optional[{src(case, d[2][0], cur_mod)}]"
        if d[1] == "union":
            return f"typing.Union[{', '.join(src(case, a, cur_mod) for a in d[2])}]"
        return " | ".join(src(case, a, cur_mod) for a in d[2])
    if k == "cls":
        c = cls_by_id(case, d[1])
        return c["qual"] if c["module"] == cur_mod else f"{c['module']}.{c['qual']}"
    if k in ("newtype", "alias", "aliasstr"):
        return d[2] if d[1] == cur_mod else f"{d[1]}.{d[2]}"
    if k == "final":
        return f"typing.Final[{src(case, d[1], cur_mod)}]"
    if k == "ref":
        return d[1]          # the raw annotation text of an unresolvable member
    raise ValueError(d)


def cstr(s: str) -> str:
    assert all(32 <= ord(c) < 127 for c in s) and '"' not in s, s
    return '"' + s + '"'


def coq(d) -> str:
    k = d[0]
    if k == "s":
        return f"(GScalar {SCALARS[d[1]][0]})"
    if k == "none":
        return "GNone"
    if k == "ell":
        return "GEllipsis"
    if k == "any":
        return "GAny"
    if k == "lit":
        return f"(GLit {d[1]})"
    if k == "gen":
        return f"(GGen {GENS[d[1]]} [{'; '.join(coq(a) for a in d[2])}])"
    if k == "union":
        sp = {"opt": "UOptional", "union": "UUnion", "pipe": "UPipe"}[d[1]]
        return f"(GUnion {sp} [{'; '.join(coq(a) for a in d[2])}])"
    if k == "cls":
        return f"(GClass {d[1]})"
    if k == "newtype":
        return f"(GNewType {cstr(d[1])} {cstr(d[2])} {coq(d[3])})"
    if k == "alias":
        return f"(GAlias {cstr(d[1])} {cstr(d[2])} {coq(d[3])})"
    if k == "aliasstr":
        return f"(GAliasStr {cstr(d[1])} {cstr(d[2])} {cstr(d[3])})"
    if k == "final":
        return f"(GFinal {coq(d[1])})"
    if k == "ref":
        return f"(GRef {cstr(d[1])} {'None' if d[2] is None else '(Some ' + cstr(d[2]) + ')'})"
    raise ValueError(d)


def coq_env(case) -> str:
    items = []
    for c in case["classes"]:
        fields = "; ".join(f"({cstr(f)}, {coq(t)})" for f, t in c["fields"])
        items.append(f"({c['id']}, {{| cmodule := {cstr(c['module'])}; cqual := {cstr(c['qual'])}; "
                     f"cfields := [{fields}] |}})")
    return "[" + "; ".join(items) + "]" if items else "(@nil (cname * classdef))"


def freeze(d):
    if isinstance(d, (list, tuple)):
        return tuple(freeze(x) for x in d)
    return d


def subterms(d):
    yield d
    k = d[0]
    if k in ("gen", "union"):
        for a in d[2]:
            yield from subterms(a)
    elif k in ("newtype", "alias"):
        yield from subterms(d[3])
    elif k == "final":
        yield from subterms(d[1])


def universe(case):
    seen, out = set(), []
    roots = [case["root"]] + [t for c in case["classes"] for _, t in c["fields"]] + list(case.get("named", []))
    roots += [("cls", c["id"]) for c in case["classes"]]
    for r in roots:
        for s in subterms(r):
            f = freeze(s)
            if f not in seen:
                seen.add(f)
                out.append(s)
    return out


# ----------------------------------------------------------------------------------
# description -> live modules and objects
# ----------------------------------------------------------------------------------

def class_source(case, mod) -> str:
    """Source of all classes of one module; nested classes are grouped under their holder chain."""
    tree: dict = {}
    for c in case["classes"]:
        if c["module"] != mod:
            continue
        parts = c["qual"].split(".")
        node = tree
        for p in parts[:-1]:
            node = node.setdefault(p, {})
        node[parts[-1]] = c
    lines: list[str] = []

    def emit(name, node, ind):
        pad = "    " * ind
        if isinstance(node, dict) and "id" not in node:
            lines.append(f"{pad}class {name}:")
            lines.append(f"{pad}    pass")
            for n2, sub in node.items():
                emit(n2, sub, ind + 1)
            return
        c = node
        fl = c["flavour"]
        if fl == "dataclass":
            lines.append(f"{pad}@dataclasses.dataclass")
            lines.append(f"{pad}class {name}:")
        elif fl == "namedtuple":
            lines.append(f"{pad}class {name}(typing.NamedTuple):")
        elif fl == "typeddict":
            lines.append(f"{pad}class {name}(typing.TypedDict):")
        else:
            lines.append(f"{pad}class {name}:")
        if not c["fields"]:
            lines.append(f"{pad}    pass")
        for f, t in c["fields"]:
            lines.append(f"{pad}    {f}: {src(case, t, mod)}")

    for name, node in tree.items():
        emit(name, node, 0)
    return "\n".join(lines) + "\n"


def named_source(case, d) -> str:
    k, mod, name = d[0], d[1], d[2]
    if k == "newtype":
        return f"{name} = typing.NewType({name!r}, {src(case, d[3], mod)})\n"
    if k == "alias":
        return f"{name} = compat.TypeAliasType({name!r}, {src(case, d[3], mod)})\n"
    return f"{name} = compat.TypeAliasType({name!r}, {d[3]!r})\n"


class Live:
    """The synthesised modules of a case and the object of every description in its universe."""

    def __init__(self, case):
        ensure_enum_module()
        self.case = case
        mods = sorted({c["module"] for c in case["classes"]} | {d[1] for d in case.get("named", [])} | {MOD_A})
        self.source = {}
        self.mods = {}
        for m in mods:
            self.source[m] = HEADER + class_source(case, m)
            self.mods[m] = impl.new_module(m, self.source[m])
        for m in mods:
            for m2 in mods:
                setattr(self.mods[m], m2, self.mods[m2])
        for d in case.get("named", []):
            s = named_source(case, d)
            self.source[d[1]] += s
            exec(compile(s, f"<verif:{d[1]}>", "exec", dont_inherit=True), self.mods[d[1]].__dict__)
        self.registry = {}
        self.ambiguous = []
        for d in universe(case):
            o = self.obj(d)
            try:
                if o in self.registry and freeze(self.registry[o]) != freeze(d):
                    self.ambiguous.append((d, self.registry[o]))
                    continue
                self.registry[o] = d
            except TypeError:
                pass

    def obj(self, d):
        import typing
        if d[0] == "ref":
            return typing.ForwardRef(d[1], module=d[2])
        if d[0] == "ell":
            return Ellipsis
        if d[0] == "none":
            return type(None)
        return eval(src(self.case, d, MOD_A), self.mods[MOD_A].__dict__)

    def describe(self, o):
        """Python annotation object -> description (None when it is not an annotation of the case)."""
        import typing
        if o.__class__ is typing.ForwardRef:
            return ("ref", o.__forward_arg__, o.__forward_module__)
        if o is Ellipsis:
            return ELL
        try:
            return self.registry.get(o)
        except TypeError:
            return None


# ----------------------------------------------------------------------------------
# generators
# ----------------------------------------------------------------------------------
EDGE_KINDS = ["opt", "list", "dict", "tuplevar", "pipe_none", "plain"]
ROOT_KINDS = ["plain", "opt", "list", "dict", "tuplevar", "pipe_none", "fixedtuple"]


def wrap(kind, x, optspell="opt"):
    if kind in ("opt", "pipe_none"):
        kind = optspell if optspell != "keep" else kind
    if kind == "opt":
        return ("union", "opt", [x, NONE])
    if kind == "pipe_none":
        return ("union", "pipe", [x, NONE])
    if kind == "none_pipe":
        return ("union", "pipe", [NONE, x])
    if kind == "list":
        return ("gen", "list", [x])
    if kind == "dict":
        return ("gen", "dict", [STR, x])
    if kind == "tuplevar":
        return ("gen", "tuple", [x, ELL])
    if kind == "fixedtuple":
        return ("gen", "tuple", [x, INT])
    if kind == "plain":
        return x
    raise ValueError(kind)


def class_graph_case(n, mask, rng: random.Random, root_cls, root_kind, variant="plain"):
    """One case over n classes; edge i->j present iff bit i*n+j of mask."""
    # one spelling of "optional X" per target class within a case (predicates are cached on ==)
    optspell = [rng.choice(["opt", "pipe_none", "none_pipe"] if rng.random() < 0.25 else ["opt", "pipe_none"])
                for _ in range(n)]
    classes = []
    nest_twomod = variant == "twomod" and rng.random() < 0.4
    for i in range(n):
        module, qual, flav = MOD_A, f"C{i}", rng.choice(["dataclass", "dataclass", "namedtuple", "typeddict", "plainclass"])
        if variant == "nested":
            depth = rng.choice([1, 1, 2])
            qual = ".".join([f"Outer{i}", f"Mid{i}"][:depth] + [f"C{i}"])
            flav = rng.choice(["dataclass", "plainclass"])
        elif variant == "twomod":
            module = MOD_A if i % 2 == 0 else MOD_B
            qual = "Node" if i < 2 else f"C{i}"
            if nest_twomod and i < 2:
                qual = "Outer.Node"          # same qualified name, nested, in two modules
                flav = rng.choice(["dataclass", "plainclass"])
        elif rng.random() < 0.12:
            # nested classes are ordinary members of every stream
            qual = f"Outer{i}.C{i}"
            flav = rng.choice(["dataclass", "plainclass"])
        classes.append({"id": i, "module": module, "qual": qual, "flavour": flav, "fields": []})
    named = []
    # wrappers variant: most targets get ONE wrapped annotation shared by every class that refers to them
    # (same object under the same field name f<j>: the node identity (type, unwrapped, var) is shared)
    shared = {}
    if variant == "wrappers":
        for j in range(n):
            if rng.random() < 0.7:
                w = rng.choice(["newtype", "alias", "final", "aliasstr", "aliasstr_plain"])
                body = wrap(rng.choice(["list", "dict", "tuplevar", "plain", "list", "dict"]), ("cls", j))
                nm = f"S{j}"
                if w == "newtype":
                    t = ("newtype", MOD_A, nm, body); named.append(t)
                elif w == "alias":
                    t = ("alias", MOD_A, nm, body); named.append(t)
                elif w == "aliasstr":
                    t = ("aliasstr", MOD_A, nm, f"list[{classes[j]['qual']}]"); named.append(t)
                elif w == "aliasstr_plain":
                    t = ("aliasstr", MOD_A, nm, classes[j]["qual"]); named.append(t)
                else:
                    t = ("final", body)
                shared[j] = (w, t)
    for i in range(n):
        for j in range(n):
            if not (mask >> (i * n + j)) & 1:
                continue
            kind = rng.choice(EDGE_KINDS)
            target = ("cls", j)
            if j in shared and rng.random() < 0.85:
                w, target = shared[j]
                if w == "final":
                    classes[i]["flavour"] = "dataclass"
                    kind = "plain"
                elif rng.random() < 0.7:
                    kind = "plain"
            elif variant == "wrappers" and rng.random() < 0.4:
                w = rng.choice(["newtype", "alias", "aliasstr", "aliasstr_plain", "final"])
                nm = f"W{i}{j}"
                if w == "newtype":
                    target = ("newtype", MOD_A, nm, ("cls", j)); named.append(target)
                elif w == "alias":
                    target = ("alias", MOD_A, nm, wrap(rng.choice(["list", "plain", "dict"]), ("cls", j))); named.append(target)
                elif w == "aliasstr":
                    target = ("aliasstr", MOD_A, nm, f"list[{classes[j]['qual']}]"); named.append(target)
                elif w == "aliasstr_plain":
                    target = ("aliasstr", MOD_A, nm, classes[j]["qual"]); named.append(target)
                else:
                    target = ("final", ("cls", j))
                    classes[i]["flavour"] = "dataclass"
                    kind = "plain"
            sp = optspell[j]
            if target[0] != "cls":
                sp = "opt"      # NewType / alias objects turn `X | None` into typing.Optional[X] themselves
            t = wrap(kind, target, sp)
            classes[i]["fields"].append((f"f{j}", t))
        r = rng.random()
        if r < 0.3:
            classes[i]["fields"].append(("s", INT))
        if r < 0.12:
            classes[i]["fields"].append(("t", INT))
        if 0.3 <= r < 0.36:
            classes[i]["fields"].append(("u", ("any",)))
    root = wrap(root_kind, ("cls", root_cls), optspell[root_cls])
    if variant == "wrappers" and rng.random() < 0.5:
        w = rng.choice(["newtype", "alias", "final", "aliasstr"])
        if w == "newtype":
            root = ("newtype", MOD_A, "RootNT", ("cls", root_cls)); named.append(root)
        elif w == "alias":
            root = ("alias", MOD_A, "RootAL", root); named.append(root)
        elif w == "aliasstr":
            root = ("aliasstr", MOD_A, "RootSA", classes[root_cls]["qual"]); named.append(root)
        else:
            root = ("final", ("cls", root_cls))
    return {"classes": classes, "named": named, "root": root,
            "tag": f"{variant}:n{n}:m{mask}:r{root_cls}:{root_kind}"}


def rand_type(rng: random.Random, depth: int, used_opt: dict):
    """random non-class annotation"""
    r = rng.random()
    if depth <= 0 or r < 0.3:
        r2 = rng.random()
        if r2 < 0.7:
            return ("s", rng.choice(STDLIB_SCALARS))
        if r2 < 0.85:
            return ("s", rng.choice(OTHER_SCALARS))
        if r2 < 0.9:
            return ("lit", rng.randint(0, 3))
        return ("any",)
    if r < 0.6:
        g = rng.choice(["list", "set", "frozenset", "collections.deque", "typing.List", "typing.Sequence"])
        return ("gen", g, [rand_type(rng, depth - 1, used_opt)])
    if r < 0.72:
        g = rng.choice(["dict", "typing.Dict"])
        return ("gen", g, [("s", rng.choice(["str", "int"])), rand_type(rng, depth - 1, used_opt)])
    if r < 0.8:
        return ("gen", "tuple", [rand_type(rng, depth - 1, used_opt), ELL])
    if r < 0.9:
        return ("gen", "tuple", [rand_type(rng, depth - 1, used_opt) for _ in range(rng.randint(1, 3))])
    # unions: members are distinct non-union types; one spelling per member set
    k = rng.randint(1, 3)
    ms, seen = [], set()
    for _ in range(k):
        m = rand_type(rng, depth - 1, used_opt)
        if m[0] in ("union", "none", "any") or freeze(m) in seen:
            continue
        seen.add(freeze(m)); ms.append(m)
    if not ms:
        ms = [INT]
    sp = rng.choice(["opt", "pipe_none", "union", "pipe"])
    has_none = len(ms) == 1 or sp in ("opt", "pipe_none")
    key = (frozenset(freeze(m) for m in ms), has_none)
    if key in used_opt:
        return used_opt[key]
    typing_form = any(is_typing_form(m) for m in ms)
    if has_none:
        if len(ms) == 1 and (sp == "opt" or typing_form):
            d = ("union", "opt", [ms[0], NONE])
        elif typing_form:
            d = ("union", "union", ms + [NONE])
        else:
            d = ("union", "pipe", ms + [NONE])
    elif sp == "union" or typing_form:
        d = ("union", "union", ms)
    else:
        d = ("union", "pipe", ms)
    used_opt[key] = d
    return d


def is_typing_form(d) -> bool:
    """objects whose `|` operator builds typing.Union instead of types.UnionType"""
    return d[0] in ("lit", "any", "final", "newtype", "alias", "aliasstr") or \
        (d[0] == "gen" and d[1].startswith("typing.")) or (d[0] == "union" and d[1] != "pipe")


def random_case(rng: random.Random, depth=3):
    return {"classes": [], "named": [], "root": rand_type(rng, depth, {}), "tag": "random"}


def topologies(n):
    return range(1 << (n * n))


# ----------------------------------------------------------------------------------
# wrapper chains (alias of alias, alias of NewType, NewType of alias, Final of alias of NewType ...)
# ----------------------------------------------------------------------------------

def mkchain(rng: random.Random, base, prefix: str, named: list, allow_final: bool):
    """2-3 wrapper layers around base, in a random alternation; Final only as the outermost layer."""
    length = rng.choice([2, 2, 3])
    d = base
    for k in range(length):
        last = k == length - 1
        kind = rng.choice(["newtype", "alias", "alias"] + (["final"] if (last and allow_final) else []))
        if kind == "final":
            d = ("final", d)
        else:
            d = (kind, MOD_A, f"{prefix}{k}", d)
            named.append(d)
    return d


def chain_case(rng: random.Random, n: int):
    """classes with members; every edge goes through a wrapper chain, used as a member, as a generic
    argument, or (Final outermost) as a qualified member; the root is a chain, a class or a container"""
    mask = rng.randrange(1, 1 << (n * n))
    classes = [{"id": i, "module": MOD_A, "qual": f"C{i}", "flavour": "dataclass", "fields": [("s", INT)]} for i in range(n)]
    named: list = []
    shared = {}
    for j in range(n):
        if rng.random() < 0.6:
            base = wrap(rng.choice(["plain", "plain", "list", "dict"]), ("cls", j))
            shared[j] = mkchain(rng, base, f"S{j}x", named, False)
    for i in range(n):
        for j in range(n):
            if not (mask >> (i * n + j)) & 1:
                continue
            if j in shared and rng.random() < 0.8:
                w = shared[j]
            else:
                base = wrap(rng.choice(["plain", "plain", "list", "dict", "tuplevar"]), ("cls", j))
                w = mkchain(rng, base, f"W{i}{j}x", named, False)
            pos = rng.choice(["member", "member", "list", "dict", "opt", "tuplevar", "final"])
            if pos == "member":
                t = w
            elif pos == "final":
                t = ("final", w)
            else:
                t = wrap(pos, w, "opt")
            classes[i]["fields"].append((f"f{j}", t))
    r = rng.randrange(n)
    rk = rng.choice(["chain", "chain", "chainfinal", "cls", "list_of_chain", "shared"])
    if rk == "cls":
        root = ("cls", r)
    elif rk == "shared" and shared:
        root = shared[rng.choice(sorted(shared))]
    elif rk == "list_of_chain":
        root = ("gen", "list", [mkchain(rng, ("cls", r), "Rx", named, False)])
    else:
        root = mkchain(rng, wrap(rng.choice(["plain", "plain", "list"]), ("cls", r)), "Rx", named, rk == "chainfinal")
    return {"classes": classes, "named": named, "root": root, "tag": f"chains:n{n}:m{mask}:{rk}"}


# ----------------------------------------------------------------------------------
# unresolvable hints: typing.get_type_hints raises NameError, so EVERY member of the class comes from the
# signature as ForwardRef(text, module=<class module>) and is walked unevaluated
# ----------------------------------------------------------------------------------

def unresolvable_case(rng: random.Random):
    texts = ["Zed", "Zed", rng.choice(["Zed", "Yod", "list[Zed]"]), rng.choice(["int", "C1", "Zed", "dict[str, Zed]"])]
    names = ["x", "y", "z", "w"][: rng.randint(2, 4)]
    a = {"id": 0, "module": MOD_A, "qual": "C0", "flavour": "dataclass",
         "fields": [(nm, ("ref", texts[i], MOD_A)) for i, nm in enumerate(names)]}
    b = {"id": 1, "module": MOD_A, "qual": "C1", "flavour": "dataclass",
         "fields": [("f0", wrap(rng.choice(["plain", "list", "opt"]), ("cls", 0), "opt")), ("s", INT)]}
    root = rng.choice([("cls", 0), ("cls", 1), ("gen", "list", [("cls", 0)]), ("gen", "dict", [STR, ("cls", 1)])])
    return {"classes": [a, b], "named": [], "root": root, "tag": "unresolvable"}
