"""C15, round 3: rebuild histories in which only SOME caches are cleared.

Statement: "Construction is repeatable: building again, or after clearing caches, yields the same behaviour."
The oracle of props/c15.py rebuilt only after `impl.clear_caches()`, which clears EVERY cache it can discover by
reflection -- including one a change has just added.  A memo that holds a stale or single-use object (a consumed
graphlib.TopologicalSorter, an exhausted generator, a routine bound to a dropped context) is invisible to that.

History stream (replay = annotation + names of the caches that were cleared + inputs):

    clear everything (fresh state) -> build marshaller / unmarshaller / codec, observe them on the inputs
    -> cache_clear() exactly the caches of the history -> build again, observe -> same construction outcome and
    same behaviour as the first build.

Histories: every subset of the PUBLIC construction caches (the cached callables exported by `typelib`, and by
`__all__` of typelib.graph / marshals / unmarshals / codecs: marshaller, unmarshaller, codec, graph.static_order, and
graph.itertypes / get_type_graph if a tree caches them), each discoverable cache alone, and everything except one
discoverable cache.  The empty subset is "building again".

Reading of "after clearing caches" (ambiguous: all of them or some of them): any of the cache_clear() hooks the
library exposes may be used on its own -- that is what a user who follows the static_order docstring does.  On /repo
HEAD every such history rebuilds to the same behaviour, so the reading costs the code nothing.
"""
from __future__ import annotations

import itertools
import sys
import warnings

import impl

PUBLIC_MODULES = ["typelib", "typelib.graph", "typelib.marshals", "typelib.unmarshals", "typelib.codecs"]

# annotations of the extended grammar the histories are run on (source evaluated in HIST_PRELUDE after
# universe.PRELUDE), each with inputs given as source text
HIST_PRELUDE = (
    "@dataclasses.dataclass\nclass HPoint:\n    x: int\n    y: typing.Any = None\n"
    "@dataclasses.dataclass\nclass HNode:\n    v: int\n    nxt: typing.Optional['HNode'] = None\n"
    "@dataclasses.dataclass\nclass HA:\n    b: typing.Optional['HB'] = None\n"
    "@dataclasses.dataclass\nclass HB:\n    a: typing.Optional[HA] = None\n    t: tuple[int, ...] = ()\n"
    "def hfn(x: int) -> str:\n    return str(x)\n"
)
CATALOGUE = [
    ("int", ["'1'", "1", "'x'"]),
    ("typing.Any", ["{'k': [1, '2']}"]),
    ("XT", ["['x', 1]"]),
    ("XTC", ["'5'", "'x'"]),
    ("list[typing.Any]", ["['1', 2, None]", "'[1]'"]),
    ("dict[str, tuple[int, ...]]", ["{'a': ['1', '2']}", "'{\"a\": [1]}'"]),
    ("tuple[tuple[int, ...], tuple[int, ...]]", ["(['1'], ['2', '3'])"]),
    ("tuple[list[tuple[int, ...]], tuple[int, ...]]", ["([['3'], ['4', '5']], ['1', '2'])"]),
    ("list[typing.Callable[[int], str]]", ["[hfn]"]),
    ("typing.Union[int, str]", ["'5'", "'x'"]),
    ("XG", ["{'v': '1'}", "XG(1)"]),
    ("XG[int]", ["{'v': '1'}"]),
    ("XNoAnn", ["{'a': '1', 'b': [2]}"]),
    ("typing.Optional[HPoint]", ["{'x': '1', 'y': hfn}", "None"]),
    ("HNode", ["{'v': '1', 'nxt': {'v': '2', 'nxt': {'v': 3}}}", "HNode(1, HNode(2))"]),
    ("HA", ["{'b': {'a': {'b': None}, 't': ['1']}}"]),
]


def named_caches():
    """[(name, object)] for every distinct discoverable cache; name = 'module:attribute', the defining module's
    attribute when there is one (so that a replay finds the same object in another tree)"""
    found = {}
    for mod in impl.typelib_modules():
        for name, obj in list(vars(mod).items()):
            if hasattr(obj, "cache_clear") and callable(getattr(obj, "cache_clear")):
                found.setdefault(id(obj), (obj, []))[1].append(f"{mod.__name__}:{name}")
            if isinstance(obj, type) and getattr(obj, "__module__", "").startswith("typelib"):
                for n2, o2 in list(vars(obj).items()):
                    if hasattr(o2, "cache_clear"):
                        found.setdefault(id(o2), (o2, []))[1].append(f"{mod.__name__}:{name}.{n2}")
    out = []
    for obj, names in found.values():
        home = f"{getattr(obj, '__module__', None)}:{getattr(obj, '__name__', None)}"
        out.append((home if home in names else sorted(names, key=lambda s: (len(s), s))[0], obj))
    return sorted(out, key=lambda p: p[0])


def resolve(name):
    modname, _, attr = name.partition(":")
    obj = sys.modules.get(modname)
    if obj is None:
        try:
            import importlib
            obj = importlib.import_module(modname)
        except Exception:
            return None
    for part in attr.split("."):
        obj = getattr(obj, part, None)
        if obj is None:
            return None
    return obj if hasattr(obj, "cache_clear") else None


def public_caches(named):
    """the construction caches a user of the library can name: exported by the package or by __all__ of the
    graph / marshals / unmarshals / codecs modules"""
    by_id = {id(o): n for n, o in named}
    out = []
    for modname in PUBLIC_MODULES:
        mod = sys.modules.get(modname)
        if mod is None:
            continue
        names = list(vars(mod)) if modname == "typelib" else list(getattr(mod, "__all__", ()))
        for attr in names:
            obj = getattr(mod, attr, None)
            if id(obj) in by_id and by_id[id(obj)] not in out:
                out.append(by_id[id(obj)])
    return out


def histories(named):
    """[(family, (cache names))]"""
    pub = public_caches(named)
    allnames = [n for n, _ in named]
    out = []
    for r in range(len(pub) + 1):
        for sub in itertools.combinations(pub, r):
            out.append(("public-subset", tuple(sub)))
    for n in allnames:
        out.append(("single", (n,)))
    for n in allnames:
        out.append(("all-but-one", tuple(x for x in allnames if x != n)))
    return out, pub


def observe(t, inputs):
    """build the three routines and apply them; nothing here may raise"""
    from typelib import codec, marshals, unmarshals
    out = {"construct": {}, "behaviour": []}
    built = {}
    with warnings.catch_warnings():
        warnings.simplefilter("ignore")
        for name, f in (("unmarshaller", unmarshals.unmarshaller), ("marshaller", marshals.marshaller), ("codec", codec)):
            try:
                built[name] = f(t)
                out["construct"][name] = "ok"
            except RecursionError:
                out["construct"][name] = "RecursionError"
            except BaseException as e:  # noqa: BLE001
                out["construct"][name] = f"{type(e).__name__}: {str(e)[:80]}"
        for i, x in enumerate(inputs):
            for name, call in (("unmarshaller", lambda r, v: r(v)), ("marshaller", lambda r, v: r(v)),
                               ("codec", lambda r, v: r.unmarshal(v))):
                if name not in built:
                    continue
                try:
                    out["behaviour"].append((name, i, ("ok", call(built[name], x))))
                except RecursionError:
                    out["behaviour"].append((name, i, ("raise", "RecursionError")))
                except BaseException as e:  # noqa: BLE001
                    out["behaviour"].append((name, i, ("raise", type(e).__name__)))
    return out


def differences(first, second, same):
    """why the second observation is not the behaviour of the first (empty = repeatable)"""
    out = []
    for name, r in first["construct"].items():
        r2 = second["construct"].get(name)
        if r == "ok" and r2 != "ok":
            out.append(("construction", f"{name}: {r2}", "constructed"))
    b2 = {(n, i): o for n, i, o in second["behaviour"]}
    for n, i, o in first["behaviour"]:
        o2 = b2.get((n, i))
        if o2 is None:
            continue
        if o[0] != o2[0] or (o[0] == "raise" and o[1] != o2[1]) or (
                o[0] == "ok" and not (same(o[1], o2[1]) or repr(o[1]) == repr(o2[1]))):
            out.append(("behaviour", f"{n} on input #{i}: {o2[0]} {repr(o2[1])[:120]}", f"{o[0]} {repr(o[1])[:120]}"))
    return out


def run_history(t, inputs, cleared, same):
    impl.clear_caches()                     # fresh state
    first = observe(t, inputs)
    for c in cleared:
        c.cache_clear()
    second = observe(t, inputs)
    impl.clear_caches()
    return first, differences(first, second, same)


# ---- neighbour-first histories: a RELATED annotation is built before the one under observation -----------------------
# "Construction is repeatable" quantifies over what the process built before: the behaviour of T must not depend on a
# parameterised / bare / wrapped / containing relative of T having been built first (seeded change C15-r7m1: hints memo
# written through Box[int] onto the bare class Box).  (first, observed, inputs of observed)
NEIGHBOURS = [
    ("XG[int]", "XG", ["{'v': '1'}", "XG(1)"]),
    ("XG", "XG[int]", ["{'v': '1'}"]),
    ("XGD[int]", "XGD", ["{'v': '1'}", "XGD(1)"]),
    ("XGD", "XGD[int]", ["{'v': '1'}"]),
    ("XGD[str]", "XGD[int]", ["{'v': '1'}"]),
    ("list[XGD[int]]", "XGD", ["{'v': '1'}"]),
    ("dict[str, XG[str]]", "XG", ["{'v': 1}"]),
    ("typing.Optional[XGD[int]]", "list[XGD]", ["[{'v': '1'}]"]),
    ("list[HPoint]", "HPoint", ["{'x': '1', 'y': [1]}"]),
    ("HPoint", "typing.Optional[HPoint]", ["{'x': '1'}", "None"]),
    ("HB", "HA", ["{'b': {'a': {'b': None}, 't': ['1']}}"]),
    ("HA", "HB", ["{'a': {'b': None}, 't': ['1', 2]}"]),
    ("tuple[int, ...]", "tuple[tuple[int, ...], tuple[int, ...]]", ["(['1'], ['2', '3'])"]),
    ("list[typing.Any]", "tuple[int, typing.Any]", ["('1', [2])"]),
    ("XT", "list[XT]", ["['x', 1]"]),
    ("XNoAnn", "list[XNoAnn]", ["[{'a': '1', 'b': [2]}]"]),
    ("typing.Final[XGD[int]]", "XGD", ["{'v': '1'}"]),
]


def run_neighbour_history(first_t, t, inputs, clear_between, same):
    impl.clear_caches()
    alone = observe(t, inputs)                  # T built in a fresh state
    impl.clear_caches()
    observe(first_t, [])                        # the relative is built first
    if clear_between:
        for f in impl.cached_functions():       # every cache_clear() hook there is: what survives is not a cache
            try:
                f.cache_clear()
            except Exception:  # noqa: BLE001
                pass
    after = observe(t, inputs)
    impl.clear_caches()
    return alone, differences(alone, after, same)


def neighbour_stream(mod, src, stats, same):
    fails, n = [], 0
    for first_src, ann, ins in NEIGHBOURS:
        try:
            first_t, t = eval(first_src, mod.__dict__), eval(ann, mod.__dict__)
            inputs = [eval(x, mod.__dict__) for x in ins]
        except Exception:  # noqa: BLE001
            continue
        for clear_between in (False, True):
            n += 1
            stats["evaluations"] += 1
            alone, diffs = run_neighbour_history(first_t, t, inputs, clear_between, same)
            if all(v == "ok" for v in alone["construct"].values()):
                stats["nontrivial"] += 1
            if diffs:
                f = failure(ann, src, ins, "neighbour-first", ["<all>"] if clear_between else [], diffs)
                f["built_first"] = first_src
                f["clear_between"] = clear_between
                f["symptom"] = ("after a related annotation was built first (%s%s) " % (
                    first_src, ", then every cache cleared" if clear_between else "")) + f["symptom"]
                f["key"] = f"C15-history-neighbour-{first_src}-{ann}"
                fails.append(f)
    return fails, n


def failure(ann, module_source, inputs_src, family, names, diffs):
    kind = diffs[0][0]
    return {"symptom": ("construction is not repeatable after clearing some of the caches" if kind == "construction"
                        else "a rebuild after clearing some of the caches changes the behaviour"),
            "category": "rebuild-history", "annotation": ann, "module_source": module_source,
            "inputs_src": inputs_src, "history": family, "cleared": list(names),
            "got": diffs[0][1], "expected": diffs[0][2],
            "key": f"C15-history-{family}-{ann}"}


def replay(payload, prelude):
    """the history of a replay file on the tree under test; caches the tree does not have are skipped"""
    import coreprop
    src = payload.get("module_source") or prelude
    mod = impl.new_module("verif_c15_hist_replay", src)
    try:
        t = eval(payload["annotation"], mod.__dict__)
        inputs = [eval(s, mod.__dict__) for s in payload.get("inputs_src", [])]
        if payload.get("built_first"):
            alone, diffs = run_neighbour_history(eval(payload["built_first"], mod.__dict__), t, inputs,
                                                 bool(payload.get("clear_between")), coreprop.same)
            return {"fails": bool(diffs), "got": [d[1] for d in diffs], "expected": [d[2] for d in diffs]}
        cleared = [c for c in (resolve(n) for n in payload["cleared"]) if c is not None]
        first, diffs = run_history(t, inputs, cleared, coreprop.same)
        return {"fails": bool(diffs), "got": [d[1] for d in diffs], "expected": [d[2] for d in diffs],
                "caches_missing_in_this_tree": [n for n in payload["cleared"] if resolve(n) is None]}
    finally:
        impl.drop_module("verif_c15_hist_replay")


def stream(run, records, prelude, stats):
    """the history stream of the oracle"""
    import coreprop
    import universe
    named = named_caches()
    byname = dict(named)
    hists, pub = histories(named)
    fails = []
    counts = {"caches": len(named), "public": pub, "histories": len(hists), "runs": 0, "annotations": 0}
    src = prelude + HIST_PRELUDE
    mod = impl.new_module("verif_c15_hist", src)
    try:
        items = []
        for ann, ins in CATALOGUE:
            try:
                items.append((ann, src, eval(ann, mod.__dict__), ins, [eval(s, mod.__dict__) for s in ins]))
            except Exception as e:  # noqa: BLE001
                run.notes.append(f"history catalogue: {ann} not evaluated: {e!r}")
        # generated annotations with the inputs of their records (those whose repr evaluates back in the module)
        rng = run.rng
        for rec in rng.sample(records, min(len(records), run.budget(24, 400))):
            g = rec.group
            ins = []
            for _, x, _ in rec.inputs[:3]:
                try:
                    back = eval(repr(x), g.mod.__dict__)
                except Exception:  # noqa: BLE001
                    continue
                if coreprop.same(back, x):
                    ins.append(repr(x))
            items.append((universe.src_ty(rec.tdesc, g.env), g.src, rec.pytype, ins,
                          [eval(s, g.mod.__dict__) for s in ins]))
        counts["annotations"] = len(items)
        singles = [h for h in hists if h[0] != "public-subset"]
        for ai, (ann, msrc, t, ins_src, ins) in enumerate(items):
            # every annotation: all subsets of the public caches; the single / all-but-one families walk round
            # the annotations (every family member is run on several annotations, every annotation sees several)
            todo = [h for h in hists if h[0] == "public-subset"]
            per = run.budget(12, 40)
            if ai < len(CATALOGUE):         # every member of the two families on three catalogue annotations
                nc = len(CATALOGUE)
                todo += [h for k, h in enumerate(singles) if k % nc in (ai, (ai + 5) % nc, (ai + 11) % nc)]
            else:
                todo += [singles[(ai * per + k) % len(singles)] for k in range(per)]
            for family, names in todo:
                counts["runs"] += 1
                stats["evaluations"] += 1
                first, diffs = run_history(t, ins, [byname[n] for n in names], coreprop.same)
                if all(v == "ok" for v in first["construct"].values()):
                    stats["nontrivial"] += 1
                if diffs:
                    fails.append(failure(ann, msrc, ins_src, family, names, diffs))
        nf, nn = neighbour_stream(mod, src, stats, coreprop.same)
        fails += nf
        counts["neighbour_first_histories"] = nn
    finally:
        impl.drop_module("verif_c15_hist")
    return fails, counts
