"""Dispatch bridge (WP-A): ties Model/Dispatch.v to marshals/api.py and unmarshals/api.py on every run.

`obligations(run)` does, in this order,

  1. *translate*: both `_HANDLERS` tables are re-read from /repo and written as GenHandlers.v
       - the SOURCE of `unmarshals/api.py` / `marshals/api.py` is parsed with `ast`: each dict key must be
         `inspection.X` (-> PName "X") or `lambda t: inspection.A(t) and inspection.B(t) [and ...]` (-> PAnd ..);
         each value `routines.C` or a class of the api module itself; anything else fails closed.  The shape of
         `_get_unmarshaller` (cyclic -> Delayed*, context hit, `for check, cls in _HANDLERS.items(): if
         check(node.unwrapped): return cls(node.unwrapped, ...)`, fallback class) is checked on the AST as well;
       - cross-check against the LIVE module: same number of rows, the i-th value is the object the written name is
         bound to, a plain key IS `inspection.X`, a lambda key is a lambda whose code names exactly
         (`inspection`, A, B) and sits on the parsed source line;
       - `rc_impl`: written class name -> `__name__` of the class an instance has (`typing.get_origin(v) or v`).
  2. *tables*: the inspection tables of C17 (class lattice, GENERIC_TYPE_MAP, _UNRESOLVABLE, ...) are regenerated
     with C17's own writer (`props/c17.py: reflect_tables`) into this run's build dir (GenInspectTables.v).
  3. *theorems*: coq/dyn/Dispatch/Dispatch.v is compiled against both (dispatch theorems, pairing, refutations).
  4. *correspondence* `dispatch-root`: for the catalogue of C17 plus parameterised collections of its members,
     `type(unmarshaller(T)).__name__` / `type(marshaller(T)).__name__` on /repo vs `dispatch_root` in Coq;
     `dispatch-node`: `_get_unmarshaller(TypeNode(T, unwrap(T)), ctx)` / the marshal twin called directly with a
     context that answers every lookup (so forward references and members are dispatched as nodes) vs `dispatch`;
     `dispatch-root-spec` / `dispatch-node-spec`: the CONCLUSION of the theorems against the same observations: for
     every case inside the supported grammar (`supported`, decided in Coq) the observed classes are
     expected_u / expected_m of the head kind; a mismatch is a failing input (`search(run)`, `replay(payload)`).
  5. *two descriptions* `dispatch-core-heads` (`core_heads`): for generated universe modules (the caller's own
     coremodel groups when given) every annotation is described as the Core `ty` of the core harness and as the `ity`
     of the catalogue; the class lattice is re-reflected with the generated classes, the finite check is re-decided
     for it (DispatchX_ok), `construct_matches_dispatch` is instantiated (DispatchX_construct) and Coq decides its
     hypothesis `heads_agree` per annotation: the case Build.construct takes is the class the code's dispatch picks.

Called from the property modules (C05, C15, C01, C17); everything is recorded on the given `run`.
"""
from __future__ import annotations

import ast
import os
import re
import sys
import warnings

import impl
import lib
from lib import coq_list, coq_string

_HERE = os.path.dirname(os.path.abspath(__file__))
if os.path.join(_HERE, "props") not in sys.path:
    sys.path.insert(0, os.path.join(_HERE, "props"))

COQ_TARGETS = ["theories/Model/Inspect.vo", "theories/Model/InspectSpec.vo", "theories/Proofs/InspectLemmas.vo",
               "theories/Model/Core.vo", "theories/Model/Build.vo",
               "theories/Model/Dispatch.vo", "theories/Model/DispatchEq.vo", "theories/Proofs/DispatchLemmas.vo"]

THEOREMS = [
    "Dispatch_tables_ok", "Dispatch_handlers_ok",
    "Dispatch_unmarshal", "Dispatch_marshal", "Dispatch_pairs", "Dispatch_universe", "Dispatch_grammar",
    "Dispatch_wrap_tables_ok", "Dispatch_wrapped", "Dispatch_everywhere", "Dispatch_construct",
    "Dispatch_refuted_date_before_datetime", "Dispatch_refuted_mapping_after_iterable",
    "Dispatch_refuted_enum_after_scalars", "Dispatch_refuted_unsupported_pair", "Dispatch_refuted_guards",
]

SIDES = {
    "unm": ("unmarshals", "_get_unmarshaller", "DelayedUnmarshaller"),
    "mar": ("marshals", "_get_unmarshaller", "DelayedMarshaller"),
}


# ----------------------------------------------------------------------------------
# 1. translator: source (ast) + live module -> GenHandlers.v
# ----------------------------------------------------------------------------------

class Closed(Exception):
    """the source is outside what the translator understands: fail closed"""


def _is_attr(node, base, attr=None):
    return (isinstance(node, ast.Attribute) and isinstance(node.value, ast.Name) and node.value.id == base
            and (attr is None or node.attr == attr))


def _key(node):
    """dict key -> ('name', X) | ('and', [X1, X2, ...], lineno)"""
    if _is_attr(node, "inspection"):
        return ("name", node.attr)
    if isinstance(node, ast.Lambda):
        a = node.args
        if (len(a.args) != 1 or a.vararg or a.kwarg or a.kwonlyargs or a.posonlyargs or a.defaults):
            raise Closed(f"line {node.lineno}: lambda key with other than one plain parameter")
        var = a.args[0].arg
        body = node.body
        if not (isinstance(body, ast.BoolOp) and isinstance(body.op, ast.And)):
            raise Closed(f"line {node.lineno}: lambda key whose body is not a conjunction")
        names = []
        for v in body.values:
            if not (isinstance(v, ast.Call) and _is_attr(v.func, "inspection") and len(v.args) == 1 and not v.keywords
                    and isinstance(v.args[0], ast.Name) and v.args[0].id == var):
                raise Closed(f"line {node.lineno}: conjunct is not inspection.X({var})")
            names.append(v.func.attr)
        return ("and", names, node.lineno)
    raise Closed(f"line {getattr(node, 'lineno', '?')}: handler key is neither inspection.X nor a lambda conjunction")


def _cls(node):
    if _is_attr(node, "routines"):
        return ("routines", node.attr)
    if isinstance(node, ast.Name):
        return ("api", node.id)
    raise Closed(f"line {getattr(node, 'lineno', '?')}: handler value is not a routine class name")


def _call_cls(call):
    """`routines.C(...)` / `C(...)` -> class reference"""
    if not isinstance(call, ast.Call):
        raise Closed("expected a constructor call")
    return _cls(call.func)


def parse_api(path, getter="_get_unmarshaller"):
    """-> dict(rows=[(key, cls)], fallback=cls, delayed=cls)"""
    tree = ast.parse(open(path).read(), filename=path)
    table = None
    fn = None
    for st in tree.body:
        tgt = None
        if isinstance(st, ast.AnnAssign) and isinstance(st.target, ast.Name):
            tgt, val = st.target.id, st.value
        elif isinstance(st, ast.Assign) and len(st.targets) == 1 and isinstance(st.targets[0], ast.Name):
            tgt, val = st.targets[0].id, st.value
        if tgt == "_HANDLERS":
            if table is not None:
                raise Closed("_HANDLERS is assigned twice")
            table = val
        if isinstance(st, ast.FunctionDef) and st.name == getter:
            fn = st
        # anything that could touch the table after its definition
        if isinstance(st, (ast.AugAssign, ast.Expr)) and "_HANDLERS" in ast.dump(st):
            raise Closed(f"line {st.lineno}: module-level statement mentions _HANDLERS")
    if not isinstance(table, ast.Dict):
        raise Closed("_HANDLERS is not a dict display")
    if fn is None:
        raise Closed(f"no function {getter}")
    rows = []
    for k, v in zip(table.keys, table.values):
        if k is None:
            raise Closed("dict unpacking in _HANDLERS")
        rows.append((_key(k), _cls(v)))
    # shape of the dispatch function
    body = [s for s in fn.body if not (isinstance(s, ast.Expr) and isinstance(s.value, ast.Constant))]
    if len(body) != 4:
        raise Closed(f"{getter}: expected 4 statements (cyclic, context hit, loop, fallback), found {len(body)}")
    s_cyc, s_ctx, s_loop, s_fb = body
    if not (isinstance(s_cyc, ast.If) and _is_attr(s_cyc.test, "node", "cyclic") and len(s_cyc.body) == 1
            and isinstance(s_cyc.body[0], ast.Return) and not s_cyc.orelse):
        raise Closed(f"{getter}: first statement is not `if node.cyclic: return ...`")
    delayed = _call_cls(s_cyc.body[0].value)
    if not (isinstance(s_ctx, ast.If) and len(s_ctx.body) == 1 and isinstance(s_ctx.body[0], ast.Return) and not s_ctx.orelse
            and "context" in ast.dump(s_ctx.test)):
        raise Closed(f"{getter}: second statement is not the context short-cut")
    ok = (isinstance(s_loop, ast.For) and isinstance(s_loop.target, ast.Tuple) and len(s_loop.target.elts) == 2
          and all(isinstance(e, ast.Name) for e in s_loop.target.elts)
          and isinstance(s_loop.iter, ast.Call) and isinstance(s_loop.iter.func, ast.Attribute)
          and s_loop.iter.func.attr == "items" and isinstance(s_loop.iter.func.value, ast.Name)
          and s_loop.iter.func.value.id == "_HANDLERS" and not s_loop.iter.args and not s_loop.orelse
          and len(s_loop.body) == 1 and isinstance(s_loop.body[0], ast.If) and not s_loop.body[0].orelse)
    if not ok:
        raise Closed(f"{getter}: third statement is not `for check, cls in _HANDLERS.items(): if ...`")
    chk, cls = (e.id for e in s_loop.target.elts)
    cond = s_loop.body[0]
    ok = (isinstance(cond.test, ast.Call) and isinstance(cond.test.func, ast.Name) and cond.test.func.id == chk
          and len(cond.test.args) == 1 and not cond.test.keywords and _is_attr(cond.test.args[0], "node", "unwrapped")
          and len(cond.body) == 1 and isinstance(cond.body[0], ast.Return) and isinstance(cond.body[0].value, ast.Call)
          and isinstance(cond.body[0].value.func, ast.Name) and cond.body[0].value.func.id == cls
          and cond.body[0].value.args and _is_attr(cond.body[0].value.args[0], "node", "unwrapped"))
    if not ok:
        raise Closed(f"{getter}: loop body is not `if check(node.unwrapped): return cls(node.unwrapped, ...)`")
    if not (isinstance(s_fb, ast.Return) and isinstance(s_fb.value, ast.Call) and s_fb.value.args
            and _is_attr(s_fb.value.args[0], "node", "unwrapped")):
        raise Closed(f"{getter}: last statement is not `return <fallback>(node.unwrapped, ...)`")
    fallback = _call_cls(s_fb.value)
    return {"rows": rows, "fallback": fallback, "delayed": delayed}


def _live_cls(api, routines, ref):
    where, name = ref
    return getattr(routines if where == "routines" else api, name)


def cross_check(side, parsed):
    """compare the parsed table with the imported module; -> (problems, impl map {written: instance class})"""
    import importlib
    import typing as tp
    from typelib.py import inspection
    pkg = SIDES[side][0]
    api = importlib.import_module(f"typelib.{pkg}.api")
    routines = importlib.import_module(f"typelib.{pkg}.routines")
    problems, implmap = [], {}
    live = list(api._HANDLERS.items())
    if len(live) != len(parsed["rows"]):
        problems.append(f"{pkg}: {len(parsed['rows'])} rows in the source, {len(live)} in the live table")
    for i, ((key, ref), (lk, lv)) in enumerate(zip(parsed["rows"], live)):
        try:
            v = _live_cls(api, routines, ref)
        except AttributeError:
            problems.append(f"{pkg} row {i}: {ref[1]} is not defined")
            continue
        if v is not lv:
            problems.append(f"{pkg} row {i}: written {ref[1]}, live {lv!r}")
        implmap[ref[1]] = (tp.get_origin(v) or v).__name__
        if key[0] == "name":
            f = getattr(inspection, key[1], None)
            if f is None or lk is not f:
                problems.append(f"{pkg} row {i}: key is not inspection.{key[1]}")
            elif getattr(f, "__name__", None) != key[1] or getattr(f, "__module__", None) != inspection.__name__:
                problems.append(f"{pkg} row {i}: inspection.{key[1]} is bound to {getattr(f, '__qualname__', f)!r}")
        else:
            code = getattr(lk, "__code__", None)
            if getattr(lk, "__name__", "") != "<lambda>" or code is None:
                problems.append(f"{pkg} row {i}: live key is not a lambda")
            else:
                if tuple(code.co_names) != ("inspection", *key[1]):
                    problems.append(f"{pkg} row {i}: lambda names {code.co_names}, parsed {key[1]}")
                if code.co_firstlineno != key[2]:
                    problems.append(f"{pkg} row {i}: lambda on line {code.co_firstlineno}, parsed line {key[2]}")
                for n in key[1]:
                    if not hasattr(inspection, n):
                        problems.append(f"{pkg} row {i}: inspection.{n} does not exist")
    for what in ("fallback", "delayed"):
        try:
            v = _live_cls(api, routines, parsed[what])
            implmap[parsed[what][1]] = (tp.get_origin(v) or v).__name__
        except AttributeError:
            problems.append(f"{pkg}: {what} class {parsed[what][1]} is not defined")
    if parsed["delayed"][1] != SIDES[side][2]:
        problems.append(f"{pkg}: cyclic nodes get {parsed['delayed'][1]}")
    return problems, implmap


def coq_hpred(key):
    if key[0] == "name":
        return f"PName {coq_string(key[1])}"
    names = key[1]
    t = f"PName {coq_string(names[-1])}"
    for n in reversed(names[:-1]):
        t = f"PAnd (PName {coq_string(n)}) ({t})"
    return t


def translate():
    """-> (GenHandlers.v text, problems, summary)"""
    problems, parsed, implmap = [], {}, {}
    for side, (pkg, getter, _) in SIDES.items():
        path = os.path.join(lib.REPO, "src", "typelib", pkg, "api.py")
        try:
            parsed[side] = parse_api(path, getter)
        except (Closed, SyntaxError, OSError) as e:
            problems.append(f"{pkg}/api.py: {e}")
            parsed[side] = {"rows": [], "fallback": ("routines", "?"), "delayed": ("api", "?")}
            continue
        try:
            p, m = cross_check(side, parsed[side])
        except Exception as e:  # noqa: BLE001 - an import error is a failed cross-check
            p, m = [f"{pkg}: cross-check crashed: {e!r}"], {}
        problems += p
        implmap.update(m)
    out = ["(* generated on this run from unmarshals/api.py and marshals/api.py of the tree under test:",
           "   source parsed with ast, cross-checked against the imported modules *)",
           "From Coq Require Import List String.", "Import ListNotations.",
           "Require Import TL.Model.Inspect TL.Model.Dispatch.", "Local Open Scope string_scope.", ""]
    for side in SIDES:
        rows = ";\n    ".join(f"({coq_hpred(k)}, {coq_string(c[1])})" for k, c in parsed[side]["rows"])
        out.append(f"Definition {side}_handlers : handlers :=\n  [ {rows} ].")
        out.append(f"Definition {side}_fallback : rclass := {coq_string(parsed[side]['fallback'][1])}.")
        out.append(f"Definition {side}_delayed : rclass := {coq_string(parsed[side]['delayed'][1])}.")
    out.append("Definition rc_impl : list (string * string) :=\n  [ " +
               ";\n    ".join(f"({coq_string(k)}, {coq_string(v)})" for k, v in sorted(implmap.items())) + " ].")
    summary = {s: {"rows": len(parsed[s]["rows"]), "fallback": parsed[s]["fallback"][1]} for s in SIDES}
    return "\n".join(out) + "\n", problems, summary


# ----------------------------------------------------------------------------------
# 4. correspondence
# ----------------------------------------------------------------------------------

def C(n):
    return ("cls", n)


def _wrap_members(cat, base):
    """parameterised collections / unions / tuples over catalogue members"""
    out = []
    talias = cat.talias

    def on(k):
        return cat.cls_name(talias[k].__origin__)

    for d in base:
        one = [("csub", "list", [d]), ("tsub", "List", [d]), ("tsub", "Sequence", [d]), ("csub", on("Sequence"), [d]),
               ("csub", "set", [d]), ("tsub", "FrozenSet", [d]), ("tsub", "Deque", [d]), ("tsub", "Iterable", [d]),
               ("csub", on("Iterator"), [d]), ("tsub", "Iterator", [d]), ("tsub", "Collection", [d]),
               ("csub", "dict", [C("str"), d]), ("tsub", "Dict", [C("str"), d]), ("tsub", "Mapping", [C("str"), d]),
               ("csub", on("MutableMapping"), [C("int"), d]), ("tsub", "DefaultDict", [C("str"), d]),
               ("tsub", "OrderedDict", [C("str"), d]),
               ("csub", "tuple", [d, ("ellipsis",)]), ("tsub", "Tuple", [d, ("ellipsis",)]),
               ("csub", "tuple", [d, C("int")]), ("tsub", "Tuple", [C("str"), d]), ("csub", "tuple", [d]),
               ("union", "O", [d, C("NoneType")]), ("union", "U", [d, C("tl_empty")]),
               ("csub", "type", [d]), ("usub", "UGeneric", [d]), ("csub", "UGenList", [d]),
               ("final", d), ("classvar", d)]
        out += one
    return out


def catalogue(cat, run):
    """(desc) list: C17's catalogue (without instances) + parameterised collections of members"""
    import c17
    cases = [d for k, d in c17.catalogue(cat, run.rng, run.tier) if k != "inst"]
    simple = [d for d in cases if d[0] in ("cls", "none", "typing", "newtype", "alias", "literal", "union", "tsub", "csub",
                                           "typevar", "callT", "callB", "fref", "aliasstr")]
    n = 60 if run.tier == "quick" else 400
    picked = run.rng.sample(simple, min(n, len(simple)))
    # always: every scalar class of the universe and the structured flavours
    must = [C(x) for x in ("int", "bool", "float", "str", "bytes", "Decimal", "Fraction", "UUID", "PurePath", "Path",
                           "Pattern", "date", "datetime", "time", "timedelta", "NoneType", "UEnum", "UIntEnum", "UStrEnum",
                           "UData", "UNamed", "UTD", "UPlain", "UBare", "Any", "object", "list", "dict")]
    seen, out = set(), []
    for d in cases + _wrap_members(cat, must + picked):
        k = repr(d)
        if k not in seen:
            seen.add(k)
            out.append(d)
    return out


def _raises_in_predicate(table, obj):
    """does a handler key raise on inspection.unwrap(obj) before any key matches?"""
    from typelib.py import inspection
    impl.clear_caches()
    try:
        u = inspection.unwrap(obj)
    except Exception:  # noqa: BLE001
        return True
    for check in table:
        try:
            if check(u):
                return False
        except Exception:  # noqa: BLE001
            return True
    return False


def _obs(f, table, obj):
    impl.clear_caches()
    try:
        with warnings.catch_warnings():
            warnings.simplefilter("ignore")
            r = f(obj)
    except RecursionError:
        return "OSkip", "RecursionError"
    except Exception as e:  # noqa: BLE001 - every exception is an observation
        if _raises_in_predicate(table, obj):
            return "ORaised", f"raise {type(e).__name__} (from a handler predicate)"
        return "OSkip", f"raise {type(e).__name__} (elsewhere)"
    return f"(OCls {coq_string(type(r).__name__)})", type(r).__name__


def _permissive_context(side):
    """a TypeContext that answers every lookup with a pass-through routine: lets the routine constructors run
    on a single node"""
    from typelib import ctx
    if side == "unm":
        from typelib.unmarshals import routines
        noop = routines.NoOpUnmarshaller
    else:
        from typelib.marshals import routines
        noop = routines.NoOpMarshaller

    class AnyContext(ctx.TypeContext):
        def __missing__(self, key):
            return noop(object, self, var=None)

    return AnyContext()


def observe(cat, descs, root):
    from typelib import graph
    from typelib.marshals import api as mapi
    from typelib.py import inspection
    from typelib.unmarshals import api as uapi
    import typing as tp

    def node_fn(api, side):
        def f(obj):
            u = inspection.unwrap(obj)
            return api._get_unmarshaller(graph.TypeNode(obj, u), context=_permissive_context(side))
        return f

    fu = uapi.unmarshaller if root else node_fn(uapi, "unm")
    fm = mapi.marshaller if root else node_fn(mapi, "mar")
    rows = []
    for d in descs:
        row = {"desc": d, "error": None}
        try:
            obj = cat.build(d)
            import c17_cat
            if c17_cat.norm(cat.describe(obj)) != c17_cat.norm(d):
                row["error"] = "description does not round-trip"
            term = cat.emit(d)
        except Exception as e:  # noqa: BLE001
            row["error"] = f"cannot build: {e!r}"[:200]
            rows.append(row)
            continue
        if row["error"]:
            rows.append(row)
            continue
        if root and isinstance(obj, (str, tp.ForwardRef)):
            row["error"] = "root reference: evaluated by graph.static_order before dispatch"
            rows.append(row)
            continue
        ou, su = _obs(fu, list(uapi._HANDLERS), obj)
        om, sm = _obs(fm, list(mapi._HANDLERS), obj)
        row.update(term=term, ou=ou, om=om, shown=[su, sm])
        rows.append(row)
    return rows


HDR = ("From Coq Require Import List NArith ZArith String.\nImport ListNotations.\n"
       "Require Import TL.Model.Inspect TL.Model.Dispatch TL.Model.DispatchEq.\n"
       "Require Import TLRun.GenInspectTables TLRun.GenHandlers.\nLocal Open Scope string_scope.\n"
       "Definition D : dtables := Build_dtables tbl unm_handlers unm_fallback mar_handlers mar_fallback rc_impl.\n")


def evaluate(run, rows, layer, root):
    live = [i for i, r in enumerate(rows) if not r["error"]]
    files, index = {}, {}
    for s in range(0, len(live), 400):
        part = live[s:s + 400]
        name = f"cases_{layer.replace('-', '_')}_{s // 400}.v"
        body = ";\n  ".join(f"({rows[i]['term']}, {rows[i]['ou']}, {rows[i]['om']})" for i in part)
        b = 'true' if root else 'false'
        files[name] = (HDR + f"Definition cases : list dcase :=\n  [ {body} ].\n"
                       f"Eval vm_compute in spec_report D {b} cases.\n"
                       f"Eval vm_compute in mismatches D {b} cases.\n")
        index[name] = part
    bad, spec_bad, covered = [], [], 0
    res = run.coq_eval_many(files, timeout=900)
    for name, out in res.items():
        if out is None or len(out) != 2:
            run.oblige(f"evaluate:{name}", False, "model evaluation did not compile")
            bad += [(i, -1) for i in index[name]]
            continue
        m = re.match(r"\((\d+)(?:%nat)?,\s*(.*)\)$", out[0].strip())
        covered += int(m.group(1))
        spec_bad += [index[name][k] for k in lib.parse_nat_list(m.group(2))]
        for a, b in re.findall(r"\((\d+),\s*(\d+)\)", out[1]):
            bad.append((index[name][int(a)], int(b)))
    bad = sorted(set(bad))
    mism = []
    says = {}
    if bad:
        first = sorted({i for i, _ in bad})[:8]
        txt = HDR + "".join(f"Eval vm_compute in model_says D {'true' if root else 'false'} {rows[i]['term']}.\n" for i in first)
        out = run.coq_eval(f"says_{layer.replace('-', '_')}.v", txt)
        if out:
            says = dict(zip(first, out))
    for i, j in bad:
        r = rows[i]
        mism.append({"desc": r["desc"], "side": ["unmarshal", "marshal"][j] if j >= 0 else None,
                     "observed": r["shown"][j] if j >= 0 else None, "model": says.get(i)})
    dist = {"outside": {}}
    for r in rows:
        if r["error"]:
            dist["outside"][r["error"][:60]] = dist["outside"].get(r["error"][:60], 0) + 1
        else:
            dist[r["desc"][0]] = dist.get(r["desc"][0], 0) + 1
            for s in r["shown"]:
                if s.startswith("raise"):
                    k = "observed:" + s.split("(")[-1].rstrip(")")
                    dist[k] = dist.get(k, 0) + 1
    classes = sorted({s for r in rows if not r["error"] for s in r["shown"] if not s.startswith("raise")})
    dist["routine_classes_seen"] = len(classes)
    run.record_corr(layer, 2 * len(live), mism, 2 * len(live), dist)
    # the theorems' conclusion against the observation: inside `supported` the observed classes are expected_u/m(kind)
    expected = {}
    if spec_bad:
        first = spec_bad[:8]
        b = 'true' if root else 'false'
        out = run.coq_eval(f"spec_{layer.replace('-', '_')}.v",
                           HDR + "".join(f"Eval vm_compute in spec_says D {b} {rows[i]['term']}.\n" for i in first))
        for i, o in zip(first, out or []):
            expected[i] = re.findall(r'"([^"]*)"', o)
    smism = [{"kind": "dispatch", "root": root, "desc": rows[i]["desc"], "observed": rows[i]["shown"],
              "expected": expected.get(i),
              "why": "inside the supported grammar, but the observed classes are not those of the head kind"}
             for i in spec_bad]
    fails = getattr(run, "_dispatch_failures", [])
    fails += [dict(m, key="dispatch:" + repr(m["desc"])) for m in smism if m["expected"]]
    run._dispatch_failures = fails
    run.record_corr(layer + "-spec", covered, smism, covered,
                    {"cases_inside_supported_grammar": covered, "of": len(live)})
    return mism


def search(run):
    """failing inputs of this run (annotations inside the supported grammar whose observed routine classes are not
    those of the head kind), as failure dicts for the property's oracle step; each replays with `replay`"""
    seen, out = set(), []
    for f in getattr(run, "_dispatch_failures", []):
        if f["key"] not in seen:
            seen.add(f["key"])
            out.append(f)
    return out[:5]


def replay(payload):
    """payload: a failure of `search` -> does the implementation still choose other classes than expected?"""
    import c17
    cat = c17.get_cat()
    d = c17._tuplify(payload["desc"])
    r = observe(cat, [d], bool(payload.get("root", True)))[0]
    if r.get("error"):
        return {"fails": False, "error": r["error"]}
    return {"fails": list(r["shown"]) != list(payload["expected"]), "observed": r["shown"],
            "expected": payload["expected"]}


def diagnose(run):
    """the theorem file does not check: name the representatives on which a table no longer gives the class of the
    head kind (these are annotations: usable as failing inputs)"""
    txt = (HDR + "Eval vm_compute in (atoms_ok tbl, wrap_tables_ok tbl).\n"
           "Eval vm_compute in firstn 6 (map (fun u => (u, kind_of tbl u, gm_u D u, gm_m D u)) "
           "(filter (fun u => negb (rep_ok D u)) (reps tbl))).\n")
    out = run.coq_eval("diagnose_dispatch.v", txt)
    if out:
        run.notes.append("dispatch bridge: table conditions (atoms_ok, wrap_tables_ok) = " + out[0])
        run.notes.append("dispatch bridge: representatives whose dispatch is not the class of their head kind "
                         "(annotation, kind, unmarshal side, marshal side): " + out[1][:1500])
        run.log("DISPATCH: failing representatives: " + out[1][:600])
    run.extra_cov["dispatch_failing_reps"] = out[1][:3000] if out else None


# ----------------------------------------------------------------------------------
# 5. one annotation, two descriptions: the core harness' ty and the catalogue's ity
# ----------------------------------------------------------------------------------

AGREE = {0: "agree", 1: "outside the supported grammar", 2: "the ty has no constructor case", 3: "different heads"}


def core_heads(run: lib.Run, groups=None, tag="", n_groups=None):
    """For generated universe modules (coreprop.generate: the modules C01/C05/C15 work on) every annotation is
    described twice -- as the Core `ty` the core harness prints (universe.Registry.emit_ty) and as the `ity` the C17
    catalogue derives from the Python object -- and Coq decides `heads_agree`: the case Build.construct takes for the
    ty is the one the dispatch theorems give the ity (hypothesis of DispatchLemmas.construct_matches_dispatch).
    The class lattice is re-reflected with the classes of the generated modules (GenInspectTablesX.v) and the
    finite check of the dispatch theorems is re-decided for that lattice."""
    import copy
    import c17
    import coreprop
    from universe import EXOTIC
    base = c17.get_cat()
    cat = copy.copy(base)
    for a in ("classes", "cid", "cls_by_obj", "has_instance", "_memo"):
        setattr(cat, a, dict(getattr(base, a)))
    cat.problems = list(base.problems)
    own = groups is None
    if own:
        n = n_groups or run.budget(6, 30)
        groups, _ = coreprop.generate(run, n, seed_offset=4242, values_per_root=0, with_pool=False)
    sfx = ("_" + re.sub(r"\W", "_", tag)) if tag else ""
    items = []          # (group index, desc, ty term, ity term | None, why)
    try:
        for gi, g in enumerate(groups):
            for v in vars(g.mod).values():
                if isinstance(v, type) and v.__module__ == g.mod.__name__:
                    cat.ensure_class(v)
            for py, d in g.reg.rev:
                try:
                    tau = g.reg.emit_ty(d)
                except Exception as e:  # noqa: BLE001
                    items.append((gi, d, None, None, f"no ty: {e!r}"[:80]))
                    continue
                try:
                    for c in _classes_in(py):
                        cat.ensure_class(c)
                    it = cat.emit(cat.describe(py))
                    why = None
                except Exception as e:  # noqa: BLE001
                    it, why = None, f"no ity: {e!r}"[:80]
                items.append((gi, d, tau, it, why))
        ttext, tproblems = c17.reflect_tables(cat)
        ttext = ttext.replace("Definition k_", "Definition kx_")     # generated class names may collide
        ok = run.compile_dyn(f"GenInspectTablesX{sfx}.v", text=ttext)
        tx = f"GenInspectTablesX{sfx}"
        hdr = (HDR.replace("TLRun.GenInspectTables ", f"TLRun.{tx} ").replace("Definition D : dtables", "Definition D0 : dtables")
               .replace("Build_dtables tbl ", f"Build_dtables {tx}.tbl ")
               + f"Definition DX : dtables := Build_dtables {tx}.tbl unm_handlers unm_fallback "
                 "mar_handlers mar_fallback rc_impl.\nRequire TL.Model.Core TL.Model.Build TL.Proofs.DispatchLemmas.\n")
        thm = hdr + ("Theorem DispatchX_ok : atoms_ok @TX@.tbl = true /\\ all_reps_ok DX = true "
                     "/\\ wrap_tables_ok @TX@.tbl = true.\n"
                     "Proof. vm_compute. repeat split. Qed.\n"
                     "Theorem DispatchX_construct : forall E t tau dir cx r, heads_agree DX E t tau = 0 ->\n"
                     "  Build.construct E dir cx (Build.unwrap E tau) = Core.Ok r ->\n"
                     "  exists k, kind_of @TX@.tbl (peel t) = Some k /\\ routine_bhead r = build_head k\n"
                     "    /\\ disp_u DX t = DOk (expected_u k) /\\ disp_m DX t = DOk (expected_m k).\n"
                     "Proof. exact (TL.Proofs.DispatchLemmas.construct_matches_dispatch DX (proj1 DispatchX_ok) "
                     "(proj1 (proj2 DispatchX_ok)) (proj2 (proj2 DispatchX_ok))). Qed.\n"
                     "Print Assumptions DispatchX_ok.\nPrint Assumptions DispatchX_construct.\n").replace("@TX@", tx)
        ok = ok and run.compile_dyn(f"DispatchX{sfx}.v", text=thm, theorems=["DispatchX_ok", "DispatchX_construct"], timeout=600)
        body = ("From Coq Require Import List NArith ZArith String.\nImport ListNotations.\n"
                f"Require Import TL.Model.Inspect TL.Model.Dispatch TL.Model.DispatchEq TLRun.DispatchX{sfx}.\n"
                "Require Import TL.Model.Core.\nLocal Open Scope string_scope.\n")
        index = []
        for gi, g in enumerate(groups):
            mine = [x for x in items if x[0] == gi and x[3] is not None]
            if not mine:
                continue
            cases = ";\n   ".join(f"({x[3]}, {x[2]})" for x in mine)
            body += (f"Definition E{gi} : Core.env := {g.reg.emit_env()}.\n"
                     f"Eval vm_compute in head_report DX E{gi} [ {cases} ].\n")
            index.append(mine)
        out = run.coq_eval(f"cases_dispatch_core_heads{sfx}.v", body, timeout=900) if ok else None
    finally:
        if own:
            coreprop.close(groups)
    if out is None or len(out) != len(index):
        run.oblige("evaluate:cases_dispatch_core_heads.v", False, "; ".join(run.notes[-1:])[:300])
        return
    dist, mism, total = {"outside": {}}, [], 0
    for mine, o in zip(index, out):
        codes = lib.parse_nat_list(o)
        for x, c in zip(mine, codes):
            total += 1
            d = x[1]
            if c == 0:
                dist[d[0]] = dist.get(d[0], 0) + 1
                continue
            exotic_leaf = d[0] == "leaf" and d[1] in EXOTIC
            if c == 1 or (c == 3 and exotic_leaf):
                why = AGREE[c] + (" (exotic leaf of the extended grammar: a leaf of the core model)" if exotic_leaf else "")
                dist["outside"][why] = dist["outside"].get(why, 0) + 1
                continue
            mism.append({"desc": d, "ty": x[2], "ity": x[3], "why": AGREE.get(c, str(c))})
    for x in items:
        if x[3] is None:
            dist["outside"][x[4]] = dist["outside"].get(x[4], 0) + 1
    agreeing = total - len(mism) - sum(v for k, v in dist["outside"].items() if not k.startswith("no "))
    run.record_corr("dispatch-core-heads" + (":" + tag if tag else ""), total, mism, agreeing, dist)


def _classes_in(py, depth=0):
    """classes mentioned by an annotation object (so that they can be given ids before it is described)"""
    import typing as tp
    out = []
    if depth > 8:
        return out
    if isinstance(py, type):
        out.append(py)
    for a in getattr(py, "__args__", ()) or ():
        if isinstance(a, (list, tuple)):
            for b in a:
                out += _classes_in(b, depth + 1)
        else:
            out += _classes_in(a, depth + 1)
    og = tp.get_origin(py)
    if isinstance(og, type):
        out.append(og)
    for attr in ("__supertype__", "__value__", "__bound__"):
        v = getattr(py, attr, None)
        if v is not None and not isinstance(v, str):
            out += _classes_in(v, depth + 1)
    return [c for c in out if isinstance(c, type)]


# ----------------------------------------------------------------------------------
# entry point
# ----------------------------------------------------------------------------------

def obligations(run: lib.Run, streams: bool = True, core: bool = True, groups=None, tag: str = ""):
    """translate + reflect + theorems (always); `streams`: the dispatch-root / dispatch-node correspondence over the
    catalogue; `core`: the two-descriptions tie `core_heads` -- on the caller's own coremodel groups when `groups` is
    given (C01 / C05 / C15 pass the modules their three-way correspondence ran on), else on freshly generated ones."""
    import c17
    cat = c17.get_cat()
    text, problems, summary = translate()
    run.oblige("dispatch:translate _HANDLERS (ast of both api.py files = live tables; keys are inspection predicates "
               "or conjunctions of them)", not problems, "; ".join(problems[:4]))
    run.extra_cov["dispatch_tables"] = summary
    ttext, tproblems = c17.reflect_tables(cat)
    run.oblige("dispatch:reflect inspection tables (C17 writer)", not tproblems, "; ".join(tproblems[:4]))
    ok = True
    if not os.path.exists(os.path.join(run.build, "GenInspectTables.vo")):
        ok = run.compile_dyn("GenInspectTables.v", text=ttext)
    ok = run.compile_dyn("GenHandlers.v", text=text) and ok
    if ok:
        if not run.compile_dyn("Dispatch.v", src=os.path.join(lib.DYN, "Dispatch", "Dispatch.v"), theorems=THEOREMS,
                               timeout=600):
            diagnose(run)
    else:
        for t in THEOREMS:
            run.oblige(f"theorem:{t}", False, "generated tables do not compile")
    if streams and ok:
        descs = catalogue(cat, run)
        evaluate(run, observe(cat, descs, True), "dispatch-root", True)
        evaluate(run, observe(cat, descs, False), "dispatch-node", False)
    if core and ok:
        core_heads(run, groups=groups, tag=tag)
    run.assumptions += [
        "dispatch bridge: the first-match loop of _get_unmarshaller/_get_marshaller is modelled by Dispatch.first_match; "
        "its shape (cyclic -> Delayed, context short-cut, loop over _HANDLERS.items() on node.unwrapped, fallback) is "
        "checked on the AST of both api.py files on every run and by the dispatch-root / dispatch-node correspondence",
        "dispatch bridge: the predicates are those of Model/Inspect.v (tied by C17's exhaustive correspondence)",
    ]
    return ok
