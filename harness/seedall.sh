#!/bin/bash
# usage: seedall.sh Cxx ...  : re-evaluate every stored seed of the given properties on the current /repo HEAD
cd /verif
for p in "$@"; do
  python3 harness/seedrun.py $p 2>&1 | grep -v WARN
  for r in 2 3 4 5 6 7; do
    ls seeded | grep -q "^$p-r${r}m" && python3 harness/seedrun.py $p --round $r 2>&1 | grep -v WARN
  done
done
