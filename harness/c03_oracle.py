"""C03 search oracle: an independent structural type checker for Python values.

A direct executable reading of the property statement ("the right runtime class at every position, every
element, key and field value conforming to its annotated member type, fixed tuples of exactly the declared
arity, TypedDicts with all required keys, Literal and Enum results that are declared members").  It works on the
real annotation objects through `typing` introspection only: no typelib import, no model, no mirror.

Ambiguities of the statement, resolved in favour of the code (the oracle is never stricter than the text):
  * "right runtime class" = isinstance of the annotated class (so True is an int, an OrderedDict is a dict, a
    str-mixin enum member is a member); the one exception is `datetime.date`, for which a `datetime.datetime`
    is NOT accepted (the routine itself takes care to rebuild a plain date);
  * abstract collection annotations (Sequence, Iterable, Mapping, AbstractSet ...) accept any instance of the
    abstract class;
  * Literal membership is by `==` (unmarshal(Literal[1, 'a'], True) returns True: DESIGN 9 #22);
  * a field of a class instance may hold the default the class itself declares for it (e.g. `a: int = None`):
    what a class puts into an omitted field is the class author's business;
  * Any / object accept everything; annotations the checker does not understand are counted as unjudged.
"""
from __future__ import annotations

import collections
import collections.abc
import dataclasses
import datetime
import decimal
import enum
import fractions
import inspect
import json
import pathlib
import re
import sys
import types
import typing
import uuid

import typing_extensions as te

NoneType = type(None)

LEAF_CLASSES = (int, float, str, bytes, bytearray, bool, complex, decimal.Decimal, fractions.Fraction, uuid.UUID,
                pathlib.PurePath, datetime.date, datetime.time, datetime.timedelta, re.Pattern)


CONCRETE = {collections.abc.Sequence: list, collections.abc.MutableSequence: list, collections.abc.Iterable: list,
            collections.abc.Collection: list, collections.abc.Set: set, collections.abc.MutableSet: set,
            collections.abc.Mapping: dict, collections.abc.MutableMapping: dict}


class Unjudged(Exception):
    pass


def leaf_ok(t, v) -> bool:
    """is v an acceptable result for the leaf (scalar / enum / Literal / bare container / Any) annotation t?"""
    if t is typing.Any or t is object:
        return True
    if t is None or t is NoneType:
        return v is None
    if typing.get_origin(t) is typing.Literal:
        return any(_lit_eq(v, m) for m in typing.get_args(t))
    if isinstance(t, type):
        if t is datetime.date:
            return isinstance(v, datetime.date) and not isinstance(v, datetime.datetime)
        return isinstance(v, t)
    raise Unjudged(repr(t))


def _lit_eq(v, m) -> bool:
    try:
        return bool(v == m)
    except Exception:
        return False


def _ns_of(obj, ns):
    mod = sys.modules.get(getattr(obj, "__module__", None) or "")
    d = dict(vars(mod)) if mod is not None else {}
    d.update(ns or {})
    return d


def resolve(t, ns):
    """strip transparent wrappers: NewType, TypeAliasType, Final/ClassVar/Annotated/Required/NotRequired, references"""
    for _ in range(50):
        if isinstance(t, str):
            t = eval(t, dict(ns or {}))
            continue
        if isinstance(t, typing.ForwardRef):
            mod = getattr(t, "__forward_module__", None)
            scope = dict(ns or {})
            if mod:
                m = sys.modules.get(mod) if isinstance(mod, str) else mod
                if m is not None:
                    scope = {**vars(m), **scope}
            t = eval(t.__forward_arg__, scope)
            continue
        if hasattr(t, "__supertype__"):
            t = t.__supertype__
            continue
        if type(t).__name__ == "TypeAliasType" and hasattr(t, "__value__"):
            ns = _ns_of(t, ns)
            t = t.__value__
            continue
        o = typing.get_origin(t)
        if o in (typing.Final, typing.ClassVar, te.Required, te.NotRequired, getattr(te, "ReadOnly", None)) and o is not None:
            t = typing.get_args(t)[0]
            continue
        if o is typing.Annotated:
            t = typing.get_args(t)[0]
            continue
        return t, ns
    raise Unjudged("wrapper chain too long")


def required_keys(td) -> set:
    req = set(getattr(td, "__required_keys__", ()))
    try:
        hints = te.get_type_hints(td, include_extras=True)
    except Exception:
        return req
    for k, h in hints.items():
        o = te.get_origin(h)
        if o is te.NotRequired:
            req.discard(k)
        elif o is te.Required:
            req.add(k)
    return req


def is_typeddict(t) -> bool:
    return isinstance(t, type) and issubclass(t, dict) and hasattr(t, "__total__") and hasattr(t, "__annotations__")


def is_namedtuple(t) -> bool:
    return isinstance(t, type) and issubclass(t, tuple) and hasattr(t, "_fields")


def class_hints(t):
    try:
        h = typing.get_type_hints(t, include_extras=True)
    except Exception:
        h = {}
    if not h and "__init__" in vars(t):
        try:
            h = {k: v for k, v in typing.get_type_hints(t.__init__, include_extras=True).items() if k != "return"}
        except Exception:
            h = {}
    return {k: v for k, v in h.items() if typing.get_origin(v) is not typing.ClassVar
            and v is not getattr(dataclasses, "KW_ONLY", None)}


_MISSING = object()


def declared_default(t, name):
    if dataclasses.is_dataclass(t):
        for f in dataclasses.fields(t):
            if f.name == name:
                if f.default is not dataclasses.MISSING:
                    return f.default
                if f.default_factory is not dataclasses.MISSING:
                    return f.default_factory()
        return _MISSING
    if is_namedtuple(t):
        return t._field_defaults.get(name, _MISSING)
    try:
        p = inspect.signature(t).parameters.get(name)
    except (TypeError, ValueError):
        return _MISSING
    if p is None or p.default is p.empty:
        return _MISSING
    return p.default


def _same_default(v, d) -> bool:
    if d is _MISSING:
        return False
    if v is d:
        return True
    try:
        return type(v) is type(d) and v == d
    except Exception:
        return False


class Checker:
    """check(T, v) -> list of problems, each {'path', 'symptom', 'annotation', 'got'}"""

    def __init__(self, ns=None, exact=False):
        self.ns = ns
        self.exact = exact          # exact=True: the concrete class typelib builds (the reading of Coq `conforms`)
        self.problems = []
        self.unjudged = 0
        self.positions = 0

    def isa(self, v, cls) -> bool:
        if self.exact:
            return type(v) is CONCRETE.get(cls, cls)
        return isinstance(v, cls)

    def bad(self, path, symptom, t, v):
        self.problems.append({"path": path, "symptom": symptom, "annotation": repr(t)[:120],
                              "got": f"{type(v).__name__}: {repr(v)[:120]}"})
        return False

    def ok(self, t, v) -> bool:
        """quiet check (no problem recording)"""
        sub = Checker(self.ns, self.exact)
        r = sub.check(t, v, "$")
        self.unjudged += sub.unjudged
        return r

    def check(self, t, v, path="$", ns=None) -> bool:
        ns = ns if ns is not None else self.ns
        self.positions += 1
        try:
            t, ns = resolve(t, ns)
        except Unjudged:
            self.unjudged += 1
            return True
        except Exception:
            self.unjudged += 1
            return True
        if t is typing.Any or t is object:
            return True
        if t is None or t is NoneType:
            return True if v is None else self.bad(path, "not None", t, v)
        o = typing.get_origin(t)
        args = typing.get_args(t)
        if o is typing.Literal:
            return True if leaf_ok(t, v) else self.bad(path, "Literal: not a declared member", t, v)
        if o is typing.Union or o is types.UnionType:
            for m in args:
                sub = Checker(ns, self.exact)
                if sub.check(m, v, path):
                    self.unjudged += sub.unjudged
                    return True
            return self.bad(path, "union: conforms to no member", t, v)
        if o is tuple:
            if len(args) == 2 and args[1] is Ellipsis:
                if not self.isa(v, tuple):
                    return self.bad(path, "wrong class for tuple[X, ...]", t, v)
                return all([self.check(args[0], x, f"{path}[{i}]", ns) for i, x in enumerate(v)])
            if args == ((),):
                args = ()
            if not self.isa(v, tuple):
                return self.bad(path, "wrong class for fixed tuple", t, v)
            if len(v) != len(args):
                return self.bad(path, f"fixed tuple arity: declared {len(args)}, got {len(v)}", t, v)
            return all([self.check(a, x, f"{path}[{i}]", ns) for i, (a, x) in enumerate(zip(args, v))])
        if o is not None and isinstance(o, type) and issubclass(o, collections.abc.Mapping):
            if not self.isa(v, o):
                return self.bad(path, "wrong class for mapping", t, v)
            if len(args) != 2:
                return True
            res = True
            for k, x in v.items():
                res &= self.check(args[0], k, f"{path}.key({k!r})", ns)
                res &= self.check(args[1], x, f"{path}[{k!r}]", ns)
            return res
        if o is not None and isinstance(o, type) and issubclass(o, collections.abc.Iterable):
            if not self.isa(v, o) or isinstance(v, (str, bytes)):
                return self.bad(path, "wrong class for collection", t, v)
            if len(args) != 1:
                return True
            if isinstance(v, collections.abc.Iterator):
                self.unjudged += 1
                return True
            return all([self.check(args[0], x, f"{path}[{i}]", ns) for i, x in enumerate(v)])
        if o is not None:
            self.unjudged += 1
            return True
        if not isinstance(t, type):
            self.unjudged += 1
            return True
        # ---- classes ----
        if issubclass(t, enum.Enum):
            return True if isinstance(v, t) else self.bad(path, "Enum: not a member", t, v)
        if is_typeddict(t):
            if not self.isa(v, dict):
                return self.bad(path, "wrong class for TypedDict", t, v)
            hints = class_hints(t)
            res = True
            for k in v:
                if k not in hints:
                    res = self.bad(path, f"TypedDict: undeclared key {k!r}", t, v)
            for k in sorted(required_keys(t)):
                if k not in v:
                    res = self.bad(path, f"TypedDict: required key {k!r} missing", t, v)
            cns = _ns_of(t, ns)
            for k, x in v.items():
                if k in hints:
                    res &= self.check(hints[k], x, f"{path}[{k!r}]", cns)
            return res
        if is_namedtuple(t):
            if not self.isa(v, t):
                return self.bad(path, "wrong class for NamedTuple", t, v)
            if len(v) != len(t._fields):
                return self.bad(path, "NamedTuple arity", t, v)
            hints = class_hints(t)
            cns = _ns_of(t, ns)
            res = True
            for name, x in zip(t._fields, v):
                res &= self.field(t, name, hints.get(name, typing.Any), x, f"{path}.{name}", cns)
            return res
        if t in (list, dict, set, frozenset, tuple, collections.deque, collections.OrderedDict, collections.defaultdict) \
                or issubclass(t, LEAF_CLASSES):
            return True if leaf_ok(t, v) else self.bad(path, "wrong class", t, v)
        hints = class_hints(t)
        if dataclasses.is_dataclass(t) or hints:
            if not self.isa(v, t):
                return self.bad(path, "wrong class for structured type", t, v)
            names = [f.name for f in dataclasses.fields(t)] if dataclasses.is_dataclass(t) else list(hints)
            cns = _ns_of(t, ns)
            res = True
            for name in names:
                try:
                    x = getattr(v, name)
                except AttributeError:
                    res = self.bad(f"{path}.{name}", "field missing on the instance", t, v)
                    continue
                res &= self.field(t, name, hints.get(name, typing.Any), x, f"{path}.{name}", cns)
            return res
        return True if isinstance(v, t) else self.bad(path, "wrong class", t, v)

    def field(self, cls, name, ann, x, path, ns) -> bool:
        sub = Checker(ns, self.exact)
        if sub.check(ann, x, path, ns):
            self.unjudged += sub.unjudged
            self.positions += sub.positions
            return True
        if _same_default(x, declared_default(cls, name)):
            return True
        self.problems += sub.problems
        return False


def check(t, v, ns=None):
    c = Checker(ns)
    c.check(t, v, "$")
    return c.problems, c.unjudged, c.positions


def symptom_class(p) -> str:
    """coarse grouping key of one problem"""
    s = p["symptom"]
    s = re.sub(r"declared \d+, got \d+", "declared n, got m", s)
    s = re.sub(r"key '.*?'", "key k", s)
    return s


# ----------------------------------------------------------------------------------
# values as Python source (for replay files)
# ----------------------------------------------------------------------------------

def pysrc(v) -> str:
    """source text that rebuilds v when evaluated in the namespace of its synthesised module"""
    t = type(v)
    if v is None or t in (bool, int, str, bytes):
        return repr(v)
    if t is float:
        return repr(v) if v == v and abs(v) != float("inf") else f"float({str(v)!r})"
    if isinstance(v, type):
        return v.__name__ if v.__module__ in ("builtins",) or v.__module__.startswith("verif_") else f"{v.__module__}.{v.__name__}"
    if t is list:
        return "[" + ", ".join(pysrc(x) for x in v) + "]"
    if t is tuple:
        return "(" + ", ".join(pysrc(x) for x in v) + ("," if len(v) == 1 else "") + ")"
    if t is set:
        return "{" + ", ".join(pysrc(x) for x in v) + "}" if v else "set()"
    if t is frozenset:
        return "frozenset([" + ", ".join(pysrc(x) for x in v) + "])"
    if t is collections.deque:
        return "collections.deque([" + ", ".join(pysrc(x) for x in v) + "])"
    if t is dict:
        return "{" + ", ".join(f"{pysrc(k)}: {pysrc(x)}" for k, x in v.items()) + "}"
    if t is collections.OrderedDict:
        return "collections.OrderedDict([" + ", ".join(f"({pysrc(k)}, {pysrc(x)})" for k, x in v.items()) + "])"
    if isinstance(v, enum.Enum):
        return f"{t.__name__}.{v.name}"
    if t is decimal.Decimal:
        return f"decimal.Decimal({str(v)!r})"
    if t is fractions.Fraction:
        return f"fractions.Fraction({v.numerator}, {v.denominator})"
    if t is uuid.UUID:
        return f"uuid.UUID({str(v)!r})"
    if isinstance(v, pathlib.PurePath):
        return f"pathlib.{t.__name__}({str(v)!r})"
    if t in (datetime.date, datetime.datetime, datetime.time, datetime.timedelta, datetime.timezone):
        return repr(v)
    if t is bytearray:
        return f"bytearray({bytes(v)!r})"
    if getattr(t, "_verif_sub", False):
        base = t.__mro__[1]
        cons = f"type({t.__name__!r}, ({base.__name__},), {{}})"
        if is_namedtuple(base):
            return f"{cons}(" + ", ".join(pysrc(x) for x in v) + ")"
        names = [f.name for f in dataclasses.fields(v)] if dataclasses.is_dataclass(v) else list(vars(v))
        return f"{cons}(" + ", ".join(f"{n}={pysrc(getattr(v, n))}" for n in names if hasattr(v, n)) + ")"
    if is_namedtuple(t):
        return f"{t.__name__}(" + ", ".join(pysrc(x) for x in v) + ")"
    if dataclasses.is_dataclass(v):
        fs = [(f.name, getattr(v, f.name)) for f in dataclasses.fields(v) if hasattr(v, f.name)]
        return f"{t.__name__}(" + ", ".join(f"{n}={pysrc(x)}" for n, x in fs) + ")"
    if t.__module__.startswith("verif_") and hasattr(v, "__dict__"):
        return f"{t.__name__}(" + ", ".join(f"{n}={pysrc(x)}" for n, x in vars(v).items()) + ")"
    if t is object:
        return "object()"
    raise ValueError(f"no source form for {v!r}")


# ----------------------------------------------------------------------------------
# shrinking of a failing input
# ----------------------------------------------------------------------------------

def shrink_candidates(x):
    """strictly smaller variants of x, biggest cuts first"""
    t = type(x)
    if t in (list, tuple):
        for i in range(len(x)):
            yield t(x[:i] + x[i + 1:])
        for i, e in enumerate(x):
            for c in shrink_candidates(e):
                yield t(list(x[:i]) + [c] + list(x[i + 1:]))
    elif t is dict:
        for k in list(x):
            yield {a: b for a, b in x.items() if a != k}
        for k, e in x.items():
            for c in shrink_candidates(e):
                yield {a: (c if a == k else b) for a, b in x.items()}
    elif t is str and len(x) > 1 and x[:1] in "[{":
        try:
            parsed = json.loads(x)
        except Exception:
            return
        for c in shrink_candidates(parsed):
            yield json.dumps(c)
    elif t is int and x not in (0, 1):
        yield 1
    elif t is str and len(x) > 1:
        yield x[:1]


def shrink(x, still_fails, budget=80):
    """greedy: keep the first smaller candidate on which still_fails(candidate) holds"""
    spent = 0
    progress = True
    while progress and spent < budget:
        progress = False
        for c in shrink_candidates(x):
            spent += 1
            if spent > budget:
                break
            try:
                if still_fails(c):
                    x = c
                    progress = True
                    break
            except Exception:
                continue
    return x
