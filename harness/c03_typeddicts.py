"""C03: systematic TypedDict environments the shared universe does not generate.

Per-key `Required[...]` / `NotRequired[...]`, `total=True/False`, inheritance mixing totalities, each written with
real annotations, under `from __future__ import annotations`, and with quoted annotations (typing cannot see the
qualifiers inside string annotations when the class is created, so `__required_keys__` is wrong there and the
routine has to look at the evaluated hints).  Each class is used at the root and at nested positions; inputs are the
valid wire form, the wire form with each key dropped / renamed, the empty dict, and JSON / literal text of those.

`cases(rng, limit)` yields (module_source, [(annotation_source, input_source, tag), ...]).
The oracle (c03_oracle.check) decides; nothing here says what is expected.
"""
from __future__ import annotations

import json

PRELUDE = ("import typing, collections, dataclasses, datetime, decimal, enum, fractions, pathlib, uuid\n"
           "import typing_extensions as te\n")
STYLES = ("plain", "future", "quoted")
QUALS = ("typing", "te")

SAMPLE = {"int": 1, "str": "s", "float": 1.5}

# (class name, bases, total or None (inherit default True), [(key, qualifier or None, type name)])
SHAPES = {
    "notreq": [("A", None, True, [("a", None, "int"), ("b", "NotRequired", "str")])],
    "req": [("B", None, False, [("a", "Required", "int"), ("b", None, "str")])],
    "req2": [("C", None, False, [("a", "Required", "int"), ("b", "Required", "str"), ("c", None, "float")])],
    "total": [("D", None, True, [("a", None, "int"), ("b", None, "str")])],
    "partial": [("E", None, False, [("a", None, "int"), ("b", None, "str")])],
    "inherit-partial-base": [("Base1", None, False, [("a", "Required", "int"), ("n", None, "str")]),
                             ("Child1", "Base1", True, [("c", None, "float")])],
    "inherit-total-base": [("Base2", None, True, [("a", None, "int"), ("b", "NotRequired", "str")]),
                           ("Child2", "Base2", False, [("c", "Required", "float"), ("d", None, "str")])],
    "inherit-plain-child": [("Base3", None, False, [("x", "Required", "int"), ("y", None, "str")]),
                            ("Child3", "Base3", None, [("z", "NotRequired", "int")])],
}


def class_source(shape, style, qual) -> str:
    out = []
    for name, base, total, fields in SHAPES[shape]:
        bases = base or "typing.TypedDict"
        head = f"class {name}({bases}" + ("" if total is None else f", total={total}") + "):\n"
        body = ""
        for key, q, t in fields:
            ann = t if q is None else f"{qual}.{q}[{t}]"
            if style == "quoted":
                ann = repr(ann)
            body += f"    {key}: {ann}\n"
        out.append(head + body)
    return "".join(out)


def all_fields(shape, name):
    """declared keys of class `name` of the shape, inherited ones first"""
    by = {n: (b, fs) for n, b, _, fs in SHAPES[shape]}
    b, fs = by[name]
    return (all_fields(shape, b) if b else []) + [(k, t) for k, _, t in fs]


def holder_source(target, style) -> str:
    """a dataclass, a TypedDict and a NamedTuple that hold the TypedDict `target`"""
    q = (lambda a: repr(a)) if style == "quoted" else (lambda a: a)
    return (f"@dataclasses.dataclass\nclass HolderDC:\n    t: {q(target)}\n    n: {q('int')} = 0\n"
            f"class HolderTD(typing.TypedDict):\n    inner: {q(target)}\n    many: {q('list[' + target + ']')}\n"
            f"class HolderNT(typing.NamedTuple):\n    t: {q(target)}\n")


def module_source(shape, style, qual, target) -> str:
    head = "from __future__ import annotations\n" if style == "future" else ""
    return head + PRELUDE + class_source(shape, style, qual) + holder_source(target, style)


def variants(wire: dict):
    yield "valid", dict(wire)
    for k in wire:
        yield f"drop:{k}", {a: b for a, b in wire.items() if a != k}
        yield f"rename:{k}", {(a.upper() if a == k else a): b for a, b in wire.items()}
    yield "empty", {}
    if len(wire) > 1:
        k0 = next(iter(wire))
        yield "only-first", {k0: wire[k0]}


def positions(target, w_valid, w):
    """(annotation source, input object) for the TypedDict at the root and at nested positions"""
    yield target, w
    yield f"list[{target}]", [w_valid, w]
    yield f"dict[str, {target}]", {"k": w}
    yield f"{target} | None", w
    yield f"tuple[{target}, int]", [w, 3]
    yield "HolderDC", {"t": w}
    yield "HolderTD", {"inner": w, "many": [w_valid]}
    yield "HolderTD", {"inner": w_valid, "many": [w_valid, w]}
    yield "HolderNT", {"t": w}


def cases(rng, per_module=None):
    """-> list of (module_source, [(annotation, input source, tag)])"""
    out = []
    for shape in SHAPES:
        for style in STYLES:
            for qual in QUALS:
                for name, _, _, _ in SHAPES[shape]:
                    src = module_source(shape, style, qual, name)
                    w_valid = {k: SAMPLE[t] for k, t in all_fields(shape, name)}
                    rows = []
                    for vtag, w in variants(w_valid):
                        for ann, x in positions(name, w_valid, w):
                            tag = f"td/{shape}/{style}/{qual}/{name}/{vtag}@{ann}"
                            rows.append((ann, repr(x), tag))
                            if ann == name or rng.random() < 0.15:
                                rows.append((ann, repr(json.dumps(x)), tag + "+json"))
                            if rng.random() < 0.05:
                                rows.append((ann, repr(repr(x).encode()), tag + "+literal-bytes"))
                    if per_module is not None and len(rows) > per_module:
                        keep = [r for r in rows if "@" + name in r[2] and r[2].endswith("@" + name)]
                        rest = [r for r in rows if r not in keep]
                        rng.shuffle(rest)
                        rows = keep + rest[:max(0, per_module - len(keep))]
                    out.append((src, rows))
    return out
