"""Evaluate seeded mutations (development tool, not a registered check).

usage: python3 harness/seedrun.py <Cxx> [mK ...] [--tier quick]
For each /tmp/seed-Cxx/seed/mK: confirm on a scratch worktree of /repo HEAD that (a) the unedited test suite still
shows the baseline, (b) demo.py passes without and fails with the patch; then run `./check Cxx` against the
mutated worktree (TYPELIB_REPO) and record whether it raised the alarm, with a failing input or not.
Results: seeded/<Cxx>-<mK>/ (patch.diff, demo.py, meta.json incl. what was run and the outcome).
"""
import json
import os
import re
import shutil
import subprocess
import sys

VERIF = os.path.dirname(os.path.dirname(os.path.abspath(__file__)))
PY = "/venv/bin/python"


def sh(cmd, cwd=None, env=None, timeout=3600):
    p = subprocess.run(cmd, cwd=cwd, env=env, capture_output=True, text=True, timeout=timeout)
    return p.returncode, p.stdout + p.stderr


def main():
    args = [a for a in sys.argv[1:] if not a.startswith("--")]
    tier = "quick"
    if "--tier" in sys.argv:
        tier = sys.argv[sys.argv.index("--tier") + 1]
        args = [a for a in args if a != tier]
    prop = args[0]
    rnd = ""
    if "--round" in sys.argv:
        rnd = sys.argv[sys.argv.index("--round") + 1]
        args = [a for a in args if a != rnd]
    base = f"/tmp/seed{rnd}-{prop}/seed"
    fromrepo = not os.path.isdir(base)      # scratch worktree gone: re-evaluate the copies kept under seeded/
    if fromrepo:
        pref = f"{prop}-{('r' + rnd) if rnd else ''}m"
        names = sorted(d for d in os.listdir(os.path.join(VERIF, "seeded")) if d.startswith(pref))
        muts = [a for a in args[1:]] or [d[len(pref) - 1:] for d in names]
    else:
        muts = [a for a in args[1:]] or sorted(os.listdir(base))
    wt = f"/tmp/seedrun-{prop}"
    sh(["git", "-C", "/repo", "worktree", "remove", "--force", wt])
    rc, out = sh(["git", "-C", "/repo", "worktree", "add", "--detach", wt, "HEAD"])
    env = dict(os.environ, PYTHONPATH=f"{wt}/src", PYTHONHASHSEED="0")
    results = []
    for m in muts:
        d = os.path.join(VERIF, "seeded", f"{prop}-{('r' + rnd) if rnd else ''}{m}") if fromrepo else os.path.join(base, m)
        if not os.path.exists(os.path.join(d, "patch.diff")):
            continue
        sh(["git", "-C", wt, "reset", "--hard", "-q"])      # also clears a failed 3-way merge of the previous seed
        sh(["git", "-C", wt, "clean", "-fdq"])
        res = {"mutation": f"{prop}-{('r' + rnd) if rnd else ''}{m}", "repo_head": sh(["git", "-C", "/repo", "rev-parse", "--short", "HEAD"])[1].strip()}
        rc0, o0 = sh([PY, os.path.join(d, "demo.py")], cwd=wt, env=env, timeout=900)
        res["demo_clean_rc"] = rc0
        rc, o = sh(["git", "-C", wt, "apply", os.path.join(d, "patch.diff")])
        if rc != 0:
            rc, o = sh(["git", "-C", wt, "apply", "--3way", os.path.join(d, "patch.diff")])
        res["applies"] = rc == 0
        if rc != 0:
            res["apply_error"] = o[-400:]
            results.append(res)
            print(json.dumps(res))
            continue
        rc1, o1 = sh([PY, os.path.join(d, "demo.py")], cwd=wt, env=env, timeout=900)
        res["demo_mutated_rc"] = rc1
        res["demo_mutated_tail"] = o1[-600:]
        rc2, o2 = sh([PY, "-m", "pytest", "-q", "-p", "no:cacheprovider", "--timeout=900"], cwd=wt, env=env, timeout=1800)
        mm = re.search(r"(\d+) failed, (\d+) passed", o2)
        res["suite"] = mm.group(0) if mm else o2[-200:]
        res["suite_baseline"] = bool(mm and mm.group(1) == "1" and mm.group(2) == "1433")
        envc = dict(os.environ, TYPELIB_REPO=wt)
        rc3, o3 = sh(["./check", prop, "--tier", tier], cwd=VERIF, env=envc, timeout=7200)
        viol = [l for l in o3.split("\n") if l.startswith("VIOLATION")]
        res["check_rc"] = rc3
        res["check_violation_lines"] = viol[:6]
        res["detected"] = rc3 == 1 and bool(viol)
        res["with_failing_input"] = any("no-failing-input-found" not in l for l in viol)
        res["check_tail"] = "\n".join(l for l in o3.split("\n") if "done:" in l or "BROKEN" in l or "OBLIGATION" in l)[-1500:]
        dst = os.path.join(VERIF, "seeded", res["mutation"])
        os.makedirs(dst, exist_ok=True)
        for f in ("patch.diff", "demo.py"):
            if os.path.abspath(d) != os.path.abspath(dst):
                shutil.copy(os.path.join(d, f), os.path.join(dst, f))
        meta = json.load(open(os.path.join(d, "meta.json")))
        meta["confirmed"] = {k: res[k] for k in ("repo_head", "demo_clean_rc", "demo_mutated_rc", "suite", "suite_baseline")}
        meta["ran"] = [f"git apply patch.diff on a scratch worktree of /repo HEAD {res['repo_head']}",
                       f"PYTHONPATH=<wt>/src {PY} demo.py (clean: rc {rc0}; mutated: rc {rc1})",
                       "PYTHONPATH=<wt>/src pytest -q (" + str(res["suite"]) + ")",
                       f"TYPELIB_REPO=<wt> ./check {prop} --tier {tier} -> rc {rc3}"]
        meta["check_result"] = {k: res[k] for k in ("detected", "with_failing_input", "check_violation_lines", "check_tail")}
        json.dump(meta, open(os.path.join(dst, "meta.json"), "w"), indent=1)
        results.append(res)
        print(json.dumps({k: res[k] for k in ("mutation", "demo_clean_rc", "demo_mutated_rc", "suite_baseline",
                                                "detected", "with_failing_input")}))
    sh(["git", "-C", wt, "reset", "--hard", "-q"])
    sh(["git", "-C", "/repo", "worktree", "remove", "--force", wt])


if __name__ == "__main__":
    main()
