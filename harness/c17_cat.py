"""C17 catalogue: every object is described ONCE (a JSON-able tuple) and from the description we derive
   * the Python object (`build`), * the Coq `ity` term (`emit`), and, for results, the inverse (`describe`).

Descriptions
  ("cls", name) ("none",) ("ellipsis",) ("special", name) ("typing", name)
  ("tsub", name, [args]) ("csub", cls, [args]) ("usub", cls, [args])
  ("union", "U"|"O"|"P", [args]) ("literal", [lits]) ("final", d) ("classvar", d)
  ("newtype", nm, d) ("alias", nm, d) ("aliasstr", nm, ref) ("fref", arg, module|None)
  ("typevar", nm, bound|None, [constraints]) ("callT", ps|None, r) ("callB", ps|None, r)
  ("routine", nm) ("arglist", [args]) ("value", lit) ("inst", cls)
lits: ["i", n] ["s", str] ["b", bool] ["n"] ["y", str(bytes, ascii)]
"""
from __future__ import annotations

import collections
import collections.abc as cabc
import datetime
import decimal
import enum
import fractions
import functools
import inspect
import ipaddress
import numbers
import operator
import os
import pathlib
import re
import sqlite3
import types
import typing as tp
import uuid

import impl
import lib
from lib import coq_bool, coq_list, coq_opt, coq_string

MODNAME = "verif_c17_mod"

USER_SRC = '''
import abc, collections, collections.abc, dataclasses, datetime, decimal, enum, fractions, functools
import pathlib, typing, uuid
T = typing.TypeVar("T")
@dataclasses.dataclass
class UData:
    a: int
    b: str = ""
@dataclasses.dataclass(frozen=True)
class UFrozen:
    a: int
@dataclasses.dataclass(slots=True)
class USlotData:
    a: int
class UDataSub(UData):
    pass
class UNamed(typing.NamedTuple):
    a: int
    b: str
UNamedC = collections.namedtuple("UNamedC", ["a", "b"])
class UNamedSub(UNamed):
    pass
class UTD(typing.TypedDict):
    a: int
class UTDPartial(typing.TypedDict, total=False):
    a: int
class UPlain:
    a: int
    def __init__(self, a: int):
        self.a = a
class UPlainSub(UPlain):
    pass
class UBare:
    pass
class USlots:
    __slots__ = ("a",)
    a: int
    def __init__(self, a: int):
        self.a = a
class UEnum(enum.Enum):
    A = 1
class UIntEnum(enum.IntEnum):
    A = 1
class UStrEnum(str, enum.Enum):
    A = "a"
class UStr(str): pass
class UInt(int): pass
class UFloat(float): pass
class UBytes(bytes): pass
class UDict(dict): pass
class UList(list): pass
class UTuple(tuple): pass
class USet(set): pass
class UDate(datetime.date): pass
class UDateTime(datetime.datetime): pass
class UTime(datetime.time): pass
class UDelta(datetime.timedelta): pass
class UDecimal(decimal.Decimal): pass
class UFraction(fractions.Fraction): pass
class UUUID(uuid.UUID): pass
class UPath(pathlib.PurePosixPath): pass
class UMapping(collections.abc.Mapping):
    def __getitem__(self, k): raise KeyError(k)
    def __iter__(self): return iter(())
    def __len__(self): return 0
class USequence(collections.abc.Sequence):
    def __getitem__(self, i): raise IndexError(i)
    def __len__(self): return 0
class UIterable:
    def __iter__(self): return iter(())
class UIterator:
    def __iter__(self): return self
    def __next__(self): raise StopIteration
class UGeneric(typing.Generic[T]):
    x: T
class UGenList(typing.List[T]):
    pass
class UCallable:
    def __call__(self): return None
class UFromDict:
    @classmethod
    def from_dict(cls, d): return cls()
class UAbstract(abc.ABC):
    @abc.abstractmethod
    def f(self): ...
class UDescriptor:
    def __get__(self, instance, owner): return 1
class UUnhashable:
    def __eq__(self, other): return True
class UProps:
    @property
    def p(self): return 1
    @functools.cached_property
    def c(self): return 2
class Union:
    pass
class Optional:
    pass
def ufunc(x: int) -> int:
    return x
class Outer:
    class Mid:
        class Inner:
            pass
        class Box(typing.Generic[T]):
            pass
def factory():
    def inner_factory():
        class Local:
            pass
        return Local
    return inner_factory()
UMid = Outer.Mid
UInner = Outer.Mid.Inner
UBox = Outer.Mid.Box
ULocal = factory()
'''

# classes the Coq model names (constants c_<key> in Model/Inspect.v).  key -> python object
def _generator_cls():
    def g():
        yield 1
    return type(g())


def named_classes():
    return {
        "NoneType": type(None), "object": object, "type": type, "int": int, "bool": bool, "float": float,
        "complex": complex, "str": str, "bytes": bytes, "bytearray": bytearray, "memoryview": memoryview,
        "list": list, "set": set, "frozenset": frozenset, "tuple": tuple, "dict": dict,
        "Number": numbers.Number, "Enum": enum.Enum, "Pattern": re.Pattern, "PurePath": pathlib.PurePath,
        "date": datetime.date, "datetime": datetime.datetime, "time": datetime.time, "timedelta": datetime.timedelta,
        "Decimal": decimal.Decimal, "Fraction": fractions.Fraction, "UUID": uuid.UUID,
        "Iterable": cabc.Iterable, "Iterator": cabc.Iterator, "Sequence": cabc.Sequence,
        "Collection": cabc.Collection, "Mapping": cabc.Mapping, "abcCallable": cabc.Callable,
        "Generic": tp.Generic, "UnionType": types.UnionType, "property": property,
        "cached_property": functools.cached_property, "Any": tp.Any,
    }


def other_classes(mod):
    d = {
        "range": range, "Match": re.Match, "Path": pathlib.Path, "PurePosixPath": pathlib.PurePosixPath,
        "PureWindowsPath": pathlib.PureWindowsPath, "PosixPath": pathlib.PosixPath,
        "IPv4Address": ipaddress.IPv4Address, "IPv6Address": ipaddress.IPv6Address,
        "defaultdict": collections.defaultdict, "deque": collections.deque, "OrderedDict": collections.OrderedDict,
        "Counter": collections.Counter, "ChainMap": collections.ChainMap,
        "MappingProxyType": types.MappingProxyType, "Row": sqlite3.Row, "IntEnum": enum.IntEnum,
        "Integral": numbers.Integral, "Real": numbers.Real, "Complex": numbers.Complex, "Rational": numbers.Rational,
        "ellipsis": type(Ellipsis), "generator": _generator_cls(), "list_iterator": type(iter([])),
        "GenericAlias": types.GenericAlias, "FunctionType": types.FunctionType,
        "AbstractContextManager": __import__("contextlib").AbstractContextManager,
        "AbstractAsyncContextManager": __import__("contextlib").AbstractAsyncContextManager,
    }
    from typelib import constants
    d["tl_empty"] = constants.empty
    d["param_empty"] = inspect.Parameter.empty
    for n in cabc.__all__:
        k = "abc" + n
        if k == "abcCallable" or n in ("Iterable", "Iterator", "Sequence", "Collection", "Mapping"):
            continue
        d[k] = getattr(cabc, n)
    for n, v in vars(mod).items():
        if isinstance(v, type) and v.__module__ == MODNAME:
            d[n] = v
    return d


SPECIALS = ["Union", "Optional", "Literal", "Final", "ClassVar", "NoReturn", "TypeAlias"]
SPECIAL_COQ = {n: "S" + n for n in SPECIALS}


class Cat:
    """The class/alias universe of one run."""

    def __init__(self, model_path=None):
        self.mod = impl.new_module(MODNAME, USER_SRC)
        model_path = model_path or os.path.join(lib.THEORIES, "Model", "Inspect.v")
        txt = open(model_path).read()
        ids = {m.group(1): int(m.group(2)) for m in
               re.finditer(r"Definition c_(\w+)\s*:\s*cls\s*:=\s*(\d+)%N", txt)}
        self.ta_callable_id = int(re.search(r"Definition ta_Callable\s*:\s*N\s*:=\s*(\d+)%N", txt).group(1))
        self.modname_model = re.search(r'Definition user_module\s*:\s*string\s*:=\s*"([^"]*)"', txt).group(1)
        assert self.modname_model == MODNAME
        named = named_classes()
        self.problems = []
        if set(ids) != set(named):
            self.problems.append(f"model class constants differ from harness: {sorted(set(ids) ^ set(named))}")
        self.classes: dict[str, type] = {}
        self.cid: dict[str, int] = {}
        for k, v in named.items():
            self.classes[k] = v
            self.cid[k] = ids.get(k, 9000 + len(self.cid))
        nxt = 500
        for k, v in other_classes(self.mod).items():
            if any(v is c for c in self.classes.values()):
                continue
            self.classes[k] = v
            self.cid[k] = nxt
            nxt += 1
        self.cls_by_obj = {id(v): k for k, v in self.classes.items()}
        # typing aliases
        self.talias: dict[str, object] = {}
        self.tid: dict[str, int] = {}
        n = 1
        for k, v in vars(tp).items():
            if type(v).__name__ in ("_SpecialGenericAlias", "_CallableType", "_TupleType", "_DeprecatedGenericAlias"):
                self.talias[k] = v
                if k == "Callable":
                    self.tid[k] = self.ta_callable_id
                else:
                    if n == self.ta_callable_id:
                        n += 1
                    self.tid[k] = n
                    n += 1
        self.ta_by_obj = {id(v): k for k, v in self.talias.items()}
        self.specials = {n: getattr(tp, n) for n in SPECIALS}
        self.sp_by_obj = {id(v): k for k, v in self.specials.items()}
        self._memo: dict[str, object] = {}
        self._keep = []

    # -- class lookup ----------------------------------------------------------
    def cls_name(self, c):
        k = self.cls_by_obj.get(id(c))
        if k is None:
            raise KeyError(f"class {c!r} is not in the catalogue")
        return k

    def ensure_class(self, c):
        """classes met in typelib tables that are not in the catalogue get a fresh id"""
        if id(c) not in self.cls_by_obj:
            k = "x_" + re.sub(r"\W", "_", f"{c.__module__}_{c.__qualname__}")
            self.classes[k] = c
            self.cid[k] = max(self.cid.values()) + 1
            self.cls_by_obj[id(c)] = k
        return self.cls_by_obj[id(c)]

    # -- description -> python object -------------------------------------------
    def build(self, d):
        key = repr(d)
        if key in self._memo:
            return self._memo[key]
        o = self._build(d)
        self._memo[key] = o
        self._keep.append(o)
        return o

    def _lit(self, l):
        k = l[0]
        return {"i": lambda: l[1], "s": lambda: l[1], "b": lambda: bool(l[1]), "n": lambda: None,
                "y": lambda: l[1].encode("ascii")}[k]()

    def _build(self, d):
        from typelib.py import compat
        k = d[0]
        B = self.build
        if k == "cls":
            return self.classes[d[1]]
        if k == "none":
            return None
        if k == "ellipsis":
            return Ellipsis
        if k == "special":
            return self.specials[d[1]]
        if k == "typing":
            return self.talias[d[1]]
        if k in ("tsub", "csub", "usub"):
            base = self.talias[d[1]] if k == "tsub" else self.classes[d[1]]
            a = tuple(B(x) for x in d[2])
            if not a:
                return base[()]
            return base[a if len(a) > 1 else a[0]]
        if k == "union":
            a = [B(x) for x in d[2]]
            if d[1] == "U":
                return tp.Union[tuple(a)]
            if d[1] == "O":
                assert len(a) == 2 and a[1] is type(None)
                return tp.Optional[a[0]]
            o = functools.reduce(operator.or_, [None if x is type(None) else x for x in a])
            assert type(o) is types.UnionType, (d, type(o))
            return o
        if k == "literal":
            return tp.Literal[tuple(self._lit(l) for l in d[1])]
        if k == "final":
            return tp.Final[B(d[1])]
        if k == "classvar":
            return tp.ClassVar[B(d[1])]
        if k == "newtype":
            ns = {"typing": tp, "sup": B(d[2])}
            ns["__name__"] = MODNAME
            exec(compile(f"r = typing.NewType({d[1]!r}, sup)", "<c17>", "exec", dont_inherit=True), ns)
            return ns["r"]
        if k in ("alias", "aliasstr"):
            ns = {"TAT": compat.TypeAliasType, "v": B(d[2]) if k == "alias" else d[2], "__name__": MODNAME}
            exec(compile(f"r = TAT({d[1]!r}, v)", "<c17>", "exec", dont_inherit=True), ns)
            return ns["r"]
        if k == "fref":
            return tp.ForwardRef(d[1], module=d[2]) if d[2] is not None else tp.ForwardRef(d[1])
        if k == "typevar":
            if d[2] is not None:
                return tp.TypeVar(d[1], bound=B(d[2]))
            return tp.TypeVar(d[1], *[B(x) for x in d[3]])
        if k in ("callT", "callB"):
            base = tp.Callable if k == "callT" else cabc.Callable
            ps = Ellipsis if d[1] is None else [B(x) for x in d[1]]
            return base[ps, B(d[2])]
        if k == "routine":
            return getattr(self.mod, d[1])
        if k == "value":
            return self._lit(d[1])
        if k == "inst":
            return self.make_instance(d[1])
        raise ValueError(d)

    def make_instance(self, cname):
        c = self.classes[cname]
        special = {
            "NoneType": lambda: None, "UData": lambda: c(1), "UFrozen": lambda: c(1), "USlotData": lambda: c(1),
            "UDataSub": lambda: c(1), "UNamed": lambda: c(1, "a"), "UNamedC": lambda: c(1, 2), "UNamedSub": lambda: c(1, "a"),
            "UPlain": lambda: c(1), "UPlainSub": lambda: c(1), "USlots": lambda: c(1), "UEnum": lambda: c.A,
            "UIntEnum": lambda: c.A, "UStrEnum": lambda: c.A, "date": lambda: c(2020, 1, 2), "UDate": lambda: c(2020, 1, 2),
            "datetime": lambda: c(2020, 1, 2), "UDateTime": lambda: c(2020, 1, 2), "UUID": lambda: c(int=1),
            "UUUID": lambda: c(int=1), "property": lambda: self.mod.UProps.__dict__["p"],
            "cached_property": lambda: self.mod.UProps.__dict__["c"], "Pattern": lambda: re.compile("a"),
            "Match": lambda: re.match("a", "a"), "IPv4Address": lambda: c("1.2.3.4"), "IPv6Address": lambda: c("::1"),
            "MappingProxyType": lambda: c({}), "memoryview": lambda: c(b"a"), "ellipsis": lambda: Ellipsis,
            "generator": lambda: (x for x in ()), "list_iterator": lambda: iter([]), "range": lambda: range(2),
            "FunctionType": lambda: self.mod.ufunc, "ChainMap": lambda: c({}), "type": lambda: int,
            "GenericAlias": lambda: list[int], "UnionType": lambda: int | str,
        }
        if cname in special:
            return special[cname]()
        return c()

    # -- python object -> description (for results) ------------------------------
    def describe(self, o):
        D = self.describe
        if o is None:
            return ("none",)
        if o is Ellipsis:
            return ("ellipsis",)
        if id(o) in self.sp_by_obj:
            return ("special", self.sp_by_obj[id(o)])
        if id(o) in self.ta_by_obj:
            return ("typing", self.ta_by_obj[id(o)])
        if isinstance(o, type) and type(o) is not types.GenericAlias:
            return ("cls", self.cls_name(o))
        if isinstance(o, bool):
            return ("value", ["b", o])
        if isinstance(o, int):
            return ("value", ["i", o])
        if isinstance(o, str):
            return ("value", ["s", o])
        if isinstance(o, bytes):
            return ("value", ["y", o.decode("ascii")])
        if isinstance(o, list):
            return ("arglist", [D(x) for x in o])
        if isinstance(o, tp.ForwardRef):
            return ("fref", o.__forward_arg__, o.__forward_module__)
        if isinstance(o, tp.TypeVar):
            return ("typevar", o.__name__, None if o.__bound__ is None else D(o.__bound__),
                    [D(x) for x in o.__constraints__])
        if hasattr(o, "__supertype__"):
            return ("newtype", o.__name__, D(o.__supertype__))
        from typelib.py import compat
        if isinstance(o, compat.TypeAliasType):
            v = o.__value__
            return ("aliasstr", o.__name__, v) if isinstance(v, str) else ("alias", o.__name__, D(v))
        if isinstance(o, types.UnionType):
            return ("union", "P", [D(x) for x in o.__args__])
        og = tp.get_origin(o)
        if og is tp.Union:
            a = [D(x) for x in o.__args__]
            sp = "O" if (len(a) == 2 and a[1] == ("cls", "NoneType")) else "U"
            return ("union", sp, a)
        if og is tp.Literal:
            return ("literal", [["n"] if x is None else D(x)[1] for x in o.__args__])
        if og is tp.Final:
            return ("final", D(o.__args__[0]))
        if og is tp.ClassVar:
            return ("classvar", D(o.__args__[0]))
        if og is cabc.Callable:
            ps, r = tp.get_args(o)
            k = "callT" if type(o).__module__ == "typing" else "callB"
            return (k, None if ps is Ellipsis else [D(x) for x in ps], D(r))
        if type(o) is types.GenericAlias:
            return ("csub", self.cls_name(og), [D(x) for x in o.__args__])
        if type(o).__module__ == "typing" and og is not None:
            nm = getattr(o, "_name", None)
            if nm in self.talias and self.talias[nm].__origin__ is og:
                return ("tsub", nm, [D(x) for x in o.__args__])
            return ("usub", self.cls_name(og), [D(x) for x in o.__args__])
        if inspect.isroutine(o) and getattr(o, "__module__", None) == MODNAME:
            return ("routine", o.__name__)
        raise ValueError(f"cannot describe {o!r} ({type(o)})")

    # -- description -> Coq -----------------------------------------------------
    def emit_cls(self, name):
        return f"{self.cid[name]}%N"

    def emit_lit(self, l):
        k = l[0]
        if k == "i":
            return f"(LInt ({l[1]})%Z)"
        if k == "s":
            return f"(LStr {coq_string(l[1])})"
        if k == "b":
            return f"(LBool {coq_bool(l[1])})"
        if k == "n":
            return "LNone"
        return f"(LBytes {coq_string(l[1])})"

    def emit(self, d):
        E = self.emit
        k = d[0]
        L = lambda xs: coq_list([E(x) for x in xs], "ity")
        if k == "cls":
            return f"(IClass {self.emit_cls(d[1])})"
        if k == "none":
            return "INone"
        if k == "ellipsis":
            return "IEllipsis"
        if k == "special":
            return f"(ISpecial {SPECIAL_COQ[d[1]]})"
        if k == "typing":
            return f"(ITyping {self.tid[d[1]]}%N)"
        if k == "tsub":
            return f"(ITypingSub {self.tid[d[1]]}%N {L(d[2])})"
        if k == "csub":
            return f"(IClassSub {self.emit_cls(d[1])} {L(d[2])})"
        if k == "usub":
            return f"(IUserSub {self.emit_cls(d[1])} {L(d[2])})"
        if k == "union":
            return f"(IUnion {'U' + {'U': 'Union', 'O': 'Optional', 'P': 'Pipe'}[d[1]]} {L(d[2])})"
        if k == "literal":
            return f"(ILiteral {coq_list([self.emit_lit(l) for l in d[1]], 'lit')})"
        if k == "final":
            return f"(IFinal {E(d[1])})"
        if k == "classvar":
            return f"(IClassVar {E(d[1])})"
        if k == "newtype":
            return f"(INewType {coq_string(d[1])} {E(d[2])})"
        if k == "alias":
            return f"(IAlias {coq_string(d[1])} {E(d[2])})"
        if k == "aliasstr":
            return f"(IAliasStr {coq_string(d[1])} {coq_string(d[2])})"
        if k == "fref":
            return f"(IForwardRef {coq_string(d[1])} {coq_opt(None if d[2] is None else coq_string(d[2]), 'string')})"
        if k == "typevar":
            return f"(ITypeVar {coq_string(d[1])} {coq_opt(None if d[2] is None else E(d[2]), 'ity')} {L(d[3])})"
        if k in ("callT", "callB"):
            return f"(ICallable {'true' if k == 'callT' else 'false'} {coq_opt(None if d[1] is None else L(d[1]), '(list ity)')} {E(d[2])})"
        if k == "routine":
            return f"(IRoutine {coq_string(d[1])})"
        if k == "arglist":
            return f"(IArgList {L(d[1])})"
        if k == "value":
            return f"(IValue {self.emit_lit(d[1])})"
        if k == "inst":
            return f"(IInst {self.emit_cls(d[1])})"
        raise ValueError(d)


def norm(d):
    """JSON round-trip normal form of a description (tuples -> lists)"""
    import json
    return json.loads(json.dumps(d))
