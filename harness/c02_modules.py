"""C02 -- string-reference T issued from several modules, in one process, without clearing caches in between.

The statement quantifies over every supported T, and DESIGN 3.1 lists string references resolvable from the caller's
module among the spellings of T.  A bare string names a different type in each calling module, so the agreement of
typelib.encode / typelib.decode / Codec.encode / Codec.decode / the explicit composition -- and "bytes-like T is carried
verbatim" -- must hold for the string issued from module A and, later in the same process, for the SAME string issued
from module B where it names another type (round-5 seeded change C02-r5m1 memoised the bytes-like test on the bare text).

Each scenario: 2-3 synthesised modules binding one name to a bytes-like type / a dataclass / a NewType of str ...,
each with helper functions that call the entry points from inside the module; every ordering of the modules is a history.
"""
from __future__ import annotations

import itertools
import json

import impl

BINDINGS = {
    "bytes-newtype": ("import typing\nBlob = typing.NewType('Blob', bytes)\n", "b'\\x00\\xffraw'"),
    "bytearray": ("Blob = bytearray\n", "bytearray(b'ab\\xfe')"),
    "dataclass": ("import dataclasses\n@dataclasses.dataclass\nclass Blob:\n    data: str\n    size: int\n",
                  "Blob(data='payload', size=7)"),
    "str-newtype": ("import typing\nBlob = typing.NewType('Blob', str)\n", "'text'"),
    "list-alias": ("Blob = list[int]\n", "[1, 2, 3]"),
}
HELPERS = '''
import json as _json
import typelib as _tl
from typelib import compat as _compat

def _value():
    return eval(_VALUE_SRC)

def api_encode(cfg):
    return _tl.encode(_value(), t="Blob", **{k: v for k, v in cfg.items() if k == "encoder"})

def codec_encode(cfg):
    return _tl.codec("Blob", **cfg).encode(_value())

def explicit_encode(cfg, bytes_like):
    m = _tl.marshal(_value(), t="Blob")
    return m if bytes_like else cfg.get("encoder", _compat.json.dumps)(m)

def api_decode(cfg, b):
    return _tl.decode("Blob", b, **{k: v for k, v in cfg.items() if k == "decoder"})

def codec_decode(cfg, b):
    return _tl.codec("Blob", **cfg).decode(b)
'''


def _tag_enc(o):
    return b"\x01T:" + json.dumps(o, separators=(",", ":")).encode()


def _tag_dec(b):
    b = bytes(b)
    if not b.startswith(b"\x01T:"):
        raise ValueError("untagged")
    return json.loads(b[3:])


def _std_enc(o):
    return json.dumps(o).encode()


CONFIGS = {"default": {}, "stdlib": {"encoder": _std_enc, "decoder": json.loads},
           "tag": {"encoder": _tag_enc, "decoder": _tag_dec}}


def _call(f, *a):
    try:
        return ("ok", f(*a))
    except Exception as e:      # noqa: BLE001 - the observation IS the outcome
        return ("raise", impl.exc_kind(e))


def _same(a, b):
    if a[0] != b[0]:
        return False
    if a[0] == "raise":
        return True
    x, y = a[1], b[1]
    if isinstance(x, (bytes, bytearray, memoryview)) and isinstance(y, (bytes, bytearray, memoryview)):
        return bytes(x) == bytes(y)
    return type(x) is type(y) and x == y


def scenarios(full: bool):
    kinds = list(BINDINGS)
    pairs = [(a, b) for a in kinds for b in kinds if a != b and ("bytes" in a or "byte" in a) != ("bytes" in b or "byte" in b)]
    if not full:
        pairs = pairs[:8]
    for a, b in pairs:
        for cfg in CONFIGS:
            yield {"kinds": [a, b], "config": cfg}
    if full:
        for tri in itertools.permutations(kinds, 3):
            yield {"kinds": list(tri), "config": "default"}


def run_scenario(sc, tag="s"):
    """returns list of failures (each with key/clause/symptom) for one history"""
    mods = []
    fails = []
    impl.clear_caches()
    try:
        for i, k in enumerate(sc["kinds"]):
            src, vsrc = BINDINGS[k]
            name = f"verif_c02_mod_{tag}_{i}_{k.replace('-', '_')}"
            mods.append((k, impl.new_module(name, src + f"_VALUE_SRC = {vsrc!r}\n" + HELPERS)))
        cfg = CONFIGS[sc["config"]]
        for step, (k, m) in enumerate(mods):
            bytes_like = k in ("bytes-newtype", "bytearray")
            a = _call(m.api_encode, cfg)
            c = _call(m.codec_encode, cfg)
            e = _call(m.explicit_encode, cfg, bytes_like)
            what = None
            if not (_same(a, c) and _same(c, e)):
                what = f"encode entry points disagree: typelib.encode {a!r:.80}, Codec.encode {c!r:.80}, explicit {e!r:.80}"
            elif bytes_like and a[0] == "ok" and bytes(a[1]) != bytes(m._value()):
                what = f"bytes-like T not carried verbatim: {a!r:.80}"
            elif e[0] == "ok":
                d1 = _call(m.api_decode, cfg, e[1])
                d2 = _call(m.codec_decode, cfg, e[1])
                if not _same(d1, d2):
                    what = f"decode entry points disagree: typelib.decode {d1!r:.80}, Codec.decode {d2!r:.80}"
                elif d1[0] == "ok" and not (d1[1] == m._value()):
                    what = f"decode(encode(v)) != v: {d1!r:.80}"
            if what:
                fails.append({"kind": "c02-string-ref-modules", "clause": "string-ref-modules", "config": sc["config"],
                              "scenario": sc, "step": step, "binding": k, "symptom": what,
                              "texpr": "'Blob' (bare string reference)", "vexpr": BINDINGS[k][1], "source": BINDINGS[k][0],
                              "key": json.dumps(["string-ref-modules", sc["kinds"][:step + 1][-2:], sc["config"]])})
                break
    finally:
        for _, m in mods:
            impl.drop_module(m.__name__)
        impl.clear_caches()
    return fails


def check(full: bool):
    fails, n = [], 0
    for i, sc in enumerate(scenarios(full)):
        n += 1
        fails += run_scenario(sc, tag=str(i))
    return n, fails


def replay(payload):
    fs = run_scenario(payload["scenario"], tag="r")
    return {"fails": bool(fs), "failures": [{k: v for k, v in f.items() if k != "source"} for f in fs]}
