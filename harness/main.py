import sys, os
sys.path.insert(0, os.path.dirname(os.path.abspath(__file__)))
import lib
sys.exit(lib.main())
