"""Helpers that touch the implementation in /repo (imported in-process; PYTHONPATH=/repo/src)."""
from __future__ import annotations

import importlib
import pkgutil
import sys
import types

_CACHED = None


def typelib_modules():
    import typelib
    mods = [typelib]
    for m in pkgutil.walk_packages(typelib.__path__, "typelib."):
        try:
            mods.append(importlib.import_module(m.name))
        except Exception:
            pass
    return mods


def cached_functions():
    """Every object reachable as a module/class attribute of typelib that has cache_clear."""
    global _CACHED
    if _CACHED is None:
        seen = {}
        for mod in typelib_modules():
            for name, obj in list(vars(mod).items()):
                if hasattr(obj, "cache_clear") and callable(getattr(obj, "cache_clear")):
                    seen[id(obj)] = obj
                if isinstance(obj, type) and obj.__module__.startswith("typelib"):
                    for n2, o2 in list(vars(obj).items()):
                        if hasattr(o2, "cache_clear"):
                            seen[id(o2)] = o2
        _CACHED = list(seen.values())
    return _CACHED


def clear_caches():
    for f in cached_functions():
        try:
            f.cache_clear()
        except Exception:
            pass


def exc_kind(e: BaseException) -> str:
    """Map an exception to the model's exn constructors by MRO."""
    import decimal
    if isinstance(e, RecursionError):
        return "ERecursion"
    if isinstance(e, UnicodeError):
        return "EUnicode"
    if isinstance(e, decimal.InvalidOperation) or isinstance(e, ArithmeticError):
        return "EArith"
    if isinstance(e, KeyError):
        return "EKey"
    if isinstance(e, StopIteration):
        return "EStopIter"
    if isinstance(e, ValueError):
        return "EValue"
    if isinstance(e, TypeError):
        return "EType"
    if isinstance(e, SyntaxError):
        return "ESyntax"
    if isinstance(e, AttributeError):
        return "EAttribute"
    return "EOther"


def new_module(name: str, source: str) -> types.ModuleType:
    """Create a real importable throw-away module from source."""
    mod = types.ModuleType(name)
    mod.__file__ = f"<verif:{name}>"
    sys.modules[name] = mod
    exec(compile(source, mod.__file__, "exec", dont_inherit=True), mod.__dict__)
    return mod


def drop_module(name: str):
    sys.modules.pop(name, None)
