"""C15, round 3: the "shared sub-annotation" stratum of the annotation grammar.

The property quantifies over ALL annotations of the extended constructor grammar to depth 3.  The grammar of
props/c15.py closes the leaves under the UNARY constructors twice (and samples a third level), but puts the BINARY
ones (fixed tuples, unions) only directly above leaves: no fixed tuple / mapping / union / class ever has a member of
depth >= 2, and no generic sub-annotation ever occurs on two branches of one annotation at different depths.  That is
the region in which graph.get_type_graph has to tell "a generic that contains itself" from "a generic that is merely
used in more than one place" (the `path` / `expanded` bookkeeping, nodes identified by (type, unwrapped, var)).

This module enumerates that region systematically:

    for a generic sub-annotation g of a small BASIS,
    for two context paths C1, C2 (compositions of 0, 1 or 2 one-hole contexts: every container kind, a fixed tuple
        with the hole first / last, a mapping with the hole as key / as value, Optional, Union, a class field),
    for a PARENT (fixed tuple, mapping, union, class with two members) and both member orders:
        PARENT(C1[g], C2[g])

plus the "singles" C[g] for every context path of length 2 (binary constructors above non-leaves).

An annotation is a plain `universe` description; g of ORACLE_BASIS (Callable[[..], ..], type[X], Literal) are leaves
the model does not have: they are written as pseudo-leaves ("leaf", <source text>) -- universe.src_ty prints such a
leaf as its key -- and go to the oracle only.
"""
from __future__ import annotations

import copy
import itertools

import universe

INT, STR, ANY, NONE = ("leaf", "int"), ("leaf", "str"), ("leaf", "Any"), ("none",)

# generic sub-annotations the model can express (subscripted generics, unions, a parameterised user generic,
# a constrained TypeVar = the union of its constraints after normalisation)
BASIS = {
    "vtuple": ("seq", "KTuple", "tuple[{}, ...]", INT),
    "list": ("seq", "KList", "list[{}]", INT),
    "dict": ("map", "KDict", "dict[{}, {}]", STR, INT),
    "optional": ("union", "Optional", [INT, NONE]),
    "union": ("union", "Union", [INT, STR]),
    "ftuple": ("tuple", "tuple[{}]", [INT, STR]),
    "list-any": ("seq", "KList", "list[{}]", ANY),
    "user-generic": ("leaf", "XG_int"),
    "iter-tvar": ("seq", "KList", "typing.Iterable[{}]", ("tvar", "XTC")),
    "tvar": ("tvar", "XTC"),
}
# ... and those only the oracle can judge (pass-through positions and Literal)
ORACLE_BASIS = {
    "callable": "typing.Callable[[int], str]",
    "type-of": "type[int]",
    "literal": "typing.Literal[1, 'a']",
}
ORACLE_SRCS = set(ORACLE_BASIS.values())
FLAVOURS = ["dataclass", "plain", "namedtuple", "typeddict"]


class Alloc:
    """allocates the classes an annotation needs in the environment of its group"""

    def __init__(self, env):
        self.env = env

    def cls(self, fields):
        n = len(self.env["defs"])
        self.env["defs"][n] = ("class", FLAVOURS[n % len(FLAVOURS)], "", [(f, t, None) for f, t in fields])
        return ("name", n)


def is_union(d):
    return d[0] == "union"


# one-hole contexts: (x, alloc) -> description | None (None = typing would rewrite the annotation: not generated)
CONTEXTS = {
    "list": lambda x, A: ("seq", "KList", "list[{}]", x),
    "vtuple": lambda x, A: ("seq", "KTuple", "tuple[{}, ...]", x),
    "sequence": lambda x, A: ("seq", "KList", "typing.Sequence[{}]", x),
    "set": lambda x, A: ("seq", "KSet", "set[{}]", x),
    "dictval": lambda x, A: ("map", "KDict", "dict[{}, {}]", STR, x),
    "dictkey": lambda x, A: ("map", "KDict", "dict[{}, {}]", x, INT),
    "optional": lambda x, A: None if is_union(x) else ("union", "Optional", [x, NONE]),
    "union": lambda x, A: None if is_union(x) or x == STR else ("union", "Union", [x, STR]),
    "tup0": lambda x, A: ("tuple", "tuple[{}]", [x, INT]),
    "tup1": lambda x, A: ("tuple", "tuple[{}]", [INT, x]),
    "field": lambda x, A: A.cls([("a", x)]),
}
CORE = ["list", "dictval", "tup0", "field"]


def parent(kind, a, b, A):
    if a is None or b is None:
        return None
    if kind == "tuple":
        return ("tuple", "tuple[{}]", [a, b])
    if kind == "dict":
        return ("map", "KDict", "dict[{}, {}]", a, b)
    if kind == "union":
        if is_union(a) or is_union(b) or a == b:
            return None
        return ("union", "Union", [a, b])
    if kind == "class":
        return A.cls([("x", a), ("y", b)])
    raise ValueError(kind)


PARENTS = [(k, o) for k in ("tuple", "dict", "union", "class") for o in (0, 1)]


def basis_desc(gname):
    if gname in BASIS:
        return copy.deepcopy(BASIS[gname])
    return ("leaf", ORACLE_BASIS[gname])


def apply_path(path, x, A):
    """path = context names, outermost first"""
    for name in reversed(path):
        if x is None:
            return None
        x = CONTEXTS[name](x, A)
    return x


def realise(spec, A):
    """spec -> description (classes are allocated in A.env) | None"""
    gname, p1, p2, par = spec
    if par is None:
        return apply_path(p1, basis_desc(gname), A)
    kind, order = par
    mark = len(A.env["defs"])
    a = apply_path(p1, basis_desc(gname), A)
    b = apply_path(p2, basis_desc(gname), A)
    if order:
        a, b = b, a
    d = parent(kind, a, b, A)
    if d is None:
        for n in [n for n in A.env["defs"] if isinstance(n, int) and n >= mark]:
            del A.env["defs"][n]
    return d


def oracle_only(d) -> bool:
    return any(s[0] == "leaf" and s[1] in ORACLE_SRCS for s in subdescs_env(d, None))


def subdescs_env(d, env):
    """sub-descriptions of d, through the classes of env when given"""
    out, todo, seen = [], [d], set()
    while todo:
        x = todo.pop()
        for s in universe.subdescs(x, []):
            out.append(s)
            if env is not None and s[0] == "name" and s[1] not in seen and s[1] in env["defs"]:
                seen.add(s[1])
                todo += [t for _, t, _ in env["defs"][s[1]][3]]
    return out


def spec_label(spec):
    gname, p1, p2, par = spec
    if par is None:
        return f"{'.'.join(p1) or 'id'}[{gname}]"
    return f"{par[0]}{'~' if par[1] else ''}({'.'.join(p1) or 'id'}[{gname}], {'.'.join(p2) or 'id'}[{gname}])"


def specs(tier, rng):
    """(specs, counts per layer).  quick: every pair of context paths of length <= 1 under every parent in both orders
    with the basis rotated through; every g with every pair of CORE paths under a fixed tuple; every single path of
    length 2 (g rotated); a sample of the pairs that involve a path of length 2.  thorough: four g per (pair, parent) in the
    first layer, the singles with EVERY g, all (0,2) pairs (g rotated) and a larger sample."""
    gnames = list(BASIS) + list(ORACLE_BASIS)
    K1 = list(CONTEXTS)
    p0 = [()]
    p1 = [(k,) for k in K1]
    p2 = [(a, b) for a in K1 for b in K1]
    pairs_small = [((), ())] + [((), p) for p in p1] + [(p, q) for i, p in enumerate(p1) for q in p1[i:]]
    pairs_02 = [((), p) for p in p2]
    pairs_12 = [(p, q) for p in p1 for q in p2]
    pairs_22 = [(p, q) for i, p in enumerate(p2) for q in p2[i:]]
    out, counts = [], {}

    def layer(name, items):
        items = list(items)
        counts[name] = len(items)
        out.extend(items)

    thorough = tier == "thorough"
    small = list(itertools.product(pairs_small, PARENTS))
    if thorough:
        layer("pairs<=1 x parents x 4 of the basis (rotated)",
              ((gnames[(i + 3 * k) % len(gnames)], a, b, par) for i, ((a, b), par) in enumerate(small) for k in range(4)))
    else:
        layer("pairs<=1 x parents (basis rotated)",
              ((gnames[i % len(gnames)], a, b, par) for i, ((a, b), par) in enumerate(small)))
    core1 = [(k,) for k in CORE]
    core_pairs = [((), p) for p in core1] + [(p, q) for i, p in enumerate(core1) for q in core1[i + 1:]]
    layer("basis x core pairs x fixed tuple", ((g, a, b, ("tuple", o)) for g in gnames for a, b in core_pairs for o in (0, 1)))
    if thorough:
        layer("singles of depth 2 x basis", ((g, p, None, None) for p in p2 for g in gnames))
        layer("pairs (0,2) x parents (basis rotated)",
              ((gnames[i % len(gnames)], a, b, par) for i, ((a, b), par) in enumerate(itertools.product(pairs_02, PARENTS))))
    else:
        layer("singles of depth 2 (basis rotated)", ((gnames[i % len(gnames)], p, None, None) for i, p in enumerate(p2)))
    n = 3000 if thorough else 220
    deep = []
    for _ in range(n):
        a, b = rng.choice(pairs_02 + pairs_12 if rng.random() < 0.7 else pairs_22)
        deep.append((rng.choice(gnames), a, b, rng.choice(PARENTS)))
    layer("pairs with a path of length 2 (sampled)", deep)
    return out, counts
