"""C20 helpers: the annotation grammar of the quantifier (seeded generator), the non-annotation
expression stream, the evaluation namespace of the oracle, and the Python-AST -> Coq `expr` printer.

Nothing here imports typelib: the generator and the namespace are the *statement's* side.
(No `from __future__ import annotations` here: strings are compiled/evaluated from this module.)
"""
import ast
import itertools
import random
import re
import typing
import warnings

# ----------------------------------------------------------------------------------
# Python AST -> Coq term (TL.Model.Future.expr)
# ----------------------------------------------------------------------------------

BINOPS = ["Add", "Sub", "Mult", "MatMult", "Div", "Mod", "Pow", "LShift", "RShift", "BitOr", "BitXor",
          "BitAnd", "FloorDiv"]


def cstr(s: str) -> str:
    """Coq string literal of the ASCII rendering of s (ascii() is injective on str)."""
    a = s if all(32 <= ord(c) < 127 for c in s) else ascii(s)
    return '"' + a.replace('"', '""') + '"'


def const_to_coq(v) -> str:
    if v is None:
        return "CNone"
    if v is Ellipsis:
        return "CEllipsis"
    if v is True or v is False:
        return "(CBool %s)" % ("true" if v else "false")
    if isinstance(v, str):
        return "(CStr %s)" % cstr(ascii(v))
    if isinstance(v, bytes):
        return "(CBytes %s)" % cstr(ascii(v))
    return "(CNum %s)" % cstr(repr(v))          # int / float / complex: repr is canonical


def _enc(v, kids) -> str:
    if isinstance(v, ast.expr):
        kids.append(v)
        return "$"
    if isinstance(v, ast.AST):
        return "(" + _skel(v, kids) + ")"
    if isinstance(v, list):
        return "[" + ",".join(_enc(x, kids) for x in v) + "]"
    return ascii(v)


def _skel(node, kids) -> str:
    """Everything of a node that is not a sub-expression (class, operators, identifiers, shape); every
    sub-expression reachable through non-expression nodes (keyword, comprehension, arguments ...) is
    replaced by `$` and appended to kids, in field order = the order generic_visit walks them."""
    parts = [type(node).__name__]
    for f, v in ast.iter_fields(node):
        if f == "ctx":
            continue
        parts.append(f + "=" + _enc(v, kids))
    return " ".join(parts)


def to_coq(node) -> str:
    if isinstance(node, ast.Expression):
        return to_coq(node.body)
    if isinstance(node, ast.Name):
        return "(Name %s)" % cstr(node.id)
    if isinstance(node, ast.Attribute):
        return "(Attribute %s %s)" % (to_coq(node.value), cstr(node.attr))
    if isinstance(node, ast.Constant):
        k = "" if node.kind is None else "(kind %s)" % node.kind
        if k:   # u-prefixed strings keep their kind through unparse: keep it visible
            return '(Other %s [Constant %s])' % (cstr("Constant kind=" + ascii(node.kind)), const_to_coq(node.value))
        return "(Constant %s)" % const_to_coq(node.value)
    if isinstance(node, ast.Subscript):
        return "(Subscript %s %s)" % (to_coq(node.value), to_coq(node.slice))
    if isinstance(node, ast.Tuple):
        return "(Tuple %s)" % coq_elist(node.elts)
    if isinstance(node, ast.List):
        return "(List_ %s)" % coq_elist(node.elts)
    if isinstance(node, ast.BinOp):
        return "(BinOp %s %s %s)" % (type(node.op).__name__, to_coq(node.left), to_coq(node.right))
    kids: list = []
    tag = _skel(node, kids)
    return "(Other %s %s)" % (cstr(tag), coq_elist(kids))


def coq_elist(nodes) -> str:
    if not nodes:
        return "(@nil expr)"
    return "[" + "; ".join(to_coq(n) for n in nodes) + "]"


def names_are_identifiers(tree) -> bool:
    return all(n.id.isidentifier() for n in ast.walk(tree) if isinstance(n, ast.Name))


# ----------------------------------------------------------------------------------
# the evaluation namespace (statement side: "dummy generic classes / real typing objects")
# ----------------------------------------------------------------------------------

DOCUMENTED = {"dict": "typing.Dict", "list": "typing.List", "set": "typing.Set", "tuple": "typing.Tuple",
              "Pattern": "typing.Pattern"}

_NS_SRC = '''
import typing, re, collections, collections.abc
from typing import (Any, Callable, Annotated, Literal, Optional, Union, List, Dict, Set, Tuple, Sequence,
                    Mapping, Iterable, Type, FrozenSet, ClassVar, Final)
from re import Pattern
T = typing.TypeVar("T")
K = typing.TypeVar("K")
class A: pass
class B: pass
class C(A): pass
class G1(typing.Generic[T]): pass
class G2(typing.Generic[K, T]): pass
class _NS:
    """a namespace object whose attributes are named like the builtin generics"""
    class list(typing.Generic[T]): pass
    class dict(typing.Generic[K, T]): pass
    class Pattern(typing.Generic[T]): pass
    class Inner: pass
ns = _NS
'''


def namespace() -> dict:
    d: dict = {}
    exec(compile(_NS_SRC, "<verif:c20-ns>", "exec", dont_inherit=True), d)
    return d


def evaluate(s: str, ns: dict):
    for f in getattr(typing, "_cleanups", ()):   # typing's own subscription caches: start every evaluation cold
        f()
    with warnings.catch_warnings():              # `(None)[int]`, `"A"[int]` ... compile with a SyntaxWarning
        warnings.simplefilter("ignore")
        return eval(compile(s, "<verif:c20-ann>", "eval", dont_inherit=True), dict(ns))


REF_UNION = "__c20_Union__"


class _RefReading(ast.NodeTransformer):
    """The statement's reading of an INPUT: `a | b` is typing.Union[a, b] (binary, as written; typing flattens).
    Nothing else is touched: no renaming of builtin generics, no flattening of a spine, no special case for
    any operand class.  Not a re-implementation of future.transform: this is the clause "typing.Union for |"."""

    def visit_BinOp(self, node):
        self.generic_visit(node)
        if not isinstance(node.op, ast.BitOr):
            return node
        return ast.copy_location(ast.Subscript(
            value=ast.Name(id=REF_UNION, ctx=ast.Load()),
            slice=ast.Tuple(elts=[node.left, node.right], ctx=ast.Load()), ctx=ast.Load()), node)


def evaluate_ref(s: str, ns: dict):
    """evaluate the input under the reference reading (used when the interpreter's own `|` rejects the operands:
    `"A" | None`, `None | None | X` raise TypeError on 3.12, yet they are what transform exists for on 3.9)"""
    tree = ast.fix_missing_locations(_RefReading().visit(ast.parse(s, mode="eval")))
    for f in getattr(typing, "_cleanups", ()):
        f()
    with warnings.catch_warnings():
        warnings.simplefilter("ignore")
        return eval(compile(tree, "<verif:c20-ref>", "eval", dont_inherit=True), dict(ns, **{REF_UNION: typing.Union}))


_UNION_ORIGINS = None


def struct(x, depth=0, ordered=False):
    """The structure of an evaluated annotation: origins and arguments, recursively.  Union spellings
    (typing.Union / types.UnionType) are one origin; a bare class and its bare typing alias are the same
    node (origin, no args).  Union members: duplicates (after this normalisation) removed, Union[X] is X;
    as a set, or (ordered=True) in order of first occurrence."""
    import types
    rec = lambda a: struct(a, depth + 1, ordered)   # noqa: E731
    if depth > 50:
        return ("deep",)
    if isinstance(x, (list, tuple)):
        return ("seq", type(x).__name__, tuple(rec(a) for a in x))
    if x is None or x is type(None):
        return ("none",)
    if x is Ellipsis:
        return ("ellipsis",)
    if isinstance(x, typing.ForwardRef):
        return ("fwd", x.__forward_arg__)
    if isinstance(x, str):
        # a string in a type-argument position is a forward reference: builtin generics keep the str,
        # typing generics wrap it in ForwardRef -- the same reference (Literal / Annotated metadata strings
        # never get here, they are compared as constants below)
        return ("fwd", x)
    if isinstance(x, (bytes, int, float, complex, bool)):
        return ("const", type(x).__name__, repr(x))
    origin = typing.get_origin(x)
    if origin is typing.Union or origin is types.UnionType:
        # typing itself compares unions without order or duplicates, and its subscription cache (keyed by ==)
        # makes the member order of a typing.Union nested in another typing subscription depend on what was
        # built before: the set is what evaluation reliably shows (see union_orders_ambiguous for the ordered mode)
        ms = list(dict.fromkeys(rec(a) for a in typing.get_args(x)))
        if len(ms) == 1:
            return ms[0]
        return ("union", tuple(ms) if ordered else frozenset(ms))
    if origin is typing.Annotated:
        return ("annotated", rec(x.__origin__),
                tuple(("meta", type(a).__name__, repr(a)) if isinstance(a, str) else rec(a)
                      for a in x.__metadata__))
    if origin is typing.Literal:
        return ("literal", tuple(("const", type(a).__name__, repr(a)) for a in typing.get_args(x)))
    if origin is not None:
        return ("gen", _ident(origin), tuple(rec(a) for a in typing.get_args(x)))
    return ("gen", _ident(x), ())


def union_orders_ambiguous(*structs) -> bool:
    """ordered structures: do two unions with the same member set occur in different orders?  Then typing's
    ==-keyed subscription cache may have replaced one by the other and member order is not observable."""
    seen = {}

    def walk(t):
        if isinstance(t, tuple):
            if len(t) == 2 and t[0] == "union" and isinstance(t[1], tuple):
                k = frozenset(t[1])
                if seen.setdefault(k, t[1]) != t[1]:
                    return True
            return any(walk(c) for c in t)
        return False

    return any(walk(s) for s in structs)


def _ident(o):
    if isinstance(o, type):
        return "class:%s.%s" % (o.__module__, o.__qualname__)
    return "obj:" + repr(o)


# ----------------------------------------------------------------------------------
# generator: annotation grammar
# ----------------------------------------------------------------------------------

PLAIN = ["int", "str", "bytes", "float", "bool", "A", "B", "C", "Any", "typing.Any", "ns.Inner", "object"]
BARE = ["list", "dict", "set", "tuple", "Pattern", "typing.List", "typing.Dict", "re.Pattern", "List", "Tuple",
        "ns.list", "ns.dict", "ns.Pattern", "frozenset", "type", "collections.abc.Sequence"]
GEN1 = ["list", "set", "typing.List", "typing.Set", "List", "Set", "frozenset", "FrozenSet", "Sequence",
        "typing.Sequence", "collections.abc.Sequence", "Iterable", "G1", "ns.list", "type", "Type", "list", "set"]
GEN2 = ["dict", "typing.Dict", "Dict", "Mapping", "typing.Mapping", "collections.abc.Mapping", "G2", "ns.dict",
        "dict", "collections.OrderedDict"]
TUPLES = ["tuple", "typing.Tuple", "Tuple", "tuple"]
PATTERNS = ["Pattern", "typing.Pattern", "re.Pattern", "ns.Pattern", "Pattern"]
CALLABLES = ["Callable", "typing.Callable", "collections.abc.Callable"]
ANNOTATED = ["Annotated", "typing.Annotated"]
LITERALS = ["Literal", "typing.Literal"]
UNIONS = ["Union", "typing.Union"]
OPTIONALS = ["Optional", "typing.Optional"]
LIT_STRINGS = ["a|b", "[x]", "int | str", "list[int]", "a", "x | y[z]", "it's", 'q"uote', "|", "[", "dict[str, int | None]",
               "", " | "]
FWD = ["A", "B", "int | str", "list[int]", "dict[str, A | None]", "A | None", "ns.Inner", "G1[int | str]"]


def quote(rng, s):
    r = repr(s)
    if rng.random() < 0.4 and '"' not in s and "\\" not in s:
        r = '"' + s + '"'
    return r


class Gen:
    def __init__(self, rng: random.Random):
        self.rng = rng
        self.feat: dict[str, int] = {}

    def f(self, k):
        self.feat[k] = self.feat.get(k, 0) + 1

    def atom(self):
        r = self.rng.random()
        if r < 0.7:
            return self.rng.choice(PLAIN)
        if r < 0.9:
            self.f("bare-generic-name")
            return self.rng.choice(BARE)
        self.f("string-ref")
        return quote(self.rng, self.rng.choice(FWD))

    def literal(self):
        self.f("Literal")
        n = self.rng.randint(1, 3)
        items = []
        for _ in range(n):
            r = self.rng.random()
            if r < 0.7:
                items.append(quote(self.rng, self.rng.choice(LIT_STRINGS)))
            elif r < 0.8:
                items.append(str(self.rng.randint(0, 9)))
            elif r < 0.9:
                items.append("None")
            else:
                items.append(self.rng.choice(["True", "b'x|y'", "-1"]))
        return "%s[%s]" % (self.rng.choice(LITERALS), ", ".join(items))

    def member(self, d):
        """an operand of `|`.  A bare string reference / None / Ellipsis is an operand like any other (round 3:
        `"Foo" | None` is the annotation transform exists for; that the 3.12 interpreter rejects `str | type` only
        means the meaning clause reads the input by the reference reading, see c20_oracle)."""
        r = self.rng.random()
        if r < 0.12:
            self.f("union-member-string-ref")
            return quote(self.rng, self.rng.choice(FWD))
        if r < 0.15:
            self.f("union-member-ellipsis")
            return "..."
        for _ in range(5):
            s = self.ann(d)
            if not (s.startswith("'") or s.startswith('"')):
                return s
        return self.rng.choice(PLAIN)

    def const_member(self):
        r = self.rng.random()
        if r < 0.55:
            return quote(self.rng, self.rng.choice(FWD))
        return "None" if r < 0.85 else "..."

    def chain(self, d):
        """a |-chain with a random binary-tree shape (any associativity / parenthesisation)"""
        n = self.rng.choice([2, 2, 2, 3, 3, 4, 5])
        if self.rng.random() < 0.10:
            # a union all of whose members are constants (string references, None, Ellipsis)
            self.f("union-all-constants")
            ops = [self.const_member() for _ in range(n)]
        else:
            ops = [self.member(d - 1) for _ in range(n)]
        if self.rng.random() < 0.45:
            ops[self.rng.randrange(n)] = "None"
            self.f("union-with-None")

        def build(lo, hi):
            if hi - lo == 1:
                return ops[lo], True
            k = self.rng.randint(lo + 1, hi - 1)
            l, la = build(lo, k)
            r, ra = build(k, hi)
            # left operand never needs parentheses unless we choose to add them; right needs them when composite
            ls = l if (la or self.rng.random() < 0.7) else "(" + l + ")"
            if not ra:
                self.f("right-nested-chain")
            rs = r if ra else "(" + r + ")"
            return ls + " | " + rs, False

        s, _ = build(0, n)
        self.f("chain-%d" % n)
        return s

    def ann(self, d):
        if d <= 0:
            return self.atom()
        r = self.rng.random()
        if r < 0.12:
            return self.atom()
        if r < 0.34:
            s = self.chain(d)
            return s
        if r < 0.46:
            return "%s[%s]" % (self.rng.choice(GEN1), self.ann(d - 1))
        if r < 0.58:
            return "%s[%s, %s]" % (self.rng.choice(GEN2), self.ann(d - 1), self.ann(d - 1))
        if r < 0.68:
            t = self.rng.choice(TUPLES)
            k = self.rng.random()
            if k < 0.1:
                self.f("tuple-empty")
                return t + "[()]"
            if k < 0.4:
                self.f("ellipsis")
                return "%s[%s, ...]" % (t, self.ann(d - 1))
            return "%s[%s]" % (t, ", ".join(self.ann(d - 1) for _ in range(self.rng.randint(1, 3))))
        if r < 0.72:
            return "%s[%s]" % (self.rng.choice(PATTERNS), self.rng.choice(["str", "bytes", "str | bytes", "typing.Any"]))
        if r < 0.80:
            self.f("Callable")
            c = self.rng.choice(CALLABLES)
            if self.rng.random() < 0.25:
                self.f("ellipsis")
                return "%s[..., %s]" % (c, self.ann(d - 1))
            args = ", ".join(self.ann(d - 1) for _ in range(self.rng.randint(0, 3)))
            return "%s[[%s], %s]" % (c, args, self.ann(d - 1))
        if r < 0.86:
            self.f("Annotated")
            meta = []
            for _ in range(self.rng.randint(1, 2)):
                meta.append(self.rng.choice([quote(self.rng, self.rng.choice(LIT_STRINGS)), "A", "3", "ns.Inner",
                                             self.literal()]))
            inner = self.member(d - 1) if self.rng.random() < 0.5 else self.ann(d - 1)
            if inner.startswith(("'", '"')):
                inner = "int"
            return "%s[%s, %s]" % (self.rng.choice(ANNOTATED), inner, ", ".join(meta))
        if r < 0.91:
            return self.literal()
        if r < 0.95:
            return "%s[%s]" % (self.rng.choice(OPTIONALS), self.ann(d - 1))
        if r < 0.98:
            return "%s[%s]" % (self.rng.choice(UNIONS), ", ".join(self.ann(d - 1) for _ in range(self.rng.randint(1, 3))))
        self.f("subscript-of-subscript")
        return "G2[%s, T][%s]" % (self.ann(d - 1), self.ann(d - 1))

    # ---- non-annotation expressions (identity / totality clauses) ----
    def nonann(self, d):
        a = lambda: self.ann(max(d - 1, 0))
        e = lambda: (self.nonann(d - 1) if d > 0 and self.rng.random() < 0.5 else a())
        forms = [
            lambda: "%s %s %s" % (e(), self.rng.choice(["+", "-", "*", "@", "/", "%", "**", "<<", ">>", "^", "&", "//"]), e()),
            lambda: "(%s) + %s" % (self.chain(max(d, 1)), a()),
            lambda: "%s + %s | %s" % (a(), a(), a()),
            lambda: "%s | %s * %s" % (a(), a(), a()),
            lambda: "%s & %s | %s" % (a(), a(), a()),
            lambda: "1 + 2",
            lambda: "f(%s)" % e(),
            lambda: "f(%s, k=%s, *%s, **%s)" % (e(), e(), e(), e()),
            lambda: "%s.method(%s)" % (a() if self.rng.random() < 0.5 else "obj", e()),
            lambda: "lambda list, x=%s: %s" % (e(), e()),
            lambda: "[%s for list in %s if %s]" % (e(), e(), e()),
            lambda: "{%s: %s for k, v in %s}" % (e(), e(), e()),
            lambda: "%s if %s else %s" % (e(), e(), e()),
            lambda: "%s < %s <= %s" % (e(), e(), e()),
            lambda: "%s and %s or not %s" % (e(), e(), e()),
            lambda: "{%s, %s}" % (e(), e()),
            lambda: "{%s: %s, **%s}" % (e(), e(), e()),
            lambda: "-%s" % e(),
            lambda: "~(%s)" % e(),
            lambda: "x[%s:%s, ::%s]" % (e(), e(), e()),
            lambda: "(y := %s)" % e(),
            lambda: "(%s, *%s)" % (e(), e()),
            lambda: "[%s, %s]" % (e(), e()),
            lambda: "f(%s)[%s].attr" % (e(), e()),
            lambda: "tuple[*%s]" % a(),
            lambda: "(%s for x in %s)" % (e(), e()),
            lambda: "f'{%s}'" % "x",
            lambda: "3 | 4",
            lambda: "Literal[1 | 2]",
            lambda: "list.append",
            lambda: "dict.fromkeys(%s)" % e(),
            lambda: "u'text'",
            lambda: "x.dict[%s]" % e(),
        ]
        self.f("nonann")
        return self.rng.choice(forms)()


def corpus_shapes(max_n: int):
    """every binary-tree parenthesisation of |-chains of 2..max_n operands, with None in every position"""
    atoms = ["int", "str", "list[A]", "B", "dict[str, C]"]
    out = []

    def trees(lo, hi):
        """(text, is_atom) for every binary tree over operands lo..hi-1; a composite left operand is emitted
        both bare (left-associative reading) and parenthesised (same tree, different spelling)"""
        if hi - lo == 1:
            yield "@%d" % lo, True
            return
        for k in range(lo + 1, hi):
            for l, la in trees(lo, k):
                for r, ra in trees(k, hi):
                    rs = r if ra else "(" + r + ")"
                    yield l + " | " + rs, False
                    if not la:
                        yield "(" + l + ") | " + rs, False

    for n in range(2, max_n + 1):
        for t, _ in trees(0, n):
            for none_at in [None] + list(range(n)):
                s = t
                for i in range(n):
                    s = s.replace("@%d" % i, "None" if i == none_at else atoms[i])
                out.append(s)
    return out


FIXED = [
    "str", "typing.Union[str, int]", "str | int | None", "dict[str, int]", "dict[str, int | float]",
    "str | dict[str, int | float]",
    "a | (b | c)", "None | A", "A | None", "list[dict[str, int | None] | None]",
    "Callable[[int | str, list[int]], dict[str, int] | None]", "typing.List[int]", "re.Pattern[str]", "Pattern[str]",
    "list", "dict", "set", "tuple", "Pattern", "ns.list", "ns.list[int]", "ns.dict[str, int | None]", "list.foo",
    "Literal['a|b', '[x]']", "'int | str'", "List['int | str']", "Annotated[int | None, 'x | y']",
    "tuple[int, ...]", "tuple[()]", "G2[int | None, T][str | bytes]", "Callable[..., list[int] | None]",
    "typing.Optional[list[int]]", "typing.Union[int | str, None]", "Union[int, Union[str, list[bytes]]]",
    "tuple[tuple[tuple[tuple[int | None, ...], ...], ...], ...]",
    "dict[str, dict[str, dict[str, dict[str, list[int] | None]]]]",
    "(A | B) | (C | None)", "A | (B | (C | (int | None)))", "((A | B) | C) | int",
    "Annotated[list[int] | None, Literal['a|b'], 'dict[str, int]']",
    "type[int | str]", "frozenset[int | None]", "collections.abc.Sequence[list[int]]",
]

NONANN_FIXED = [
    "1 + 2",
    "(a | b) + c", "a + b | c", "a | b + c", "a + (b | c)", "f(a | b)", "-a | b", "x[1:2]", "a if b else c | d",
    "[a | b]", "(a | b, c)", "a | b,", "lambda: a | b", "{a | b}", "Literal[1 | 2]", "x[(a,)]", "f(list[int], k=dict)",
    "[list for list in x]", "lambda list: list", "a * b | c | d", "a | b | c * d", "(a + b) | (c + d)",
    "a ^ b | c", "a | b ^ c", "not a | b", "a < b | c", "f'{a | b}'", "(x := list)", "x.list.dict", "dict.keys",
    "u'abc'", "f'{x!r:>{w}}'", "a @ b", "a // b | c", "a ** b | c",
]


# ----------------------------------------------------------------------------------
# Round 3: the generators audited against the model's expression grammar (Model/Future.v)
# ----------------------------------------------------------------------------------
# `expr` has 8 constructors; with the 6 `const` payloads, the table / non-table split of Name and the
# BitOr / arithmetic split of BinOp that is 15 node KINDS.  A node occurs at one of 11 POSITIONS (root or a child
# slot of a constructor).  The theorems quantify over every tree, so every (position, kind) pair and every
# combination of member kinds on a `|` spine must be producible by the correspondence stream and by the oracle
# stream.  grammar_coverage() measures that on the strings of a run (it goes into the evidence).

KINDS = ["Name", "NameG", "Attribute", "CStr", "CBytes", "CNum", "CEllipsis", "CNone", "CBool", "Subscript",
         "Tuple", "List_", "BitOr", "Arith", "Other"]
POSITIONS = ["root", "Attribute.value", "Subscript.value", "Subscript.slice", "Tuple.elt", "List_.elt",
             "BitOr.left", "BitOr.right", "Arith.left", "Arith.right", "Other.child"]
CONST_KINDS = ("CStr", "CBytes", "CNum", "CEllipsis", "CNone", "CBool")


def kind(n) -> str:
    if isinstance(n, ast.Name):
        return "NameG" if n.id in DOCUMENTED else "Name"
    if isinstance(n, ast.Attribute):
        return "Attribute"
    if isinstance(n, ast.Constant):
        v = n.value
        if n.kind is not None:
            return "Other"                      # u'..' keeps its kind: printed as Other by to_coq
        if v is None:
            return "CNone"
        if v is Ellipsis:
            return "CEllipsis"
        if isinstance(v, bool):
            return "CBool"
        if isinstance(v, str):
            return "CStr"
        if isinstance(v, bytes):
            return "CBytes"
        return "CNum"
    if isinstance(n, ast.Subscript):
        return "Subscript"
    if isinstance(n, ast.Tuple):
        return "Tuple"
    if isinstance(n, ast.List):
        return "List_"
    if isinstance(n, ast.BinOp):
        return "BitOr" if isinstance(n.op, ast.BitOr) else "Arith"
    return "Other"


def children(n):
    """[(position, child)] in the model's constructor layout"""
    k = kind(n)
    if k == "Attribute":
        return [("Attribute.value", n.value)]
    if k == "Subscript":
        return [("Subscript.value", n.value), ("Subscript.slice", n.slice)]
    if k == "Tuple":
        return [("Tuple.elt", e) for e in n.elts]
    if k == "List_":
        return [("List_.elt", e) for e in n.elts]
    if k in ("BitOr", "Arith"):
        return [(k + ".left", n.left), (k + ".right", n.right)]
    if k == "Other" and not isinstance(n, ast.Constant):
        kids: list = []
        _skel(n, kids)
        return [("Other.child", c) for c in kids]
    return []


def spine_members(n):
    """the operand stack of visit_BinOp's while loop for a BinOp node (the model's `spine`)"""
    ms, left = [n.right], n.left
    while isinstance(left, ast.BinOp):
        ms.insert(0, left.right)
        left = left.left
    return [left] + ms


def _is_literal_sub(n) -> bool:
    if not isinstance(n, ast.Subscript):
        return False
    v = n.value
    return (isinstance(v, ast.Name) and v.id == "Literal") or (isinstance(v, ast.Attribute) and v.attr == "Literal")


_ANN_OPERAND = {"Name", "NameG", "Attribute", "Subscript", "BitOr", "CStr", "CNone", "CEllipsis"}
_ANN_AT = {
    "root": {"Name", "NameG", "Attribute", "Subscript", "BitOr", "CStr", "CNone", "CEllipsis"},
    "Attribute.value": {"Name", "NameG", "Attribute"},
    "Subscript.value": {"Name", "NameG", "Attribute", "Subscript"},
    "Subscript.slice": set(KINDS) - {"Arith", "Other", "List_"},
    "Tuple.elt": set(KINDS) - {"Arith", "Other"},
    "List_.elt": set(KINDS) - {"Arith", "Other", "List_"},
    "BitOr.left": _ANN_OPERAND, "BitOr.right": _ANN_OPERAND,
}


_ARITY = {"list": 1, "set": 1, "Pattern": 1, "dict": 2}


def in_annotation_grammar(tree) -> bool:
    """Is this tree an annotation expression of the quantifier's grammar (names, dotted names, subscripts,
    tuples and lists as subscript arguments, ellipsis, |-chains over types / string references / None / Ellipsis,
    Literal[constants], Callable[[...], ...], Annotated[...])?  Everything else (arithmetic, calls, `|` between
    numbers / bytes / tuples, a constant or a union being subscripted or dotted, a tuple at the root) is an
    expression the statement only demands totality and identity of.  Used to flag the systematically enumerated
    strings; the narrower reading is the one in favour of the code."""
    body = tree.body if isinstance(tree, ast.Expression) else tree
    st = [("root", body, False)]
    while st:
        p, n, list_ok = st.pop()
        k = kind(n)
        if k not in _ANN_AT.get(p, ()):
            return False
        if k == "List_" and not list_ok:
            # a list display is an annotation argument only as the parameter list of Callable[[...], R] (first
            # element of a subscript's argument tuple); `list[[]]` evaluates on the builtin, typing.List[[]] is unhashable
            return False
        if _is_literal_sub(n):
            args = n.slice.elts if isinstance(n.slice, ast.Tuple) else [n.slice]
            if not all(kind(a) in CONST_KINDS or (isinstance(a, ast.UnaryOp) and isinstance(a.op, ast.USub)
                                                  and kind(a.operand) == "CNum") for a in args):
                return False
            st.append(("Subscript.value", n.value, False))
            continue
        if k == "Subscript" and isinstance(n.value, ast.Name) and n.value.id in _ARITY:
            # the builtin classes accept any number of parameters at run time (`list[A, B]`, `list[()]` evaluate),
            # the typing aliases check it: a builtin generic with the wrong number of parameters is not an annotation
            nargs = len(n.slice.elts) if isinstance(n.slice, ast.Tuple) else 1
            if nargs != _ARITY[n.value.id]:
                return False
        for i, (cp, c) in enumerate(children(n)):
            st.append((cp, c, k == "Tuple" and p == "Subscript.slice" and i == 0))
    return True


def grammar_coverage(items) -> dict:
    """items: [(string, annotation flag)].  Which (position, kind) pairs of the model grammar and which sets of
    member kinds on a `|` spine occur; `missing` lists the pairs that never occur (in any string / in a string
    flagged annotation although the pair is inside the annotation grammar)."""
    seen, seen_ann, spines, allconst = set(), set(), {}, 0
    for s, a in items:
        try:
            body = ast.parse(s, mode="eval").body
        except SyntaxError:
            continue
        st = [("root", body)]
        while st:
            p, n = st.pop()
            k = kind(n)
            seen.add((p, k))
            if a:
                seen_ann.add((p, k))
            if k == "BitOr" and p not in ("BitOr.left", "Arith.left"):
                ks = sorted(set(kind(m) for m in spine_members(n)))
                key = "+".join(ks)
                spines[key] = spines.get(key, 0) + 1
                if all(x in ("CStr", "CNone", "CEllipsis") for x in ks):
                    allconst += 1
            st += children(n)
    missing = ["%s<-%s" % (p, k) for p in POSITIONS for k in KINDS if (p, k) not in seen]
    missing_ann = ["%s<-%s" % (p, k) for p in POSITIONS for k in sorted(_ANN_AT.get(p, ()))
                   if (p, k) not in seen_ann]
    return {"position_kind_pairs": len(seen), "of": len(POSITIONS) * len(KINDS), "missing": missing,
            "missing_in_annotation_stream": missing_ann, "spine_member_kind_sets": len(spines),
            "spines_all_str_none_ellipsis": allconst,
            "spines_with_string_member": sum(c for k, c in spines.items() if "CStr" in k.split("+")),
            "spines_with_ellipsis_member": sum(c for k, c in spines.items() if "CEllipsis" in k.split("+"))}


# ---- every parenthesisation of a chain -------------------------------------------------------------------

def chain_shapes(n: int):
    """templates over @0..@{n-1}: every binary tree over n operands; a composite left operand both bare (the
    left-associative spelling) and parenthesised (same tree, other spelling)"""
    def trees(lo, hi):
        if hi - lo == 1:
            yield "@%d" % lo, True
            return
        for k in range(lo + 1, hi):
            for l, la in trees(lo, k):
                for r, ra in trees(k, hi):
                    rs = r if ra else "(" + r + ")"
                    yield l + " | " + rs, False
                    if not la:
                        yield "(" + l + ") | " + rs, False
    return [t for t, _ in trees(0, n)]


def fill(template: str, ops) -> str:
    s = template
    for i in reversed(range(len(ops))):
        s = s.replace("@%d" % i, ops[i])
    return s


# ---- stratum S1: unions all of whose members are constants ------------------------------------------------

_S_POOL = ['"Foo"', "'B'", "'int | str'", '"ns.Inner"', "'list[int]'"]


def _const_op(k: str, i: int) -> str:
    return {"S": _S_POOL[i % len(_S_POOL)], "N": "None", "E": "..."}[k]


def const_unions(n: int):
    """EVERY |-chain of n members drawn from {string reference, None, Ellipsis}, in every parenthesisation
    and spelling: 3^n assignments x chain_shapes(n)"""
    out = []
    for t in chain_shapes(n):
        for ks in itertools.product("SNE", repeat=n):
            out.append(fill(t, [_const_op(k, i) for i, k in enumerate(ks)]))
    return out


# one-hole contexts of the annotation grammar: every position a union can be nested at
CONTEXTS = [
    "list[@]", "typing.List[@]", "set[@]", "type[@]", "G1[@]", "ns.list[@]", "Optional[@]", "typing.Optional[@]",
    "dict[str, @]", "dict[@, int]", "Mapping[@, @]", "tuple[@, ...]", "tuple[int, @]", "tuple[@, int, str]", "Tuple[@]",
    "Callable[[@], int]", "Callable[[int, @], None]", "Callable[[int], @]", "Callable[..., @]",
    "Annotated[@, 'meta | x']", "Union[@, int]", "typing.Union[int, @]", "G2[@, T][int]", "G2[int, T][@]",
    "int | (@)", "(@) | int", "@ | int", "list[int] | (@)", "None | (@)", "(@) | None", "'C' | (@)", "(@) | 'C'",
    "list[@] | None", "dict[str, @] | list[@]",
]


def nest(ctx: str, s: str) -> str:
    return ctx.replace("@", s)


def const_union_inputs(rng, thorough: bool):
    """S1 at the root and nested at every position: exhaustive for n = 2, 3 at the root and n = 2 in every
    context; sampled beyond (n = 3 in contexts, n = 4 / 5, contexts in contexts)"""
    c2, c3, c4 = const_unions(2), const_unions(3), const_unions(4)
    out = list(c2) + list(c3)
    out += c4 if thorough else rng.sample(c4, 120)
    if thorough:
        out += rng.sample(const_unions(5), 1500)
    for ctx in CONTEXTS:
        out += [nest(ctx, s) for s in c2]
        out += [nest(ctx, s) for s in (c3 if thorough else rng.sample(c3, 12))]
    for _ in range(3000 if thorough else 300):
        a, b = rng.choice(CONTEXTS), rng.choice(CONTEXTS)
        out.append(nest(a, nest(b, rng.choice(c2 if rng.random() < 0.6 else c3))))
    return out


# ---- stratum S3: every combination of member kinds on a chain ---------------------------------------------

MEMBER_ALPHABET = [
    "int", "A", "list", "Pattern", "ns.Inner", "list[int]", "typing.List[int]", "dict[str, A]", "'Foo'", "None", "...",
    "(A | B)", "Literal['a|b']", "Optional[int]", "Callable[[int], str]",
    # not annotation members (`|` between values): total / identity for the oracle, exact tree for the model
    "1", "True", "b'x'", "(A, B)", "[A]", "f(A)", "(A + B)",
]


def member_kind_inputs(rng, thorough: bool):
    out = []
    for a in MEMBER_ALPHABET:
        for b in MEMBER_ALPHABET:
            out.append("%s | %s" % (a, b))
    shapes3 = chain_shapes(3)
    triples = list(itertools.product(MEMBER_ALPHABET, repeat=3))
    for ops in rng.sample(triples, 3000 if thorough else 350):
        out.append(fill(rng.choice(shapes3), list(ops)))
    return out


# ---- stratum S4: the grammar grid: every position x every kind --------------------------------------------

GRID_CONTEXTS = [
    "@", "(@).attr", "(@)[int]", "G1[@]", "list[@]", "(@, int)", "(int, @)", "G2[@, int]", "[@]", "Callable[[@], int]",
    "(@) | int", "int | (@)", "(@) + A", "A - (@)", "f(@)", "f(k=@)", "-(@)", "(@) if a else b", "lambda: (@)",
    "x[(@):]",
]
GRID_FILLERS = [
    "A", "list", "Pattern", "ns.Inner", "list.foo", "'A | B'", "b'x|y'", "1", "2.5", "...", "None", "True",
    "list[int]", "A, list", "()", "[A, list]", "[]", "A | list", "'A' | None", "A + list", "f(list)", "-A",
]


_BARE_TUPLE_OK = ("@", "G1[@]", "list[@]")      # holes where `A, list` is a Tuple node without parentheses


def grid_put(ctx: str, f: str, inner: bool = False) -> str:
    if inner or ("," in f and not f.startswith(("(", "[")) and ctx not in _BARE_TUPLE_OK):
        f = "(" + f + ")"                        # parentheses are not in the tree
    return ctx.replace("(@)", "(" + f + ")" if not f.startswith("(") else f).replace("@", f)


def grid_inputs(rng, thorough: bool):
    """every (position, kind) pair of the model grammar: each one-hole context (at least one per child slot of
    every constructor) filled with a representative of every kind; contexts composed two deep (sampled in quick)"""
    out = [grid_put(c, f) for c in GRID_CONTEXTS for f in GRID_FILLERS]
    pairs = [(a, b) for a in GRID_CONTEXTS for b in GRID_CONTEXTS if b != "@" and a != "@"]
    for a, b in (pairs if thorough else rng.sample(pairs, 160)):
        for f in rng.sample(GRID_FILLERS, 8 if thorough else 3):
            out.append(grid_put(a, grid_put(b, f), inner=True))
    return out


# ---- near-duplicate strings: histories of the (annotation, union) cache -----------------------------------

def variants(s: str):
    """strings that a careless cache key could confuse with s: the same text with blanks added / removed INSIDE
    a string constant (a different annotation), with another layout OUTSIDE constants (the same annotation,
    another key), other letter case / quote style inside a constant.  [(variant, what)]"""
    out = []
    try:
        tree = ast.parse(s, mode="eval")
    except SyntaxError:
        return out
    consts = [n for n in ast.walk(tree) if isinstance(n, ast.Constant) and isinstance(n.value, str)
              and n.kind is None and n.lineno == n.end_lineno == 1]
    for n in consts[:3]:
        v = n.value
        alts = [("blanks-removed-in-constant", "".join(v.split())),
                ("blanks-added-in-constant", re.sub(r"\s*([|,\[\]])\s*", r" \1 ", v)),
                ("trailing-blank-in-constant", v + " "),
                ("case-in-constant", v.swapcase()),
                ("tab-in-constant", v.replace(" ", "\t"))]
        for what, w in alts:
            if w != v:
                out.append((s[:n.col_offset] + repr(w) + s[n.end_col_offset:], what))
    try:
        canon = ast.unparse(tree)
        if canon != s:
            out.append((canon, "layout-canonical"))
    except Exception:   # noqa: BLE001
        pass
    # layout outside constants: drop blanks that are not inside a string token / not between two words
    import io
    import tokenize
    try:
        toks = [t for t in tokenize.generate_tokens(io.StringIO(s).readline)
                if t.type not in (tokenize.NEWLINE, tokenize.NL, tokenize.ENDMARKER)]
        compact, prev = "", None
        for t in toks:
            if prev is not None and prev.type in (tokenize.NAME, tokenize.NUMBER) and t.type in (tokenize.NAME, tokenize.NUMBER):
                compact += " "
            compact += t.string
            prev = t
        if compact != s:
            out.append((compact, "layout-compact"))
        spaced = " ".join(t.string for t in toks)
        if spaced != s and "lambda" not in s:
            out.append((spaced, "layout-spaced"))
    except Exception:   # noqa: BLE001
        pass
    out.append((s + " ", "trailing-blank"))
    res, seen = [], {s}
    for v, what in out:
        if v in seen:
            continue
        try:
            ast.parse(v, mode="eval")
        except SyntaxError:
            continue
        seen.add(v)
        res.append((v, what))
    return res
