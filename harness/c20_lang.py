"""C20 helpers: the annotation grammar of the quantifier (seeded generator), the non-annotation
expression stream, the evaluation namespace of the oracle, and the Python-AST -> Coq `expr` printer.

Nothing here imports typelib: the generator and the namespace are the *statement's* side.
(No `from __future__ import annotations` here: strings are compiled/evaluated from this module.)
"""
import ast
import itertools
import random
import re
import typing

# ----------------------------------------------------------------------------------
# Python AST -> Coq term (TL.Model.Future.expr)
# ----------------------------------------------------------------------------------

BINOPS = ["Add", "Sub", "Mult", "MatMult", "Div", "Mod", "Pow", "LShift", "RShift", "BitOr", "BitXor",
          "BitAnd", "FloorDiv"]


def cstr(s: str) -> str:
    """Coq string literal of the ASCII rendering of s (ascii() is injective on str)."""
    a = s if all(32 <= ord(c) < 127 for c in s) else ascii(s)
    return '"' + a.replace('"', '""') + '"'


def const_to_coq(v) -> str:
    if v is None:
        return "CNone"
    if v is Ellipsis:
        return "CEllipsis"
    if v is True or v is False:
        return "(CBool %s)" % ("true" if v else "false")
    if isinstance(v, str):
        return "(CStr %s)" % cstr(ascii(v))
    if isinstance(v, bytes):
        return "(CBytes %s)" % cstr(ascii(v))
    return "(CNum %s)" % cstr(repr(v))          # int / float / complex: repr is canonical


def _enc(v, kids) -> str:
    if isinstance(v, ast.expr):
        kids.append(v)
        return "$"
    if isinstance(v, ast.AST):
        return "(" + _skel(v, kids) + ")"
    if isinstance(v, list):
        return "[" + ",".join(_enc(x, kids) for x in v) + "]"
    return ascii(v)


def _skel(node, kids) -> str:
    """Everything of a node that is not a sub-expression (class, operators, identifiers, shape); every
    sub-expression reachable through non-expression nodes (keyword, comprehension, arguments ...) is
    replaced by `$` and appended to kids, in field order = the order generic_visit walks them."""
    parts = [type(node).__name__]
    for f, v in ast.iter_fields(node):
        if f == "ctx":
            continue
        parts.append(f + "=" + _enc(v, kids))
    return " ".join(parts)


def to_coq(node) -> str:
    if isinstance(node, ast.Expression):
        return to_coq(node.body)
    if isinstance(node, ast.Name):
        return "(Name %s)" % cstr(node.id)
    if isinstance(node, ast.Attribute):
        return "(Attribute %s %s)" % (to_coq(node.value), cstr(node.attr))
    if isinstance(node, ast.Constant):
        k = "" if node.kind is None else "(kind %s)" % node.kind
        if k:   # u-prefixed strings keep their kind through unparse: keep it visible
            return '(Other %s [Constant %s])' % (cstr("Constant kind=" + ascii(node.kind)), const_to_coq(node.value))
        return "(Constant %s)" % const_to_coq(node.value)
    if isinstance(node, ast.Subscript):
        return "(Subscript %s %s)" % (to_coq(node.value), to_coq(node.slice))
    if isinstance(node, ast.Tuple):
        return "(Tuple %s)" % coq_elist(node.elts)
    if isinstance(node, ast.List):
        return "(List_ %s)" % coq_elist(node.elts)
    if isinstance(node, ast.BinOp):
        return "(BinOp %s %s %s)" % (type(node.op).__name__, to_coq(node.left), to_coq(node.right))
    kids: list = []
    tag = _skel(node, kids)
    return "(Other %s %s)" % (cstr(tag), coq_elist(kids))


def coq_elist(nodes) -> str:
    if not nodes:
        return "(@nil expr)"
    return "[" + "; ".join(to_coq(n) for n in nodes) + "]"


def names_are_identifiers(tree) -> bool:
    return all(n.id.isidentifier() for n in ast.walk(tree) if isinstance(n, ast.Name))


# ----------------------------------------------------------------------------------
# the evaluation namespace (statement side: "dummy generic classes / real typing objects")
# ----------------------------------------------------------------------------------

DOCUMENTED = {"dict": "typing.Dict", "list": "typing.List", "set": "typing.Set", "tuple": "typing.Tuple",
              "Pattern": "typing.Pattern"}

_NS_SRC = '''
import typing, re, collections, collections.abc
from typing import (Any, Callable, Annotated, Literal, Optional, Union, List, Dict, Set, Tuple, Sequence,
                    Mapping, Iterable, Type, FrozenSet, ClassVar, Final)
from re import Pattern
T = typing.TypeVar("T")
K = typing.TypeVar("K")
class A: pass
class B: pass
class C(A): pass
class G1(typing.Generic[T]): pass
class G2(typing.Generic[K, T]): pass
class _NS:
    """a namespace object whose attributes are named like the builtin generics"""
    class list(typing.Generic[T]): pass
    class dict(typing.Generic[K, T]): pass
    class Pattern(typing.Generic[T]): pass
    class Inner: pass
ns = _NS
'''


def namespace() -> dict:
    d: dict = {}
    exec(compile(_NS_SRC, "<verif:c20-ns>", "exec", dont_inherit=True), d)
    return d


def evaluate(s: str, ns: dict):
    for f in getattr(typing, "_cleanups", ()):   # typing's own subscription caches: start every evaluation cold
        f()
    return eval(compile(s, "<verif:c20-ann>", "eval", dont_inherit=True), dict(ns))


_UNION_ORIGINS = None


def struct(x, depth=0, ordered=False):
    """The structure of an evaluated annotation: origins and arguments, recursively.  Union spellings
    (typing.Union / types.UnionType) are one origin; a bare class and its bare typing alias are the same
    node (origin, no args).  Union members: duplicates (after this normalisation) removed, Union[X] is X;
    as a set, or (ordered=True) in order of first occurrence."""
    import types
    rec = lambda a: struct(a, depth + 1, ordered)   # noqa: E731
    if depth > 50:
        return ("deep",)
    if isinstance(x, (list, tuple)):
        return ("seq", type(x).__name__, tuple(rec(a) for a in x))
    if x is None or x is type(None):
        return ("none",)
    if x is Ellipsis:
        return ("ellipsis",)
    if isinstance(x, typing.ForwardRef):
        return ("fwd", x.__forward_arg__)
    if isinstance(x, str):
        # a string in a type-argument position is a forward reference: builtin generics keep the str,
        # typing generics wrap it in ForwardRef -- the same reference (Literal / Annotated metadata strings
        # never get here, they are compared as constants below)
        return ("fwd", x)
    if isinstance(x, (bytes, int, float, complex, bool)):
        return ("const", type(x).__name__, repr(x))
    origin = typing.get_origin(x)
    if origin is typing.Union or origin is types.UnionType:
        # typing itself compares unions without order or duplicates, and its subscription cache (keyed by ==)
        # makes the member order of a typing.Union nested in another typing subscription depend on what was
        # built before: the set is what evaluation reliably shows (see union_orders_ambiguous for the ordered mode)
        ms = list(dict.fromkeys(rec(a) for a in typing.get_args(x)))
        if len(ms) == 1:
            return ms[0]
        return ("union", tuple(ms) if ordered else frozenset(ms))
    if origin is typing.Annotated:
        return ("annotated", rec(x.__origin__),
                tuple(("meta", type(a).__name__, repr(a)) if isinstance(a, str) else rec(a)
                      for a in x.__metadata__))
    if origin is typing.Literal:
        return ("literal", tuple(("const", type(a).__name__, repr(a)) for a in typing.get_args(x)))
    if origin is not None:
        return ("gen", _ident(origin), tuple(rec(a) for a in typing.get_args(x)))
    return ("gen", _ident(x), ())


def union_orders_ambiguous(*structs) -> bool:
    """ordered structures: do two unions with the same member set occur in different orders?  Then typing's
    ==-keyed subscription cache may have replaced one by the other and member order is not observable."""
    seen = {}

    def walk(t):
        if isinstance(t, tuple):
            if len(t) == 2 and t[0] == "union" and isinstance(t[1], tuple):
                k = frozenset(t[1])
                if seen.setdefault(k, t[1]) != t[1]:
                    return True
            return any(walk(c) for c in t)
        return False

    return any(walk(s) for s in structs)


def _ident(o):
    if isinstance(o, type):
        return "class:%s.%s" % (o.__module__, o.__qualname__)
    return "obj:" + repr(o)


# ----------------------------------------------------------------------------------
# generator: annotation grammar
# ----------------------------------------------------------------------------------

PLAIN = ["int", "str", "bytes", "float", "bool", "A", "B", "C", "Any", "typing.Any", "ns.Inner", "object"]
BARE = ["list", "dict", "set", "tuple", "Pattern", "typing.List", "typing.Dict", "re.Pattern", "List", "Tuple",
        "ns.list", "ns.dict", "ns.Pattern", "frozenset", "type", "collections.abc.Sequence"]
GEN1 = ["list", "set", "typing.List", "typing.Set", "List", "Set", "frozenset", "FrozenSet", "Sequence",
        "typing.Sequence", "collections.abc.Sequence", "Iterable", "G1", "ns.list", "type", "Type", "list", "set"]
GEN2 = ["dict", "typing.Dict", "Dict", "Mapping", "typing.Mapping", "collections.abc.Mapping", "G2", "ns.dict",
        "dict", "collections.OrderedDict"]
TUPLES = ["tuple", "typing.Tuple", "Tuple", "tuple"]
PATTERNS = ["Pattern", "typing.Pattern", "re.Pattern", "ns.Pattern", "Pattern"]
CALLABLES = ["Callable", "typing.Callable", "collections.abc.Callable"]
ANNOTATED = ["Annotated", "typing.Annotated"]
LITERALS = ["Literal", "typing.Literal"]
UNIONS = ["Union", "typing.Union"]
OPTIONALS = ["Optional", "typing.Optional"]
LIT_STRINGS = ["a|b", "[x]", "int | str", "list[int]", "a", "x | y[z]", "it's", 'q"uote', "|", "[", "dict[str, int | None]",
               "", " | "]
FWD = ["A", "B", "int | str", "list[int]", "dict[str, A | None]", "A | None", "ns.Inner", "G1[int | str]"]


def quote(rng, s):
    r = repr(s)
    if rng.random() < 0.4 and '"' not in s and "\\" not in s:
        r = '"' + s + '"'
    return r


class Gen:
    def __init__(self, rng: random.Random):
        self.rng = rng
        self.feat: dict[str, int] = {}

    def f(self, k):
        self.feat[k] = self.feat.get(k, 0) + 1

    def atom(self):
        r = self.rng.random()
        if r < 0.7:
            return self.rng.choice(PLAIN)
        if r < 0.9:
            self.f("bare-generic-name")
            return self.rng.choice(BARE)
        self.f("string-ref")
        return quote(self.rng, self.rng.choice(FWD))

    def literal(self):
        self.f("Literal")
        n = self.rng.randint(1, 3)
        items = []
        for _ in range(n):
            r = self.rng.random()
            if r < 0.7:
                items.append(quote(self.rng, self.rng.choice(LIT_STRINGS)))
            elif r < 0.8:
                items.append(str(self.rng.randint(0, 9)))
            elif r < 0.9:
                items.append("None")
            else:
                items.append(self.rng.choice(["True", "b'x|y'", "-1"]))
        return "%s[%s]" % (self.rng.choice(LITERALS), ", ".join(items))

    def member(self, d):
        """an operand of `|` (never a bare string: str | type does not evaluate)"""
        for _ in range(5):
            s = self.ann(d)
            if not (s.startswith("'") or s.startswith('"')):
                return s
        return self.rng.choice(PLAIN)

    def chain(self, d):
        """a |-chain with a random binary-tree shape (any associativity / parenthesisation)"""
        n = self.rng.choice([2, 2, 2, 3, 3, 4, 5])
        ops = [self.member(d - 1) for _ in range(n)]
        if self.rng.random() < 0.45:
            ops[self.rng.randrange(n)] = "None"
            self.f("union-with-None")

        def build(lo, hi):
            if hi - lo == 1:
                return ops[lo], True
            k = self.rng.randint(lo + 1, hi - 1)
            l, la = build(lo, k)
            r, ra = build(k, hi)
            # left operand never needs parentheses unless we choose to add them; right needs them when composite
            ls = l if (la or self.rng.random() < 0.7) else "(" + l + ")"
            if not ra:
                self.f("right-nested-chain")
            rs = r if ra else "(" + r + ")"
            return ls + " | " + rs, False

        s, _ = build(0, n)
        self.f("chain-%d" % n)
        return s

    def ann(self, d):
        if d <= 0:
            return self.atom()
        r = self.rng.random()
        if r < 0.12:
            return self.atom()
        if r < 0.34:
            s = self.chain(d)
            return s
        if r < 0.46:
            return "%s[%s]" % (self.rng.choice(GEN1), self.ann(d - 1))
        if r < 0.58:
            return "%s[%s, %s]" % (self.rng.choice(GEN2), self.ann(d - 1), self.ann(d - 1))
        if r < 0.68:
            t = self.rng.choice(TUPLES)
            k = self.rng.random()
            if k < 0.1:
                self.f("tuple-empty")
                return t + "[()]"
            if k < 0.4:
                self.f("ellipsis")
                return "%s[%s, ...]" % (t, self.ann(d - 1))
            return "%s[%s]" % (t, ", ".join(self.ann(d - 1) for _ in range(self.rng.randint(1, 3))))
        if r < 0.72:
            return "%s[%s]" % (self.rng.choice(PATTERNS), self.rng.choice(["str", "bytes", "str | bytes", "typing.Any"]))
        if r < 0.80:
            self.f("Callable")
            c = self.rng.choice(CALLABLES)
            if self.rng.random() < 0.25:
                self.f("ellipsis")
                return "%s[..., %s]" % (c, self.ann(d - 1))
            args = ", ".join(self.ann(d - 1) for _ in range(self.rng.randint(0, 3)))
            return "%s[[%s], %s]" % (c, args, self.ann(d - 1))
        if r < 0.86:
            self.f("Annotated")
            meta = []
            for _ in range(self.rng.randint(1, 2)):
                meta.append(self.rng.choice([quote(self.rng, self.rng.choice(LIT_STRINGS)), "A", "3", "ns.Inner",
                                             self.literal()]))
            inner = self.member(d - 1) if self.rng.random() < 0.5 else self.ann(d - 1)
            if inner.startswith(("'", '"')):
                inner = "int"
            return "%s[%s, %s]" % (self.rng.choice(ANNOTATED), inner, ", ".join(meta))
        if r < 0.91:
            return self.literal()
        if r < 0.95:
            return "%s[%s]" % (self.rng.choice(OPTIONALS), self.ann(d - 1))
        if r < 0.98:
            return "%s[%s]" % (self.rng.choice(UNIONS), ", ".join(self.ann(d - 1) for _ in range(self.rng.randint(1, 3))))
        self.f("subscript-of-subscript")
        return "G2[%s, T][%s]" % (self.ann(d - 1), self.ann(d - 1))

    # ---- non-annotation expressions (identity / totality clauses) ----
    def nonann(self, d):
        a = lambda: self.ann(max(d - 1, 0))
        e = lambda: (self.nonann(d - 1) if d > 0 and self.rng.random() < 0.5 else a())
        forms = [
            lambda: "%s %s %s" % (e(), self.rng.choice(["+", "-", "*", "@", "/", "%", "**", "<<", ">>", "^", "&", "//"]), e()),
            lambda: "(%s) + %s" % (self.chain(max(d, 1)), a()),
            lambda: "%s + %s | %s" % (a(), a(), a()),
            lambda: "%s | %s * %s" % (a(), a(), a()),
            lambda: "%s & %s | %s" % (a(), a(), a()),
            lambda: "1 + 2",
            lambda: "f(%s)" % e(),
            lambda: "f(%s, k=%s, *%s, **%s)" % (e(), e(), e(), e()),
            lambda: "%s.method(%s)" % (a() if self.rng.random() < 0.5 else "obj", e()),
            lambda: "lambda list, x=%s: %s" % (e(), e()),
            lambda: "[%s for list in %s if %s]" % (e(), e(), e()),
            lambda: "{%s: %s for k, v in %s}" % (e(), e(), e()),
            lambda: "%s if %s else %s" % (e(), e(), e()),
            lambda: "%s < %s <= %s" % (e(), e(), e()),
            lambda: "%s and %s or not %s" % (e(), e(), e()),
            lambda: "{%s, %s}" % (e(), e()),
            lambda: "{%s: %s, **%s}" % (e(), e(), e()),
            lambda: "-%s" % e(),
            lambda: "~(%s)" % e(),
            lambda: "x[%s:%s, ::%s]" % (e(), e(), e()),
            lambda: "(y := %s)" % e(),
            lambda: "(%s, *%s)" % (e(), e()),
            lambda: "[%s, %s]" % (e(), e()),
            lambda: "f(%s)[%s].attr" % (e(), e()),
            lambda: "tuple[*%s]" % a(),
            lambda: "(%s for x in %s)" % (e(), e()),
            lambda: "f'{%s}'" % "x",
            lambda: "3 | 4",
            lambda: "Literal[1 | 2]",
            lambda: "list.append",
            lambda: "dict.fromkeys(%s)" % e(),
            lambda: "u'text'",
            lambda: "x.dict[%s]" % e(),
        ]
        self.f("nonann")
        return self.rng.choice(forms)()


def corpus_shapes(max_n: int):
    """every binary-tree parenthesisation of |-chains of 2..max_n operands, with None in every position"""
    atoms = ["int", "str", "list[A]", "B", "dict[str, C]"]
    out = []

    def trees(lo, hi):
        """(text, is_atom) for every binary tree over operands lo..hi-1; a composite left operand is emitted
        both bare (left-associative reading) and parenthesised (same tree, different spelling)"""
        if hi - lo == 1:
            yield "@%d" % lo, True
            return
        for k in range(lo + 1, hi):
            for l, la in trees(lo, k):
                for r, ra in trees(k, hi):
                    rs = r if ra else "(" + r + ")"
                    yield l + " | " + rs, False
                    if not la:
                        yield "(" + l + ") | " + rs, False

    for n in range(2, max_n + 1):
        for t, _ in trees(0, n):
            for none_at in [None] + list(range(n)):
                s = t
                for i in range(n):
                    s = s.replace("@%d" % i, "None" if i == none_at else atoms[i])
                out.append(s)
    return out


FIXED = [
    "str", "typing.Union[str, int]", "str | int | None", "dict[str, int]", "dict[str, int | float]",
    "str | dict[str, int | float]",
    "a | (b | c)", "None | A", "A | None", "list[dict[str, int | None] | None]",
    "Callable[[int | str, list[int]], dict[str, int] | None]", "typing.List[int]", "re.Pattern[str]", "Pattern[str]",
    "list", "dict", "set", "tuple", "Pattern", "ns.list", "ns.list[int]", "ns.dict[str, int | None]", "list.foo",
    "Literal['a|b', '[x]']", "'int | str'", "List['int | str']", "Annotated[int | None, 'x | y']",
    "tuple[int, ...]", "tuple[()]", "G2[int | None, T][str | bytes]", "Callable[..., list[int] | None]",
    "typing.Optional[list[int]]", "typing.Union[int | str, None]", "Union[int, Union[str, list[bytes]]]",
    "tuple[tuple[tuple[tuple[int | None, ...], ...], ...], ...]",
    "dict[str, dict[str, dict[str, dict[str, list[int] | None]]]]",
    "(A | B) | (C | None)", "A | (B | (C | (int | None)))", "((A | B) | C) | int",
    "Annotated[list[int] | None, Literal['a|b'], 'dict[str, int]']",
    "type[int | str]", "frozenset[int | None]", "collections.abc.Sequence[list[int]]",
]

NONANN_FIXED = [
    "1 + 2",
    "(a | b) + c", "a + b | c", "a | b + c", "a + (b | c)", "f(a | b)", "-a | b", "x[1:2]", "a if b else c | d",
    "[a | b]", "(a | b, c)", "a | b,", "lambda: a | b", "{a | b}", "Literal[1 | 2]", "x[(a,)]", "f(list[int], k=dict)",
    "[list for list in x]", "lambda list: list", "a * b | c | d", "a | b | c * d", "(a + b) | (c + d)",
    "a ^ b | c", "a | b ^ c", "not a | b", "a < b | c", "f'{a | b}'", "(x := list)", "x.list.dict", "dict.keys",
    "u'abc'", "f'{x!r:>{w}}'", "a @ b", "a // b | c", "a ** b | c",
]
