"""C11, round 3: references issued from SEVERAL modules within one process.

(1) *histories*: K synthesised modules with pairwise distinct names are alive at once; every module issues string
    references that are neither a bare name nor led by a dotted module name (compound expressions over names bound
    in that module: "list[X]", "dict[str, X]", "X | None", "tuple[X, int]", "list[othermod.X]"), plus bare and
    module-qualified names, from the module body's helper at call depth 0-3, from a closure, and from a module
    that merely imports the names -- interleaved between the modules and WITHOUT clearing any cache in between.
    Required: each call behaves like the routine of the annotation the text evaluates to in the issuing module.
(2) *foreign-module references*: ForwardRef('X', module=M) where M is not the module defining X but one that
    imports it, at the root and at every nested position; and string / ForwardRef members of a class defined in M.

Even histories: the names are unique per module (N<k>, NT<w>, AL<w>, AS<w> with disjoint k / w ranges), so a text
evaluated in another module's namespace is a NameError.  Odd histories: every module binds the SAME names to its own
objects, so the same text issued from two modules must be served two different routines (passes on /repo since
c751e0f; before it, the caches keyed by the bare text served the first module's class to everybody).
"""
from __future__ import annotations

import itertools
import json
import random
import warnings

import coregen
import coremodel
import impl
import universe
from universe import cname

HELPER = ("def _verif_closure(direction, t, x):\n"
          "    from typelib import marshals, unmarshals\n"
          "    def outer():\n"
          "        def inner():\n"
          "            return unmarshals.unmarshal(t, x) if direction == 'u' else marshals.marshal(x, t=t)\n"
          "        return inner()\n"
          "    return outer()\n")
# callers: how the reference is issued -> (module that issues it, call depth / closure)
CALLERS = ["own-0", "own-1", "own-3", "closure", "importer-0", "importer-2"]


def at(pos, t):
    return {"list": lambda: ("seq", "KList", "list[{}]", t),
            "dict": lambda: ("map", "KDict", "dict[{}, {}]", ("leaf", "str"), t),
            "bar": lambda: ("union", "|", [t, ("none",)]),
            "tuple": lambda: ("tuple", "tuple[{}]", [t, ("leaf", "int")]),
            "bare": lambda: t}[pos]()


def make_env(j, rng):
    """module j of a history: two classes (the second refers to the first and to itself), ids 10j.., wrappers 100j.."""
    a, b = 10 * j, 10 * j + 1
    fl = ["dataclass", "plain", "namedtuple", "typeddict"]
    env = {"module": coregen.new_module_name(f"c11h{j}"), "defs": {}, "wid": itertools.count(100 * j + 1)}
    env["defs"][a] = ("class", fl[(j + rng.randint(0, 3)) % 4], "", [("v", ("leaf", "int"), None), ("name", ("leaf", "str"), None)])
    env["defs"][b] = ("class", fl[(j + rng.randint(0, 1)) % 2], "",
                      [("x", ("name", a), None), ("kids", ("seq", "KList", "list[{}]", ("name", b)), None)])
    return env, a, b


class HGroup(coremodel.Group):
    """a Group whose string-typed roots are issued inside a history: the outcome observed there is the case's
    observation (Group.add would otherwise clear every cache and issue the reference from the defining module)"""

    def __init__(self, env, roots, suppressed, texts):
        super().__init__(env, roots, suppressed)
        self.recorded = {}
        exec(compile(HELPER, self.mod.__file__, "exec", dont_inherit=True), self.mod.__dict__)
        names = [k for k in self.mod.__dict__ if k[:1] == "N" or k[:2] in ("NT", "AL", "AS")]
        self.importer = impl.new_module(
            self.env["module"] + "_imp",
            f"import {self.env['module']}\nfrom {self.env['module']} import {', '.join(names)}\n" + universe.PRELUDE + HELPER)
        self.order_types = list(self.pytys)
        self.texts = texts
        for ri, text in texts.items():
            self.pytys[ri] = text

    def close(self):
        super().close()
        impl.drop_module(self.env["module"] + "_imp")

    def issue(self, direction, ri, x, caller):
        """issue the reference text of root ri from `caller`; no cache is cleared"""
        t = self.pytys[ri]
        mod = self.importer if caller.startswith("importer") else self.mod
        try:
            with warnings.catch_warnings():
                warnings.simplefilter("ignore")
                if caller == "closure":
                    r = mod._verif_closure(direction, t, x)
                else:
                    depth = int(caller.split("-")[1])
                    r = mod._verif_um(t, x, depth) if direction == "u" else mod._verif_m(t, x, depth)
            return ("ok", r)
        except RecursionError:
            return ("raise", "ERecursion")
        except BaseException as e:
            return ("raise", impl.exc_kind(e))

    def expected(self, direction, ri, x):
        """the routine of the annotation the text evaluates to, in a cleared process state"""
        from typelib import marshals, unmarshals
        impl.clear_caches()
        t = self.order_types[ri]
        try:
            with warnings.catch_warnings():
                warnings.simplefilter("ignore")
                return ("ok", unmarshals.unmarshal(t, x) if direction == "u" else marshals.marshal(x, t=t))
        except RecursionError:
            return ("raise", "ERecursion")
        except BaseException as e:
            return ("raise", impl.exc_kind(e))

    def observe(self, direction, ri, x):
        q = self.recorded.get((direction, ri, id(x)))
        if q:
            return q.pop(0)
        return super().observe(direction, ri, x)


def targets(env, a, b):
    wid = env["wid"]
    return [("name", a), ("name", b), ("newtype", next(wid), ("leaf", "int")), ("alias", next(wid), ("name", a)),
            ("newtype", next(wid), ("alias", next(wid), ("name", b))), ("aliasstr", next(wid), a)]


def text_of(desc, env, qualified):
    s = universe.src_ty(desc, env)
    if qualified:          # the names of the module written through the module: list[mod.N10]
        import re
        s = re.sub(r"\b(N\d+|NT\d+|AL\d+|AS\d+)\b", lambda m: env["module"] + "." + m.group(1), s)
    return s


def build_history(seed, hi, k_modules, suppressed, notes):
    """one history over k modules -> (groups, steps); steps = [(group, ri, caller, direction, input)]"""
    rng = random.Random(seed * 977 + hi)
    groups, per_module = [], []
    for k in range(k_modules):
        j = 1 if hi % 2 else 1 + hi * k_modules + k          # odd history: the same names in every module
        env, a, b = make_env(j, rng)
        tg = targets(env, a, b)
        roots, qualified = [], set()
        for ti, t in enumerate(tg):
            for pi, pos in enumerate(["list", "dict", "bar", "tuple"]):
                if (ti + pi + hi) % 2 == 0 or len(roots) < 4:        # half of the cells per history, rotating
                    roots.append(at(pos, t))
        # compound text over module-qualified names (issued from the importing module, which also imports the
        # defining module by name), a bare name, a dotted name
        for r, q in ((at("list", ("name", a)), True), (at("dict", tg[3]), True), (("name", b), False), (("name", a), True)):
            roots.append(r)
            if q:
                qualified.add(len(roots) - 1)
        env.pop("wid")
        try:
            g = HGroup(env, roots, suppressed, {})
        except Exception as e:
            notes.append(f"history module failed to materialise: {e!r}")
            continue
        for ri in range(len(roots)):
            g.pytys[ri] = g.texts[ri] = text_of(g.roots[ri], g.env, ri in qualified)
        g.meta = [("history", "root", i) for i in range(len(roots))]
        groups.append(g)
        calls = []
        for ri in range(len(roots)):
            try:
                v = coregen.gen_value(rng, g.roots[ri], g.env, g.mod, depth=2)
            except RecursionError:
                continue
            pool = CALLERS[4:] if ri in qualified else CALLERS
            wire = g.expected("m", ri, v)            # computed beforehand; the history starts from cleared caches
            calls.append((g, ri, pool[(ri + k + hi) % len(pool)], "m", v))
            calls.append((g, ri, rng.choice(pool), "u", wire[1] if wire[0] == "ok" and rng.random() < 0.7 else v))
        per_module.append(calls)
    # interleaved: module 1's first call, module 2's first call, ...; then a few repeats (served from the caches)
    steps = [c for row in itertools.zip_longest(*per_module) for c in row if c is not None]
    steps += [steps[i] for i in rng.sample(range(len(steps)), min(6, len(steps)))]
    return groups, steps


def run_history(groups, steps):
    """-> records [(group, ri, caller, direction, input, observed, expected)]; the observations are queued so that
    Group.add (correspondence) records them as this case's outcome"""
    impl.clear_caches()
    seen = []
    for g, ri, caller, direction, x in steps:
        obs = g.issue(direction, ri, x, caller)
        seen.append(obs)
    out = []
    for (g, ri, caller, direction, x), obs in zip(steps, seen):
        exp = g.expected(direction, ri, x)
        g.recorded.setdefault((direction, ri, id(x)), []).append(obs)
        g.add(direction, ri, x)
        out.append((g, ri, caller, direction, x, obs, exp))
    impl.clear_caches()
    return out


def build(seed, thorough, suppressed, notes):
    groups, records = [], []
    for hi in range(6 if thorough else 2):
        gs, steps = build_history(seed, hi, 3, suppressed, notes)
        groups += gs
        records += [(hi,) + r for r in run_history(gs, steps)]
    return groups, records


def replay_history(seed, hi, upto, suppressed):
    """re-run history hi of this seed up to and including step `upto`; fails when that step differs"""
    notes = []
    gs, steps = build_history(seed, hi, 3, suppressed, notes)
    try:
        impl.clear_caches()
        obs = None
        for g, ri, caller, direction, x in steps[:upto + 1]:
            obs = g.issue(direction, ri, x, caller)
        g, ri, caller, direction, x = steps[upto]
        exp = g.expected(direction, ri, x)
        return obs, exp, g.pytys[ri], caller
    finally:
        for g in gs:
            g.close()
        impl.clear_caches()


# ----------------------------------------------------------------------------------
# (2) references through a module that merely imports the name
# ----------------------------------------------------------------------------------

def attach_importer(g, foreign_roots):
    """a module that imports every public name of g's module; the annotations of `foreign_roots` are re-evaluated
    in it, so that their ForwardRef(..., module=__name__) carries the IMPORTING module"""
    name = g.env["module"] + "_imp"
    g.importer = impl.new_module(name, f"import typing, collections\nimport {g.env['module']}\nfrom {g.env['module']} import *\n")
    for ri in foreign_roots:
        g.pytys[ri] = eval(universe.src_ty(g.roots[ri], g.env), g.importer.__dict__)
        g.reg.rev.append((g.pytys[ri], g.roots[ri]))
    g.foreign = set(foreign_roots)
    inner = g.close

    def close():
        inner()
        impl.drop_module(name)
    g.close = close


MEMBERS = [  # (field, annotation written in the importing module, the plain annotation)
    ("n", "'Node'", "Node"), ("ns", "'list[Node]'", "list[Node]"), ("ls", "list['Node']", "list[Node]"),
    ("tl", "typing.List['Node']", "typing.List[Node]"), ("fin", "typing.Final['Node']", "Node"),
    ("r", "typing.ForwardRef('Node', module=__name__)", "Node"),
    ("rs", "list[typing.ForwardRef('Node', module=__name__)]", "list[Node]"),
    ("o", "typing.Optional[typing.ForwardRef('Node', module=__name__)]", "typing.Optional[Node]"),
    ("d", "dict[str, typing.ForwardRef('Node', module=__name__)]", "dict[str, Node]"),
    ("t", "tuple[typing.ForwardRef('Node', module=__name__), int]", "tuple[Node, int]"),
    ("fr", "typing.Final[typing.ForwardRef('Node', module=__name__)]", "Node"),
    # wrappers DEFINED in the importing module over the imported class
    ("w1", "NTb", "Node"), ("w2", "ALb", "Node"), ("w3", "ASb", "Node"), ("w4", "typing.Final[NTb]", "Node"),
    ("w5", "list[NTb]", "list[Node]"), ("w6", "typing.Optional[ASb]", "typing.Optional[Node]"),
    ("w7", "dict[str, ALNT]", "dict[str, Node]"), ("w8", "typing.Final[ALNT]", "Node"),
]
WRAPPERS = ("from typelib.py.compat import TypeAliasType\nNTb = typing.NewType('NTb', Node)\nALb = TypeAliasType('ALb', Node)\n"
            "ASb = TypeAliasType('ASb', 'Node')\nALNT = TypeAliasType('ALNT', NTb)\n")
MEMBER_WIRE = {"Node": {"x": "1", "nxt": {"x": 2}}, "list[Node]": [{"x": "1"}, {"x": 2, "nxt": {"x": 3}}],
               "typing.List[Node]": [{"x": "1"}], "typing.Optional[Node]": {"x": "1"},
               "dict[str, Node]": {"k": {"x": "1"}}, "tuple[Node, int]": [{"x": "1"}, 2]}


def foreign_members(fails, stats, only=None):
    """a class defined in a module that imports `Node`: its string / ForwardRef members (resolvable from that module)
    and its members wrapped by NewTypes / aliases defined in that module behave like the same class written with the
    plain annotations; the member is the first visit of Node, or a revisit (a plain member comes first)"""
    from typelib import marshals, unmarshals
    import dataclasses
    impl.new_module("verif_c11_fa", "import dataclasses, typing\n@dataclasses.dataclass\nclass Node:\n    x: int\n"
                    "    nxt: typing.Optional['Node'] = None\n")

    def out(f):
        try:
            r = f()
            return ("ok", dataclasses.asdict(r) if dataclasses.is_dataclass(r) else r)
        except Exception as e:
            return ("raise", impl.exc_kind(e))

    def one(field, ann, plain, revisit):
        src = ("import typing, dataclasses\nfrom verif_c11_fa import Node\n" + WRAPPERS +
               "@dataclasses.dataclass\nclass Holder:\n" + ("    a0: Node\n" if revisit else "") + "    {}: {}\n")
        here = impl.new_module("verif_c11_fa_plain", src.format(field, plain))
        there = impl.new_module("verif_c11_fb", src.format(field, ann))
        x = {field: MEMBER_WIRE[plain]}
        if revisit:
            x = {"a0": {"x": 5}, **x}
        for what in ("unmarshal", "marshal"):
            impl.clear_caches()
            if what == "unmarshal":
                exp, got = out(lambda: unmarshals.unmarshal(here.Holder, x)), out(lambda: unmarshals.unmarshal(there.Holder, x))
            else:
                try:
                    hv = unmarshals.unmarshal(here.Holder, x)
                except Exception:
                    continue
                tv = there.Holder(**{f.name: getattr(hv, f.name) for f in dataclasses.fields(hv)})
                impl.clear_caches()
                exp, got = out(lambda: marshals.marshal(hv, t=here.Holder)), out(lambda: marshals.marshal(tv, t=there.Holder))
            stats["evaluations"] += 1
            stats["nontrivial"] += exp[0] == "ok"
            if exp != got:
                fails.append({"symptom": f"{what} of a class whose member names an imported type through a reference or "
                                         "a wrapper of the importing module differs from the class with the plain member",
                              "tag": "foreign-member", "member": field, "revisit": revisit, "wrapped_type": ann,
                              "plain_type": plain, "input": repr(x), "got": repr(got)[:300], "expected": repr(exp)[:300],
                              "key": json.dumps(["C11-foreign-member", field, what, revisit])})
    try:
        for field, ann, plain in MEMBERS:
            if only and field != only:
                continue
            for revisit in (False, True):
                one(field, ann, plain, revisit)
    finally:
        for m in ("verif_c11_fa", "verif_c11_fa_plain", "verif_c11_fb"):
            impl.drop_module(m)
