"""C11, round 3: references issued from SEVERAL modules within one process.

(1) *histories*: K synthesised modules with pairwise distinct names are alive at once; every module issues string
    references that are neither a bare name nor led by a dotted module name (compound expressions over names bound
    in that module: "list[X]", "dict[str, X]", "X | None", "tuple[X, int]", "list[othermod.X]"), plus bare and
    module-qualified names, from the module body's helper at call depth 0-3, from a closure, and from a module
    that merely imports the names -- interleaved between the modules and WITHOUT clearing any cache in between.
    Required: each call behaves like the routine of the annotation the text evaluates to in the issuing module.
(2) *foreign-module references*: ForwardRef('X', module=M) where M is not the module defining X but one that
    imports it, at the root and at every nested position; and string / ForwardRef members of a class defined in M.

Round 4: every module also issues its bare and dotted names through a shared HELPER module that binds none of them
(one or more call levels between the issuer and typelib: the module that counts is the nearest one that BINDS the name,
not the nearest one on the stack); compound texts are not sent through the helper (they are not resolvable from it).
(3) *cross-module chains* (`cross_groups`): wrapper chains whose links are defined in DIFFERENT modules.

Even histories: the names are unique per module (N<k>, NT<w>, AL<w>, AS<w> with disjoint k / w ranges), so a text
evaluated in another module's namespace is a NameError.  Odd histories: every module binds the SAME names to its own
objects, so the same text issued from two modules must be served two different routines (passes on /repo since
c751e0f; before it, the caches keyed by the bare text served the first module's class to everybody).
"""
from __future__ import annotations

import itertools
import json
import random
import warnings

import coregen
import coremodel
import impl
import universe
from universe import cname

HELPER = ("def _verif_closure(direction, t, x):\n"
          "    from typelib import marshals, unmarshals\n"
          "    def outer():\n"
          "        def inner():\n"
          "            return unmarshals.unmarshal(t, x) if direction == 'u' else marshals.marshal(x, t=t)\n"
          "        return inner()\n"
          "    return outer()\n"
          "def _verif_via(helper, direction, t, x, depth):\n"
          "    return helper.um(t, x, depth) if direction == 'u' else helper.m(t, x, depth)\n")
# the shared module between an issuer and typelib: binds none of the issuers' names
SHARED = ("def um(t, x, depth=0):\n    from typelib import unmarshals\n    if depth:\n        return um(t, x, depth - 1)\n"
          "    return unmarshals.unmarshal(t, x)\n"
          "def m(t, x, depth=0):\n    from typelib import marshals\n    if depth:\n        return m(t, x, depth - 1)\n"
          "    return marshals.marshal(x, t=t)\n")
VIA_HELPER = ["helper-0", "helper-1", "helper-2"]
# callers: how the reference is issued -> (module that issues it, call depth / closure)
CALLERS = ["own-0", "own-1", "own-3", "closure", "importer-0", "importer-2"]


def at(pos, t):
    return {"list": lambda: ("seq", "KList", "list[{}]", t),
            "dict": lambda: ("map", "KDict", "dict[{}, {}]", ("leaf", "str"), t),
            "bar": lambda: ("union", "|", [t, ("none",)]),
            "tuple": lambda: ("tuple", "tuple[{}]", [t, ("leaf", "int")]),
            "bare": lambda: t}[pos]()


def make_env(j, rng):
    """module j of a history: two classes (the second refers to the first and to itself), ids 10j.., wrappers 100j.."""
    a, b = 10 * j, 10 * j + 1
    fl = ["dataclass", "plain", "namedtuple", "typeddict"]
    env = {"module": coregen.new_module_name(f"c11h{j}"), "defs": {}, "wid": itertools.count(100 * j + 1)}
    env["defs"][a] = ("class", fl[(j + rng.randint(0, 3)) % 4], "", [("v", ("leaf", "int"), None), ("name", ("leaf", "str"), None)])
    env["defs"][b] = ("class", fl[(j + rng.randint(0, 1)) % 2], "",
                      [("x", ("name", a), None), ("kids", ("seq", "KList", "list[{}]", ("name", b)), None)])
    return env, a, b


class HGroup(coremodel.Group):
    """a Group whose string-typed roots are issued inside a history: the outcome observed there is the case's
    observation (Group.add would otherwise clear every cache and issue the reference from the defining module)"""

    def __init__(self, env, roots, suppressed, texts):
        super().__init__(env, roots, suppressed)
        self.recorded = {}
        self.caller_of = {}
        self.helper = None
        exec(compile(HELPER, self.mod.__file__, "exec", dont_inherit=True), self.mod.__dict__)
        names = [k for k in self.mod.__dict__ if k[:1] == "N" or k[:2] in ("NT", "AL", "AS")]
        self.importer = impl.new_module(
            self.env["module"] + "_imp",
            f"import {self.env['module']}\nfrom {self.env['module']} import {', '.join(names)}\n" + universe.PRELUDE + HELPER)
        self.order_types = list(self.pytys)
        self.texts = texts
        for ri, text in texts.items():
            self.pytys[ri] = text

    def close(self):
        super().close()
        impl.drop_module(self.env["module"] + "_imp")

    def issue(self, direction, ri, x, caller):
        """issue the reference text of root ri from `caller`; no cache is cleared"""
        t = self.pytys[ri]
        mod = self.importer if caller.startswith("importer") else self.mod
        try:
            with warnings.catch_warnings():
                warnings.simplefilter("ignore")
                if caller == "closure":
                    r = mod._verif_closure(direction, t, x)
                elif caller.startswith("helper"):
                    r = mod._verif_via(self.helper, direction, t, x, int(caller.split("-")[1]))
                else:
                    depth = int(caller.split("-")[1])
                    r = mod._verif_um(t, x, depth) if direction == "u" else mod._verif_m(t, x, depth)
            return ("ok", r)
        except RecursionError:
            return ("raise", "ERecursion")
        except BaseException as e:
            return ("raise", impl.exc_kind(e))

    def expected(self, direction, ri, x):
        """the routine of the annotation the text evaluates to, in a cleared process state"""
        from typelib import marshals, unmarshals
        impl.clear_caches()
        t = self.order_types[ri]
        try:
            with warnings.catch_warnings():
                warnings.simplefilter("ignore")
                return ("ok", unmarshals.unmarshal(t, x) if direction == "u" else marshals.marshal(x, t=t))
        except RecursionError:
            return ("raise", "ERecursion")
        except BaseException as e:
            return ("raise", impl.exc_kind(e))

    def observe(self, direction, ri, x, clear=True):
        """inside Group.add: the outcome observed in the history.  Otherwise (warm-replay pass of the shared harness,
        replays): the same text from the same caller, with every cache kept when clear=False"""
        q = self.recorded.get((direction, ri, id(x)))
        if q:
            return q.pop(0)
        if clear:
            impl.clear_caches()
        caller = self.caller_of.get((direction, ri, id(x)))
        if caller is None:
            caller = "importer-0" if ri in getattr(self, "qualified", ()) else "own-0"
        return self.issue(direction, ri, x, caller)


def targets(env, a, b):
    wid = env["wid"]
    return [("name", a), ("name", b), ("newtype", next(wid), ("leaf", "int")), ("alias", next(wid), ("name", a)),
            ("newtype", next(wid), ("alias", next(wid), ("name", b))), ("aliasstr", next(wid), a)]


def text_of(desc, env, qualified):
    s = universe.src_ty(desc, env)
    if qualified:          # the names of the module written through the module: list[mod.N10]
        import re
        s = re.sub(r"\b(N\d+|NT\d+|AL\d+|AS\d+)\b", lambda m: env["module"] + "." + m.group(1), s)
    return s


def build_history(seed, hi, k_modules, suppressed, notes):
    """one history over k modules -> (groups, steps); steps = [(group, ri, caller, direction, input)]"""
    rng = random.Random(seed * 977 + hi)
    groups, per_module = [], []
    shared = impl.new_module(coregen.new_module_name("c11shared"), SHARED)
    for k in range(k_modules):
        j = 1 if hi % 2 else 1 + hi * k_modules + k          # odd history: the same names in every module
        env, a, b = make_env(j, rng)
        tg = targets(env, a, b)
        roots, qualified, names = [], set(), set()
        for ti, t in enumerate(tg):
            for pi, pos in enumerate(["list", "dict", "bar", "tuple"]):
                if (ti + pi + hi) % 2 == 0 or len(roots) < 4:        # half of the cells per history, rotating
                    roots.append(at(pos, t))
        # compound texts over module-qualified names (issued from the importing module, which also imports the
        # defining module by name)
        for r in (at("list", ("name", a)), at("dict", tg[3])):
            roots.append(r); qualified.add(len(roots) - 1)
        # names: every target as a bare name, and two dotted names -- these (and only these) also go through the
        # shared helper module
        for t in tg:
            roots.append(t); names.add(len(roots) - 1)
        for t in (("name", a), tg[4]):
            roots.append(t); names.add(len(roots) - 1); qualified.add(len(roots) - 1)
        env.pop("wid")
        try:
            g = HGroup(env, roots, suppressed, {})
        except Exception as e:
            notes.append(f"history module failed to materialise: {e!r}")
            continue
        for ri in range(len(roots)):
            g.pytys[ri] = g.texts[ri] = text_of(g.roots[ri], g.env, ri in qualified)
        g.qualified, g.helper = qualified, shared
        g.meta = [("history", "root", i) for i in range(len(roots))]
        groups.append(g)
        calls = []
        for ri in range(len(roots)):
            try:
                v = coregen.gen_value(rng, g.roots[ri], g.env, g.mod, depth=2)
            except RecursionError:
                continue
            pool = CALLERS[4:] if ri in qualified else CALLERS
            wire = g.expected("m", ri, v)            # computed beforehand; the history starts from cleared caches
            if ri in names:
                # through the helper in every module (the same helper frames for everybody), then from anywhere
                first, second = VIA_HELPER[(ri + hi) % 3], rng.choice(pool + VIA_HELPER)
            else:
                first, second = pool[(ri + k + hi) % len(pool)], rng.choice(pool)
            calls.append((g, ri, first, "m", v))
            if ri in names:      # unmarshal shows the class: once through the helper in every module as well
                calls.append((g, ri, VIA_HELPER[(ri + hi + 1) % 3], "u", wire[1] if wire[0] == "ok" else v))
            calls.append((g, ri, second, "u", wire[1] if wire[0] == "ok" and rng.random() < 0.7 else v))
        per_module.append(calls)
    # interleaved: module 1's first call, module 2's first call, ...; then a few repeats (served from the caches)
    steps = [c for row in itertools.zip_longest(*per_module) for c in row if c is not None]
    steps += [steps[i] for i in rng.sample(range(len(steps)), min(6, len(steps)))]
    for g, ri, caller, direction, x in steps:
        g.caller_of[(direction, ri, id(x))] = caller
    if groups:
        inner = groups[0].close

        def close():
            inner()
            impl.drop_module(shared.__name__)
        groups[0].close = close
    return groups, steps


def run_history(groups, steps):
    """-> records [(group, ri, caller, direction, input, observed, expected)]; the observations are queued so that
    Group.add (correspondence) records them as this case's outcome"""
    impl.clear_caches()
    seen = []
    for g, ri, caller, direction, x in steps:
        obs = g.issue(direction, ri, x, caller)
        seen.append(obs)
    out = []
    for (g, ri, caller, direction, x), obs in zip(steps, seen):
        exp = g.expected(direction, ri, x)
        g.recorded.setdefault((direction, ri, id(x)), []).append(obs)
        g.add(direction, ri, x)
        out.append((g, ri, caller, direction, x, obs, exp))
    impl.clear_caches()
    return out


def build(seed, thorough, suppressed, notes):
    groups, records = [], []
    for hi in range(6 if thorough else 2):
        gs, steps = build_history(seed, hi, 3, suppressed, notes)
        groups += gs
        records += [(hi,) + r for r in run_history(gs, steps)]
    return groups, records


def replay_history(seed, hi, upto, suppressed):
    """re-run history hi of this seed up to and including step `upto`; fails when that step differs"""
    notes = []
    gs, steps = build_history(seed, hi, 3, suppressed, notes)
    try:
        impl.clear_caches()
        obs = None
        for g, ri, caller, direction, x in steps[:upto + 1]:
            obs = g.issue(direction, ri, x, caller)
        g, ri, caller, direction, x = steps[upto]
        exp = g.expected(direction, ri, x)
        return obs, exp, g.pytys[ri], caller
    finally:
        for g in gs:
            g.close()
        impl.clear_caches()


# ----------------------------------------------------------------------------------
# (2) references through a module that merely imports the name
# ----------------------------------------------------------------------------------

def attach_importer(g, foreign_roots):
    """a module that imports every public name of g's module; the annotations of `foreign_roots` are re-evaluated
    in it, so that their ForwardRef(..., module=__name__) carries the IMPORTING module"""
    name = g.env["module"] + "_imp"
    g.importer = impl.new_module(name, f"import typing, collections\nimport {g.env['module']}\nfrom {g.env['module']} import *\n")
    for ri in foreign_roots:
        g.pytys[ri] = eval(universe.src_ty(g.roots[ri], g.env), g.importer.__dict__)
        g.reg.rev.append((g.pytys[ri], g.roots[ri]))
    g.foreign = set(foreign_roots)
    inner = g.close

    def close():
        inner()
        impl.drop_module(name)
    g.close = close


MEMBERS = [  # (field, annotation written in the importing module, the plain annotation)
    ("n", "'Node'", "Node"), ("ns", "'list[Node]'", "list[Node]"), ("ls", "list['Node']", "list[Node]"),
    ("tl", "typing.List['Node']", "typing.List[Node]"), ("fin", "typing.Final['Node']", "Node"),
    ("r", "typing.ForwardRef('Node', module=__name__)", "Node"),
    ("rs", "list[typing.ForwardRef('Node', module=__name__)]", "list[Node]"),
    ("o", "typing.Optional[typing.ForwardRef('Node', module=__name__)]", "typing.Optional[Node]"),
    ("d", "dict[str, typing.ForwardRef('Node', module=__name__)]", "dict[str, Node]"),
    ("t", "tuple[typing.ForwardRef('Node', module=__name__), int]", "tuple[Node, int]"),
    ("fr", "typing.Final[typing.ForwardRef('Node', module=__name__)]", "Node"),
    # wrappers DEFINED in the importing module over the imported class
    ("w1", "NTb", "Node"), ("w2", "ALb", "Node"), ("w3", "ASb", "Node"), ("w4", "typing.Final[NTb]", "Node"),
    ("w5", "list[NTb]", "list[Node]"), ("w6", "typing.Optional[ASb]", "typing.Optional[Node]"),
    ("w7", "dict[str, ALNT]", "dict[str, Node]"), ("w8", "typing.Final[ALNT]", "Node"),
]
# round 4: the string-valued alias lives in the DEFINING module (ASa, ASg), the outer links in the class's module
CROSS_MEMBERS = [
    ("x1", "NTx", "Node"), ("x2", "ALx", "Node"), ("x3", "typing.Final[NTx]", "Node"), ("x4", "list[ALx]", "list[Node]"),
    ("x5", "dict[str, NTALx]", "dict[str, Node]"), ("x6", "typing.Optional[NTx]", "typing.Optional[Node]"),
    ("x7", "NTg", "list[Node]"), ("x8", "ALLx", "list[Node]"), ("x9", "tuple[ALx, int]", "tuple[Node, int]"),
]
CROSS_WRAPPERS = ("from typelib.py.compat import TypeAliasType\nfrom verif_c11_fa import ASa, ASg\n"
                  "NTx = typing.NewType('NTx', ASa)\nALx = TypeAliasType('ALx', ASa)\nNTALx = typing.NewType('NTALx', ALx)\n"
                  "NTg = typing.NewType('NTg', ASg)\nALLx = TypeAliasType('ALLx', list[NTx])\n")
OTHER_NODE = "@dataclasses.dataclass\nclass Node:\n    other: str = 'shop'\n"
WRAPPERS = ("from typelib.py.compat import TypeAliasType\nNTb = typing.NewType('NTb', Node)\nALb = TypeAliasType('ALb', Node)\n"
            "ASb = TypeAliasType('ASb', 'Node')\nALNT = TypeAliasType('ALNT', NTb)\n")
MEMBER_WIRE = {"Node": {"x": "1", "nxt": {"x": 2}}, "list[Node]": [{"x": "1"}, {"x": 2, "nxt": {"x": 3}}],
               "typing.List[Node]": [{"x": "1"}], "typing.Optional[Node]": {"x": "1"},
               "dict[str, Node]": {"k": {"x": "1"}}, "tuple[Node, int]": [{"x": "1"}, 2]}


def foreign_members(fails, stats, only=None):
    """a class defined in a module that imports `Node`: its string / ForwardRef members (resolvable from that module)
    and its members wrapped by NewTypes / aliases defined in that module behave like the same class written with the
    plain annotations; the member is the first visit of Node, or a revisit (a plain member comes first)"""
    from typelib import marshals, unmarshals
    import dataclasses
    impl.new_module("verif_c11_fa", "import dataclasses, typing\nfrom typelib.py.compat import TypeAliasType\n"
                    "@dataclasses.dataclass\nclass Node:\n    x: int\n    nxt: typing.Optional['Node'] = None\n"
                    "ASa = TypeAliasType('ASa', 'Node')\nASg = TypeAliasType('ASg', 'list[Node]')\n")

    def out(f):
        try:
            r = f()
            return ("ok", dataclasses.asdict(r) if dataclasses.is_dataclass(r) else r)
        except Exception as e:
            return ("raise", impl.exc_kind(e))

    def one(field, ann, plain, revisit, binding="same"):
        src = ("import typing, dataclasses\nfrom verif_c11_fa import Node\n" + WRAPPERS +
               "@dataclasses.dataclass\nclass Holder:\n" + ("    a0: Node\n" if revisit else "") + "    {}: {}\n")
        here = impl.new_module("verif_c11_fa_plain", src.format(field, plain))
        if binding != "same":
            # the class's module does not bind `Node` / binds another class under that name; the chain's text is
            # written in verif_c11_fa and means verif_c11_fa.Node
            src = ("import typing, dataclasses\n" + (OTHER_NODE if binding == "other" else "") + CROSS_WRAPPERS +
                   "@dataclasses.dataclass\nclass Holder:\n" + ("    a0: NTx\n" if revisit else "") + "    {}: {}\n")
        there = impl.new_module("verif_c11_fb", src.format(field, ann))
        x = {field: MEMBER_WIRE[plain]}
        if revisit:
            x = {"a0": {"x": 5}, **x}
        for what in ("unmarshal", "marshal"):
            impl.clear_caches()
            if what == "unmarshal":
                exp, got = out(lambda: unmarshals.unmarshal(here.Holder, x)), out(lambda: unmarshals.unmarshal(there.Holder, x))
            else:
                try:
                    hv = unmarshals.unmarshal(here.Holder, x)
                except Exception:
                    continue
                tv = there.Holder(**{f.name: getattr(hv, f.name) for f in dataclasses.fields(hv)})
                impl.clear_caches()
                exp, got = out(lambda: marshals.marshal(hv, t=here.Holder)), out(lambda: marshals.marshal(tv, t=there.Holder))
            stats["evaluations"] += 1
            stats["nontrivial"] += exp[0] == "ok"
            if exp != got:
                fails.append({"symptom": f"{what} of a class whose member names an imported type through a reference or "
                                         "a wrapper of the importing module differs from the class with the plain member",
                              "tag": "foreign-member", "member": field, "revisit": revisit, "binding": binding,
                              "wrapped_type": ann,
                              "plain_type": plain, "input": repr(x), "got": repr(got)[:300], "expected": repr(exp)[:300],
                              "key": json.dumps(["C11-foreign-member", field, what, revisit, binding])})
    try:
        for field, ann, plain in MEMBERS:
            if only and field != only:
                continue
            for revisit in (False, True):
                one(field, ann, plain, revisit)
        for field, ann, plain in CROSS_MEMBERS:
            if only and field != only:
                continue
            for binding in ("unbound", "other"):
                for revisit in (False, True):
                    one(field, ann, plain, revisit, binding)
    finally:
        for m in ("verif_c11_fa", "verif_c11_fa_plain", "verif_c11_fb"):
            impl.drop_module(m)


# ----------------------------------------------------------------------------------
# (3) wrapper chains whose links are defined in different modules (round 4)
# ----------------------------------------------------------------------------------
# A = the module that defines the classes and the string-valued alias (the innermost link, whose text is written
# there); B = another module.  A chain is a list of (kind, module) links from the inside out; at least one link is in B.
CROSS_CHAINS = [
    [("newtype", "B")], [("alias", "B")],
    [("newtype", "A"), ("alias", "B")], [("alias", "A"), ("newtype", "B")],
    [("newtype", "B"), ("alias", "B")], [("alias", "B"), ("newtype", "B")],
]
# what B binds under the names the text uses: nothing / other classes of the same names / nothing, and the text is
# written in a third module with names only that module binds / the same classes
BINDINGS = ["unbound", "other", "renamed", "same"]
CROSS_POSITIONS = ["root", "list", "dict", "tuple", "opt", "alias-of-generic"]
OTHER_CLASSES = ("@dataclasses.dataclass\nclass N0:\n    other: str = 'shop'\n"
                 "@dataclasses.dataclass\nclass N1:\n    other: str = 'shop'\n")


def cross_env():
    env = {"module": coregen.new_module_name("c11x"), "defs": {}}
    env["defs"][0] = ("class", "dataclass", "", [("v", ("leaf", "int"), None), ("name", ("leaf", "str"), None)])
    env["defs"][1] = ("class", "plain", "", [("x", ("name", 0), None), ("kids", ("seq", "KList", "list[{}]", ("name", 1)), None)])
    # a string-valued alias of a generic: N2 = TypeAliasType('N2', 'list[N0]')
    env["defs"][2] = ("alias", "list[N0]", ("seq", "KList", "list[{}]", ("name", 0)))
    return env


def cross_at(pos, t, wid, b_links):
    if pos == "root":
        return t
    if pos == "alias-of-generic":          # B's alias of a generic over the chain
        i = next(wid)
        b_links.append(("alias", i))
        return ("alias", i, ("seq", "KList", "list[{}]", t))
    return {"list": lambda: ("seq", "KList", "list[{}]", t),
            "dict": lambda: ("map", "KDict", "dict[{}, {}]", ("leaf", "str"), t),
            "tuple": lambda: ("tuple", "tuple[{}]", [("leaf", "int"), t]),
            "opt": lambda: ("union", "Optional", [t, ("none",)])}[pos]()


def cross_root(inner, chain, pos, wid):
    """-> (plain description, wrapped description, [(kind, id) of the links defined in B])"""
    base = {"as0": lambda: ("aliasstr", next(wid), 0), "as1": lambda: ("aliasstr", next(wid), 1),
            "asg": lambda: ("name", 2)}[inner]()
    plain = {"as0": ("name", 0), "as1": ("name", 1), "asg": ("seq", "KList", "list[{}]", ("name", 0))}[inner]
    t, b_links = base, []
    for kind, where in chain:
        i = next(wid)
        t = (kind, i, t)
        if where == "B":
            b_links.append((kind, i))
    wrapped = cross_at(pos, t, wid, b_links)
    plain = cross_at(pos, plain, wid, []) if pos != "alias-of-generic" else ("seq", "KList", "list[{}]", plain)
    return plain, wrapped, b_links


def attach_shop(g, specs):
    """specs = [(root index, binding, b_links)]: module B per binding; the annotation of each root is evaluated in B,
    where the links of b_links are DEFINED (their __module__ is B) and everything else is imported.
    binding 'renamed': the string-valued alias (and every other link outside B) lives in a third module X which binds
    the classes under OTHER names (`from A import N0 as Item0`) and writes the text with them; B binds none of them."""
    a = g.env["module"]
    per_binding = {}
    for ri, binding, b_links in specs:
        per_binding.setdefault(binding, []).append((ri, set(map(tuple, b_links))))
    g.shops = {}
    made = []
    for binding, items in per_binding.items():
        head = ["import typing, collections, dataclasses", "from typelib.py.compat import TypeAliasType"]
        lines = head + [f"import {a}"]
        src_mod, xlines = a, None
        if binding == "same":
            lines.append(f"from {a} import N0, N1")
        elif binding == "other":
            lines.append(OTHER_CLASSES.rstrip("\n"))
        elif binding == "renamed":
            src_mod = f"{a}_x"
            xlines = head + [f"from {a} import N0 as Item0, N1 as Item1", "N2 = TypeAliasType('N2', 'list[Item0]')"]
        lines.append(f"from {src_mod} import N2")
        done = set()
        for ri, b_links in items:
            ws = []
            universe.wrappers_in(g.roots[ri], ws)
            for w in ws:
                key = (w[0], w[1])
                if key in done:
                    continue
                done.add(key)
                nm = {"newtype": "NT", "alias": "AL", "aliasstr": "AS"}[w[0]] + str(w[1])
                if w[0] == "aliasstr":
                    define = f"{nm} = TypeAliasType({nm!r}, 'Item{w[2]}')"
                elif w[0] == "newtype":
                    define = f"{nm} = typing.NewType({nm!r}, {universe.src_ty(w[2], g.env)})"
                else:
                    define = f"{nm} = TypeAliasType({nm!r}, {universe.src_ty(w[2], g.env)})"
                if key in b_links:
                    lines.append(define)
                else:
                    lines.append(f"from {src_mod} import {nm}")
                    if xlines is not None:
                        xlines.append(define)
        if xlines is not None:
            impl.new_module(src_mod, "\n".join(xlines) + "\n")
            made.append(src_mod)
        name = f"{a}_shop_{binding}"
        shop = impl.new_module(name, "\n".join(lines) + "\n")
        made.append(name)
        g.shops[binding] = shop
        for ri, _ in items:
            g.pytys[ri] = eval(universe.src_ty(g.roots[ri], g.env), shop.__dict__)
            for sub in universe.subdescs(g.roots[ri], []):
                if sub[0] in ("newtype", "alias", "aliasstr", "seq", "map", "tuple", "union") or sub == ("name", 2):
                    g.reg.rev.append((eval(universe.src_ty(sub, g.env), shop.__dict__), sub))
    g.shop_specs = {ri: (binding, [list(k) for k in b_links]) for ri, binding, b_links in specs}
    inner = g.close

    def close():
        inner()
        for m in made:
            impl.drop_module(m)
    g.close = close


def cross_groups(seed, thorough, suppressed, notes):
    """-> (groups, pairs) in the format of the property's standard pairs (plain root vs wrapped root).
    The chains over the string-valued alias of a GENERIC (N2 = TypeAliasType('N2', 'list[N0]')) are in a group of their
    own marked oracle_only: the shared harness has no description for the node ForwardRef('list[N0]', module=A), so
    the mechanism tie cannot take them; the oracle does."""
    out_g, out_p = [], []
    bindings = BINDINGS if thorough else BINDINGS[:3]
    tie = [b for b in bindings if b != "renamed"]      # ForwardRef('Item0', module=X) has no description either
    for inners, bs, oracle_only in ((("as0", "as1"), tie, False), (("as0", "as1"), ["renamed"], True),
                                    (("asg",), bindings, True)):
        gs, ps = _cross_group(seed, thorough, suppressed, notes, inners, bs)
        for g in gs:
            g.oracle_only = oracle_only
        out_g += gs
        out_p += ps
    return out_g, out_p


def _cross_group(seed, thorough, suppressed, notes, inners, bindings):
    rng = random.Random(seed * 389 + 5 + len(inners) + 3 * len(bindings))
    env = cross_env()
    wid = itertools.count(1)
    roots, specs, plan = [], [], []
    plain_index = {}
    for ii, inner in enumerate(inners):
        for pi, pos in enumerate(CROSS_POSITIONS):
            for bi, binding in enumerate(bindings):
                for ci, chain in enumerate(CROSS_CHAINS):
                    if not thorough and (ci + ii + pi + bi + seed) % 3:
                        continue
                    plain, wrapped, b_links = cross_root(inner, chain, pos, wid)
                    if (inner, pos) not in plain_index:
                        plain_index[(inner, pos)] = len(roots)
                        roots.append(plain)
                    roots.append(wrapped)
                    specs.append((len(roots) - 1, binding, b_links))
                    plan.append((plain_index[(inner, pos)], len(roots) - 1,
                                 f"cross-{pos}", {"inner": inner, "binding": binding,
                                                  "chain": "/".join(f"{k}@{m}" for k, m in chain)}))
    try:
        g = coremodel.Group(env, roots, suppressed)
        attach_shop(g, specs)
    except Exception as e:
        notes.append(f"cross-module group failed to materialise: {e!r}")
        return [], []
    g.ref_depth = 0
    g.meta = [("cross", "root", i) for i in range(len(roots))]
    pairs, plain_obs = [], {}
    for p_ri, w_ri, tag, info in plan:
        if p_ri not in plain_obs:
            v = coregen.gen_value(rng, g.roots[p_ri], g.env, g.mod, depth=2)
            wire = g.add("m", p_ri, v)
            inputs = coregen.input_pool(rng, v, wire[1] if wire[0] == "ok" else None)
            plain_obs[p_ri] = (v, wire, [(t, x, g.add("u", p_ri, x)) for t, x in inputs])
        v, wire, obs = plain_obs[p_ri]
        pairs.append({"group": g, "plain": p_ri, "wrapped": w_ri, "tag": tag, "value": v, "cross": info,
                      "m": (wire, g.add("m", w_ri, v)),
                      "u": [(t, x, a, g.add("u", w_ri, x)) for t, x, a in obs]})
    return [g], pairs
