"""Assemble /verif/DESIGN.md from its parts (run by hand): Part I = the design written before the build
(notes/DESIGN_PART1.md), Part II = the as-built record (notes/LEAD_AS_BUILT.md + notes/AS_BUILT.md)."""
import os
import re

V = os.path.dirname(os.path.dirname(os.path.abspath(__file__)))
p1 = open(os.path.join(V, "notes", "DESIGN_PART1.md")).read()
p1 = p1.replace(
    "Status of this document: written before any framework code.",
    "Status of this document: **Part I** (sections 1-10 and the appendices) was written before any framework code and is\n"
    "kept as the reasoning behind the build; **Part II** (at the end, \"As built\") records what exists, what each check\n"
    "covers, the trusted base, the defects found and repaired, the false alarms corrected and which seeded changes each\n"
    "check catches. Where they differ Part II is authoritative. Part I:", 1)
lead = open(os.path.join(V, "notes", "LEAD_AS_BUILT.md")).read()
built = open(os.path.join(V, "notes", "AS_BUILT.md")).read()
# demote the generated document's headings by one level and number them after II.4
built = re.sub(r"^# .*\n", "", built, count=1)
n = [4]


def renum(m):
    n[0] += 1
    return f"## II.{n[0]} " + re.sub(r"^\d+\.\s*", "", m.group(1))


built = re.sub(r"^## (.*)$", renum, built, flags=re.M)
open(os.path.join(V, "DESIGN.md"), "w").write(
    p1.rstrip() + "\n\n" + "-" * 87 + "\n\n" + lead.rstrip() + "\n\n" + built.lstrip())
print("DESIGN.md:", sum(1 for _ in open(os.path.join(V, "DESIGN.md"))), "lines")
