"""Capstone (WP-T): the bridges compose.

`obligations(run)` does, on every run,

  1. *theorems*: Props/Capstone.v is re-compiled in the build dir (Print Assumptions captured, one obligation per
     theorem).  The file only chains theorems of the component bridges (LeafBridge, IoBridge, C05Bridge, C05, C01, C03,
     C13, C06, C06Heap, C08Bridge, C12Bridge, C02, C02Bridge, C02Json): a change of any of their STATEMENTS (a new
     hypothesis, a changed construction, a field added to Core.runtime that one construction forgets, a guard that
     starts to exclude the other's parameter) makes a composition fail to type-check here even though every component
     still compiles.  No new model layer, hence no new stream: the model-vs-code ties are those of the components
     (leaftie, iotie, bridgetie, jsontie, cachetie, heaptie), which the calling properties already run.
  2. *the non-vacuity instance on the implementation* (cheap, 1 module): the instance of `Capstone_C01_instance`,
     `Capstone_C01_text_instance` and `Capstone_C02_instance` --
         class N0: kids: list[N0]; val: Optional[int]
         v = [N0(kids=[N0(kids=[], val=None)], val=5), N0(kids=[], val=7)]
     -- is replayed on /repo: marshal gives the wire value the model computed, unmarshal of it gives v back, the
     configured codec writes the bytes the model computed (when the configured encoder is orjson; otherwise the bytes
     must parse to the wire value) and decodes them to v, and unmarshal(list[int], b"[1,2]") is [1, 2].  This is not
     a correspondence stream (one case): it keeps the Example from being a property of the model only.

Wiring (the lead): `lib.run_tie(run, capstonetie)` from harness/props/c01.py and c02.py (prove or correspond), and
`COQ_TARGETS += capstonetie.COQ_TARGETS`.
"""
from __future__ import annotations

import json
import os
import re

import impl
import lib

COQ_TARGETS = ["theories/Proofs/CapstoneLemmas.vo", "theories/Props/Capstone.vo", "theories/Props/CapstoneTotal.vo"]
THEOREMS = [
    "Capstone_constructions_commute", "Capstone_one_runtime", "Capstone_mechanism_is_reference",
    "Capstone_same_serdes_joint_law", "Capstone_refuted_joined_toys",
    "Capstone_C01_roundtrip", "Capstone_C01_union_fixpoint", "Capstone_C01_roundtrip_text",
    "Capstone_C01_any_history", "Capstone_C03_any_history",
    "Capstone_C02_roundtrip", "Capstone_tables_from_coding", "Capstone_C02_roundtrip_from_coding",
    "Capstone_C03_conforms", "Capstone_C13_passthrough", "Capstone_C13_idempotent",
    "Capstone_C06_wire", "Capstone_C06_heap",
    "Capstone_C08_first_acceptor",
    "Capstone_noop_forced", "Capstone_refuted_any_field", "Capstone_refuted_any_field_witness",
    "Capstone_C01_roundtrip_with_any", "Capstone_with_any_validity", "Capstone_same_serdes_from_c14",
]
EXAMPLES = ["Capstone_C01_instance", "Capstone_C01_instance_by_theorem", "Capstone_C01_text_instance",
            "Capstone_C02_instance", "Capstone_one_runtime_instance", "Capstone_history_instance",
            "Capstone_C03_C13_C06_instance", "Capstone_C08_instance", "Capstone_C02_from_coding_instance"]
TOTAL_THEOREMS = [
    "Capstone_mechanism_total", "Capstone_mechanism_equiv_total", "Capstone_C01_roundtrip_total",
    "Capstone_C01_union_fixpoint_total", "Capstone_C01_roundtrip_text_total", "Capstone_C01_any_history_total",
    "Capstone_C02_roundtrip_total", "Capstone_C02_roundtrip_from_coding_total", "Capstone_C03_conforms_total",
    "Capstone_C13_passthrough_total", "Capstone_C13_idempotent_total", "Capstone_C06_wire_total",
    "Capstone_C06_heap_total", "Capstone_C08_first_acceptor_total", "Capstone_C01_roundtrip_with_any_total",
]
TOTAL_EXAMPLES = ["CapstoneTotal_C01_instance", "CapstoneTotal_C01_instance_by_theorem", "CapstoneTotal_C01_instance_fuel",
                  "CapstoneTotal_C08_instance"]
PROPS = [("Props/Capstone.v", THEOREMS), ("Props/CapstoneTotal.v", TOTAL_THEOREMS)]

# the bytes of Capstone_C02_instance (orjson's form)
EXPECTED_BYTES = b'[{"kids":[{"kids":[],"val":null}],"val":5},{"kids":[],"val":7}]'
EXPECTED_WIRE = [{"kids": [{"kids": [], "val": None}], "val": 5}, {"kids": [], "val": 7}]

MODULE_SRC = '''
import dataclasses
import typing

@dataclasses.dataclass
class N0:
    kids: list["N0"]
    val: typing.Optional[int]
'''


def ensure_built():
    missing = [t for t in COQ_TARGETS if not os.path.exists(os.path.join(lib.COQ, t))
               or os.path.getmtime(os.path.join(lib.COQ, t)) < os.path.getmtime(os.path.join(lib.COQ, t[:-1]))]
    if not missing:
        return True, ""
    rc, out, err = lib.sh(["bash", os.path.join(lib.VERIF, "setup.sh")] + COQ_TARGETS, timeout=1800, cwd=lib.VERIF)
    ok = all(os.path.exists(os.path.join(lib.COQ, t)) for t in COQ_TARGETS)
    return ok, (out + err)[-400:]


def replay_example():
    """-> list of (clause, ok, detail): the instance of the Examples on the implementation"""
    import typelib
    from typelib.py import compat

    out = []
    impl.clear_caches()
    name = "capstone_example_mod"
    mod = impl.new_module(name, MODULE_SRC)
    try:
        N0 = mod.N0
        T = list[N0]
        v = [N0(kids=[N0(kids=[], val=None)], val=5), N0(kids=[], val=7)]

        def clause(what, fn):
            try:
                ok, detail = fn()
            except Exception as e:  # a raise is a failed clause, with the exception as detail
                ok, detail = False, f"{type(e).__name__}: {e}"
            out.append((what, bool(ok), "" if ok else str(detail)[:300]))

        def c_marshal():
            w = typelib.marshal(v, t=T)
            return w == EXPECTED_WIRE and type(w) is list and all(type(d) is dict for d in w), repr(w)

        def c_unmarshal():
            impl.clear_caches()
            r = typelib.unmarshal(T, EXPECTED_WIRE)
            return r == v and all(type(x) is N0 for x in r) and type(r[0].kids[0]) is N0, repr(r)

        def c_encode():
            impl.clear_caches()
            b = typelib.codec(T).encode(v)
            b2 = typelib.encode(v, t=T)
            raw = b if isinstance(b, (bytes, bytearray)) else str(b).encode("utf-8")
            raw2 = b2 if isinstance(b2, (bytes, bytearray)) else str(b2).encode("utf-8")
            if getattr(compat.json, "__name__", "") == "orjson":
                return bytes(raw) == EXPECTED_BYTES and bytes(raw2) == EXPECTED_BYTES, repr((b, b2))
            return json.loads(raw) == EXPECTED_WIRE and json.loads(raw2) == EXPECTED_WIRE, repr((b, b2))

        def c_decode():
            impl.clear_caches()
            r = typelib.codec(T).decode(EXPECTED_BYTES)
            r2 = typelib.decode(T, EXPECTED_BYTES)
            return r == v and r2 == v and json.loads(EXPECTED_BYTES) == EXPECTED_WIRE, repr((r, r2))

        def c_text():
            impl.clear_caches()
            r = typelib.unmarshal(list[int], b"[1,2]")
            w = typelib.marshal([1, 2], t=list[int])
            return r == [1, 2] and w == [1, 2] and all(type(x) is int for x in r), repr((r, w))

        def c_history():
            # Capstone_history_instance: the four operations in ONE process, caches never cleared in between
            impl.clear_caches()
            o1 = typelib.marshal(v, t=T)
            o2 = typelib.unmarshal(T, o1)
            o3 = typelib.unmarshal(list[int], b"[1,2]")
            o4 = typelib.unmarshal(T, o1)
            return o1 == EXPECTED_WIRE and o2 == v and o3 == [1, 2] and o4 == v and o4 is not o2, repr((o1, o2, o3, o4))

        def c_pass_union():
            # Capstone_C03_C13_C06_instance (pass-through) and Capstone_C08_instance (Optional[int] as a root)
            import typing
            impl.clear_caches()
            r = typelib.unmarshal(T, v)
            a = typelib.unmarshal(typing.Optional[int], 5)
            b = typelib.unmarshal(typing.Optional[int], None)
            return r == v and r is not v and a == 5 and type(a) is int and b is None, repr((r, a, b))

        clause("marshal(v, t=list[N0]) is the wire value of Capstone_C01_instance", c_marshal)
        clause("unmarshal(list[N0], wire) is v (Capstone_C01_roundtrip's conclusion)", c_unmarshal)
        clause("codec(list[N0]).encode(v) / typelib.encode(v, t=..) write the bytes of Capstone_C02_instance", c_encode)
        clause("codec(list[N0]).decode(bytes) / typelib.decode(.., bytes) give v back (Capstone_C02_roundtrip's conclusion)", c_decode)
        clause("unmarshal(list[int], b'[1,2]') is [1, 2] (Capstone_C01_text_instance)", c_text)
        clause("the history of Capstone_history_instance on warm caches answers like the stateless compositions", c_history)
        clause("unmarshal(list[N0], v) is an equal copy of v; Optional[int] on 5 / None (Capstone_C03_C13_C06_instance, "
               "Capstone_C08_instance)", c_pass_union)
    finally:
        impl.drop_module(name)
        impl.clear_caches()
    return out


def obligations(run: "lib.Run", props: bool = True, example: bool = True):
    ok, detail = ensure_built()
    run.oblige("build:capstone theories (%s)" % " ".join(COQ_TARGETS), ok, detail)
    if not ok:
        return
    if props:
        for rel, thms in PROPS:
            run.check_props(rel, thms, timeout=900)
        src = open(os.path.join(lib.THEORIES, "Props", "Capstone.v")).read()
        src += open(os.path.join(lib.THEORIES, "Props", "CapstoneTotal.v")).read()
        missing = [e for e in EXAMPLES + TOTAL_EXAMPLES
                   if not re.search(r"Example\s+%s\b" % e, src) or f"Print Assumptions {e}." not in src]
        run.oblige("capstone:non-vacuity Examples (one instance satisfying all hypotheses of compositions 0, 1, 1b, 3) "
                   "stated and under Print Assumptions", not missing, "missing: " + ", ".join(missing))
    if example:
        for what, good, det in replay_example():
            run.oblige("capstone:example on the implementation: " + what, good, det)
    run.assumptions += [
        "capstone: the compositions of Props/Capstone.v add no model layer; what stands between them and /repo are the "
        "ties of the components (leaf-tables / leaf-marshallers, core-io, bridge tie, json-writer / -reader / -codec, "
        "cachebridge histories, identity) and the three-way core correspondence; remaining premises per composition are "
        "classified in the header of Props/Capstone.v and in notes/capstone.md",
        "capstone: Props/CapstoneTotal.v restates the compositions with NO mechanism-termination premise (exists f0, forall "
        "fuel >= f0 ...) from the completeness of the mechanism (Proofs/BuildComplete.v); its extra hypotheses are "
        "orders_strict (decided per observed order table by BuildTables.orders_strict_ok inside orders_hyps_ok) and "
        "defd orders T (the root has a row); termination of the REFERENCE semantics at the guards' fuel stays a premise "
        "where the composition starts from marshal (no lemma derives `mar = Ok` from `valid`) and for the heap-level routine",
        "capstone: classes with a typing.Any field are inside the compositions through the pass-through leaf kind LAny "
        "(Capstone_C01_roundtrip_with_any); Capstone_refuted_any_field is about the previous construction",
    ]
