"""Tie for the leaf bridge (notes/leafbridge.md): the scalar model of C04 as the leaf routines of the core model.

`obligations(run)` (called from the property modules of C01, C13 and C04 after their own work):

  (a) re-checks Props/LeafBridge.v on this run (every theorem `Closed under the global context`);
  (b) correspondence stream `leaf-marshallers`: the marshal-side model of Model/LeafBridge.v (mar_int, mar_float,
      mar_tostring, mar_iso, mar_enum, mar_noop through the table `mar_of`) evaluated by vm_compute on
      interpreter-answer tables (exactly as C04's `routines` stream does for the unmarshal side) against
      `typelib.marshal(v, t=T)` for generated scalar values of every kind, plus the crossings the model covers
      (float -> int, text -> number, anything -> str, date <-> datetime, non-temporal -> ISO routines, non-members ->
      Enum routine).  `Unmodelled` must be 0;
  (b') stream `leaf-round(model on interpreter answers)`: for every generated valid value the conclusions of
      LB_scalar_round_exact / LB_scalar_round_sim are evaluated on the MODEL (marshal-side model, then Scalars'
      unmarshal-side model on the interpreter's answers for the wire form the implementation produced): inside the
      strict range the value comes back exactly, fold included (this samples FoldLaws through the model); inside
      the lax range up to the fold;
  (c) the coding law, sampled: the harness' value encoder (c04.emit_val: Python value -> `val` term) and the core
      harness' atom identification (universe.Registry.atom) identify exactly the same pairs of generated values, so
      an injective `enc` with a left inverse `dec` exists on what is generated;
  (d) the stated laws beyond RuntimeLaws, sampled on the interpreter / implementation: FoldLaws, LoadLaws,
      Utf8Total, the guard enum_value_ok (which members are inside, which outside);
  (e) `obligations(run, groups, tag)`: stream `leaf-tables[tag]` -- every scalar leaf call the core mirror recorded on
      this run (the leaf_u / leaf_m / none_u tables of the runtime on which the calling property's core correspondence
      evaluates Core.unm / Core.mar) is re-evaluated on the scalar model: the runtime of this run IS the bridged
      runtime of Model/LeafBridge.v on the covered leaves (strs that are field names, i.e. PKey, included).

The value generators and the `val` encoder are C04's (imported, never edited)."""
from __future__ import annotations

import datetime as D
import decimal
import enum
import fractions
import pathlib
import random
import re
import os
import typing
import uuid

import impl
import lib
from lib import coq_list, coq_Z
from props import c04

COQ_TARGETS = ["theories/Props/LeafBridge.vo", "theories/Model/LeafBridgeEq.vo"]
THEOREMS = ["LB_unm_results_of_class", "LB_unm_results_instances", "LB_unm_isinstance_pass", "LB_exact_is_instance",
            "LB_literal_marshal", "LB_scalar_round_exact", "LB_scalar_round_sim",
            "LB_marshal_wire", "LB_enum_guard_of_text", "LB_round_laws", "LB_leaf_round_sim", "LB_leaf_m_inj",
            "LB_none_laws", "LB_pass_laws", "LB_pass_laws_instances", "LB_idem_laws", "LB_load_laws_from_serdes",
            "LB_load_nontext_from_serdes", "LB_induced_load_law", "LB_leaf_laws", "LB_marshal_laws",
            "C01_roundtrip_from_interpreter_laws", "C01_union_fixpoint_from_interpreter_laws",
            "C13_passthrough_from_scalar_model", "C13_idempotent_from_scalar_model",
            "C13_passthrough_instances_from_scalar_model", "C13_passthrough_from_serdes_model",
            "C13_idempotent_from_serdes_model", "C03_conforms_from_scalar_model",
            "C06_wire_from_scalar_model", "C06_literal_rejects_from_scalar_model", "LB_refuted_round_exact_with_fold",
            "LB_refuted_fold_scalar", "LB_refuted_enum_bytes_value", "LB_refuted_pattern_flags",
            "LB_refuted_round_for_instances", "LB_zero_duration_roundtrips", "LB_any_leaf_noop", "LB_refuted_any_wire",
            "LB_uuid_text_from_serdes", "LB_runtime_laws_with_serdes_load"]
EXAMPLES = ["LB_coding_law_satisfiable", "LB_any_instance", "LB_std_text_laws", "LB_std_shape_laws", "LB_serdes_load_satisfiable", "LB_laws_satisfiable",
            "LB_C01_instance"]
PROPS = [("Props/LeafBridge.v", THEOREMS)]

TD = D.timedelta
HDR = ("From Coq Require Import List ZArith NArith Ascii String. Import ListNotations.\n"
       "Require Import TL.Model.Duration TL.Model.Temporal TL.Model.Scalars TL.Model.ScalarsEq.\n"
       "Require Import TL.Model.LeafBridge TL.Model.LeafBridgeEq.\n"
       "Open Scope Z_scope.\n"
       "Definition sb (l : list N) : string := string_of_list_ascii (map ascii_of_N l).\n")


class EBytes(enum.Enum):          # outside the guard enum_value_ok: a bytes value does not come back
    c = b"yy"


class ETuple(enum.Enum):          # inside: the value is looked up as it is
    p = (1, 2)
    n = None


# kind -> C04's routine name for the unmarshal side; a Literal kind is the pair ("LLit", declared values)
KINDS = {
    "LInt": "RInt", "LFloat": "RFloat", "LStr": "RStr", "LBytes": "RBytes", "LDec": "RDec", "LFrac": "RFrac",
    "LUuid": "RUuid", "LPath": "RPath", "LEnum": "REnum", "LDate": "RDate", "LDateTime": "RDateTime", "LTime": "RTime",
    "LTimeDelta": "RTimeDelta", "LBool": "RBool", "LPattern": "RPattern", "LNone": "RNone", "LLit": "RLit",
    "LAny": None,       # pass-through: no scalar routine, the identity on every core value
}
LEAF_ENUMS = c04.ENUMS + [ETuple, EBytes]
MIXINS = [c04.ESMix.a, c04.ESMix.five, c04.EIntEnum.x, c04.EIntEnum.y]


def kname(kind) -> str:
    return kind[0] if isinstance(kind, tuple) else kind


def kterm(kind) -> str:
    """the Coq leafkind term"""
    if isinstance(kind, tuple):
        return "(LLit " + coq_list([c04.emit_val(m) for m in kind[1]], "val") + ")"
    return kind


def rterm(kind) -> str:
    """the Coq routine term of Model/ScalarsEq.v"""
    if isinstance(kind, tuple):
        return "(RLit " + coq_list([c04.emit_val(m) for m in kind[1]], "val") + ")"
    return KINDS[kind]


def members_of(kind):
    return kind[1] if isinstance(kind, tuple) else ()


def gen_str(rng):
    return rng.choice(["", "a", "abc", "null", "1", "1.5", "[1]", "None", "\u00e9t\u00e9", "2020-01-01", "P1D", "a b",
                       "\U0001f600", str(c04.gen_int(rng)), "x" * rng.randint(0, 40)])


def gen_bytes(rng):
    return rng.choice([b"", b"ab", b"null", b"\xff\xfe", "\u00e9".encode(), bytes(rng.getrandbits(8) for _ in range(rng.randint(0, 12)))])


def gen_valid(kind, rng):
    """(kind, T, value of exactly the class of T)"""
    g = c04.GEN
    if kind == "LInt":
        return kind, int, g["int"](rng)
    if kind == "LFloat":
        return kind, float, rng.choice([g["float"](rng), float("inf"), float("-inf"), float("nan")])
    if kind == "LStr":
        return kind, str, gen_str(rng)
    if kind == "LBytes":
        return kind, bytes, gen_bytes(rng)
    if kind == "LDec":
        return kind, decimal.Decimal, rng.choice([g["decimal"](rng), decimal.Decimal("NaN"), decimal.Decimal("-Infinity")])
    if kind == "LFrac":
        return kind, fractions.Fraction, g["fraction"](rng)
    if kind == "LUuid":
        return kind, uuid.UUID, g["uuid"](rng)
    if kind == "LPath":
        p = g["path"](rng)
        return kind, type(p), p
    if kind == "LEnum":
        E = rng.choice(LEAF_ENUMS)
        return kind, E, rng.choice(list(E))
    if kind == "LDate":
        return kind, D.date, g["date"](rng)
    if kind == "LDateTime":
        return kind, D.datetime, g["datetime"](rng)
    if kind == "LTime":
        return kind, D.time, g["time"](rng)
    if kind == "LTimeDelta":
        return kind, TD, rng.choice([g["timedelta"](rng), TD(0)])
    if kind == "LBool":
        return kind, bool, rng.choice([True, False])
    if kind == "LPattern":
        return kind, re.Pattern, c04.gen_pattern(rng)
    if kind == "LNone":
        return kind, type(None), None
    if kind == "LLit":
        L = rng.choice(c04.LITERALS)
        ms = typing.get_args(L)
        return ("LLit", ms), L, rng.choice(ms)
    if kind == "LAny":      # anything goes through typing.Any / object unchanged
        k = rng.choice([k for k in KINDS if k not in ("LAny", "LLit")])
        return kind, rng.choice([typing.Any, object]), gen_valid(k, rng)[2]
    raise KeyError(kind)


def gen_cross(kind, rng):
    """(kind, T, an input that is NOT of the class of T but inside the marshal-side model)"""
    g = c04.GEN
    temporal = lambda: rng.choice([g["date"], g["datetime"], g["time"], g["timedelta"]])(rng)
    sub = lambda: rng.choice([True, False] + MIXINS)
    if kind == "LInt":
        x = rng.choice([1.5, -2.7, 1e22, float("inf"), float("nan"), g["float"](rng), "12", " 7 ", "x", "1_000", "", "-0",
                        str(g["int"](rng)), None, temporal(), pathlib.PurePosixPath("1"), sub(), sub(), c04.EInt.one,
                        c04.gen_pattern(rng)])
        return kind, int, x
    if kind == "LFloat":
        x = rng.choice([3, 10 ** 400, g["int"](rng), "1.5", "nan", "abc", "1e400", " 2 ", "", None, temporal(),
                        pathlib.PurePosixPath("1"), sub(), sub(), c04.EInt.one])
        return kind, float, x
    if kind in ("LStr", "LDec", "LFrac", "LUuid", "LPath"):
        T = gen_valid(kind, rng)[1]
        x = rng.choice([g["int"](rng), g["float"](rng), g["decimal"](rng), g["fraction"](rng), g["uuid"](rng), g["path"](rng),
                        g["date"](rng), g["time"](rng), None, gen_str(rng), sub(), c04.EInt.one])
        return kind, T, x
    if kind == "LBytes":
        return kind, bytes, rng.choice([5, "abc", None, g["date"](rng), bytearray(b"q"), 1.5, sub()])
    if kind == "LEnum":
        E = rng.choice(LEAF_ENUMS)
        other = rng.choice([e for e in LEAF_ENUMS if e is not E])
        return kind, E, rng.choice([1, "one", None, 1.5, g["date"](rng), rng.choice(list(other)), b"yy", True])
    if kind == "LBool":
        x = rng.choice(["false", "", "0", 0, 2, None, 1.5, 0.0, -0.0, float("nan"), b"", b"x", bytearray(b""), memoryview(b"q"),
                        decimal.Decimal(0), decimal.Decimal("0.0"), fractions.Fraction(0), TD(0), TD(1), temporal(), g["uuid"](rng),
                        g["path"](rng), sub(), c04.EInt.one, c04.gen_pattern(rng), g["int"](rng), g["float"](rng)])
        return kind, bool, x
    if kind == "LPattern":
        return kind, re.Pattern, rng.choice(["a+", b"a", 5, None, True, c04.ESMix.a, g["date"](rng), 1.5])
    if kind == "LNone":
        return kind, type(None), rng.choice([0, "null", "", False, b"", 1.5, g["date"](rng), sub()])
    if kind == "LAny":
        return gen_valid(kind, rng)
    if kind == "LLit":
        L = rng.choice(c04.LITERALS)
        ms = typing.get_args(L)
        x = rng.choice([True, False, 1, 0, 1.0, 0.0, 2, 7, "a", "1", "auto", "x", b"x", b"a", None, decimal.Decimal(1),
                        fractions.Fraction(1), sub(), c04.EInt.one, c04.EInt.two, g["date"](rng), bytearray(b"x"), memoryview(b"x")])
        return ("LLit", ms), L, x
    T = gen_valid(kind, rng)[1]
    x = rng.choice([temporal(), temporal(), 5, 1.5, "x", None, b"x", bytearray(b"x"), memoryview(b"x"),
                    memoryview(bytearray(b"x")), g["decimal"](rng), g["uuid"](rng), rng.choice(list(c04.EInt)), sub()])
    return kind, T, x


# ----------------------------------------------------------------------------------
# interpreter answers for the marshal side (never through typelib)
# ----------------------------------------------------------------------------------

def marshal_answers(kind, x):
    """what the marshal-side model may ask the interpreter about the input x; and the answer to x.value"""
    cs, tokv = c04.cs, (lambda v: c04.cs(c04.tok(v)))
    kw = {}
    is_enum = isinstance(x, enum.Enum)
    is_text = isinstance(x, (str, bytes, bytearray, memoryview)) and not is_enum
    if isinstance(x, (D.date, D.time)):
        kw["a_canon"] = cs(x.isoformat())
    elif not is_text:
        kw["a_canon"] = cs(str(x))
    s = x if (is_text and isinstance(x, str)) else (c04.base_of(x) if is_enum and isinstance(x, str) else None)
    if s is not None:
        kw["a_int"] = coq_list([f"({cs(s)}, {c04.emit_res(lambda: int(s), coq_Z, 'Z')})"])
        kw["a_tok"] = coq_list([f"({cs('float:' + s)}, {c04.emit_res(lambda: float(s), tokv, 'tok')})"])
    if isinstance(x, float):
        kw["a_int_of_float"] = c04.emit_res(lambda: int(x), coq_Z, "Z")
    if isinstance(x, int):
        kw["a_float_of_int"] = c04.emit_res(lambda: float(x), tokv, "tok")
    ms = members_of(kind)
    kw.update(c04.tables([x] + list(ms), members=[x] if ms else (), cands=ms, truth=[x] if kname(kind) == "LBool" else ()))
    ev = "(@Unmodelled val)"
    if is_enum:
        ev = f"(Ok {c04.emit_val(x.value)})" if c04.in_val(x.value) else f"(Ok (VOther {cs(repr(x.value)[:60])}))"
    return c04.answers(**kw), ev


def describable(x) -> bool:
    return c04.in_val(x) or isinstance(x, (tuple, list))


def eval_shards(run, prefix, fns, coq_cases, first="(L"):
    """mismatch indexes of each function of `fns` over the cases (<= 400 per file)"""
    files, spans = {}, []
    for k in range(0, len(coq_cases), 400):
        chunk = coq_cases[k:k + 400]
        body = HDR + "Definition cases := \n " + coq_list(chunk).replace("; " + first, ";\n  " + first) + ".\n"
        for fn in fns:
            body += f"Eval vm_compute in mismatches {fn} cases.\n"
        name = f"cases_leaf_{prefix}_{k // 400}.v"
        files[name] = body
        spans.append((name, k))
    res = run.coq_eval_many(files)
    out = [[] for _ in fns]
    for name, k in spans:
        r = res.get(name)
        if r is None:
            run.oblige(f"evaluate:{name}", False, "model evaluation did not compile")
            for o in out[:1]:
                o += list(range(k, min(k + 400, len(coq_cases))))
            continue
        for i in range(len(fns)):
            out[i] += [k + j for j in lib.parse_nat_list(r[i])]
    return [sorted(o) for o in out]


def corr_marshallers(run):
    from typelib import marshal
    n = run.budget(1300, 10400)
    rng = random.Random(run.seed + 41)
    kinds = list(KINDS)
    fixed = [("LTimeDelta", TD, TD(0), "fixed"), ("LDateTime", D.datetime, D.datetime(2020, 1, 1, 17, tzinfo=c04.UTC, fold=1), "fixed"),
             ("LDate", D.date, D.datetime(2020, 1, 1, 17, tzinfo=c04.UTC), "fixed"), ("LDateTime", D.datetime, D.date(2020, 1, 1), "fixed"),
             ("LEnum", EBytes, EBytes.c, "fixed"), ("LEnum", c04.EIntEnum, c04.EIntEnum.x, "fixed"), ("LInt", int, "12", "fixed"),
             ("LInt", int, float("inf"), "fixed"), ("LStr", str, None, "fixed"), ("LUuid", uuid.UUID, 5, "fixed"),
             ("LTimeDelta", TD, bytearray(b"x"), "fixed"), ("LPath", pathlib.PurePosixPath, pathlib.PureWindowsPath("C:/x"), "fixed"),
             ("LInt", int, True, "fixed"), ("LBool", bool, "false", "fixed"), ("LStr", str, c04.ESMix.a, "fixed"),
             ("LPattern", re.Pattern, re.compile("a+", re.I), "fixed"), ("LPattern", re.Pattern, re.compile(b"a"), "fixed"),
             (("LLit", (1, "a")), typing.Literal[1, "a"], True, "fixed"), (("LLit", (1, "a")), typing.Literal[1, "a"], 1, "fixed"),
             ("LNone", type(None), None, "fixed"), ("LNone", type(None), 0, "fixed")]
    items = list(fixed)
    i = 0
    while len(items) < n:
        kind = kinds[i % len(kinds)]
        i += 1
        if rng.random() < 0.7:
            items.append(gen_valid(kind, rng) + ("valid",))
        else:
            items.append(gen_cross(kind, rng) + ("crossing",))
    cases, coq, dist = [], [], {}
    for kind, T, x, cls in items:
        if not describable(x):
            continue
        impl.clear_caches()
        try:
            obs = marshal(x, t=T)
            if not describable(obs):
                continue
            o = f"(Ok {c04.emit_val(obs)})"
        except Exception as e:
            obs, o = e, f"(@Raise val {c04.exn(e)})"
        a, ev = marshal_answers(kind, x)
        cases.append({"layer": "leaf-marshallers", "kind": kname(kind), "type": getattr(T, "__name__", str(T)), "input": repr(x)[:120],
                      "class": cls, "observed": repr(obs)[:160]})
        coq.append(f"({kterm(kind)}, {a}, {ev}, {c04.emit_val(x)}, {o})")
        key = f"{kname(kind)}:{cls}"
        dist[key] = dist.get(key, 0) + 1
    bad, unm, kindbad = eval_shards(run, "mar", ["marshal_case_ok", "(fun c => negb (marshal_unmodelled c))", "marshal_kind_ok"], coq)
    dist["model_returned_Unmodelled"] = len(unm)
    dist["raised_with_another_exception_kind(counted only)"] = len(kindbad)
    nontriv = len({(c["kind"], c["input"]) for c in cases if not c["observed"].startswith(("ValueError", "TypeError", "AttributeError"))})
    run.record_corr("leaf-marshallers(marshal-side model on interpreter-answer tables vs typelib.marshal(v, t=T))", len(cases),
                    [cases[i] for i in bad], nontriv, dist)
    run.oblige("leafbridge:marshal-side model never answers Unmodelled on the generated stream", not unm,
               "; ".join(f"{cases[i]['kind']} {cases[i]['input']}" for i in unm[:3]))
    if cases:
        run.samples.append(cases[0])
    return [cases[i] for i in bad]


def corr_round(run):
    """LB_scalar_round_exact / LB_scalar_round_sim evaluated on the model for generated valid values"""
    from typelib import marshal
    n = run.budget(650, 5200)
    rng = random.Random(run.seed + 42)
    kinds = list(KINDS)
    items = [("LTimeDelta", TD, TD(0)), ("LDateTime", D.datetime, D.datetime(2020, 1, 1, 17, 0, 0, 999999, tzinfo=D.timezone(TD(minutes=330)), fold=1)),
             ("LTime", D.time, D.time(3, 4, 5, tzinfo=D.timezone(TD(minutes=-1439)), fold=1)), ("LEnum", EBytes, EBytes.c),
             ("LEnum", ETuple, ETuple.p), ("LEnum", ETuple, ETuple.n), ("LTimeDelta", TD, TD.max), ("LTimeDelta", TD, TD.min),
             ("LPattern", re.Pattern, re.compile("a+", re.I)), ("LPattern", re.Pattern, re.compile(b"a")),
             ("LBool", bool, True), ("LNone", type(None), None)]
    i = 0
    while len(items) < n:
        kind = kinds[i % len(kinds)]
        i += 1
        items.append(gen_valid(kind, rng))
    cases, coq, dist = [], [], {}
    for kind, T, x in items:
        impl.clear_caches()
        try:
            w = marshal(x, t=T)
        except Exception:
            continue
        if not describable(w):
            continue
        am, ev = marshal_answers(kind, x)
        try:
            au = c04.answers_for(KINDS[kname(kind)], T, w, members_of(kind), also=[x])
        except Exception as e:
            run.notes.append(f"leaf-round: skipped undescribable wire form {kind} {w!r}: {e!r}")
            continue
        cases.append({"layer": "leaf-round", "kind": kname(kind), "type": getattr(T, "__name__", str(T)), "value": repr(x)[:120], "wire": repr(w)[:120]})
        coq.append(f"({kterm(kind)}, {am}, {ev}, {c04.emit_val(x)}, {au})")
        dist[kname(kind)] = dist.get(kname(kind), 0) + 1
    bad_exact, bad_sim, out_strict, out_lax = eval_shards(
        run, "round", ["round_exact_ok", "round_sim_ok", "(round_in_range true)", "(round_in_range false)"], coq)
    dist["outside_strict_range(fold 1, enum value a bytes object, ...)"] = len(out_strict)
    dist["outside_lax_range"] = len(out_lax)
    dist["outside_lax_range_by_kind"] = {}
    for i in out_lax:
        k = cases[i]["kind"]
        dist["outside_lax_range_by_kind"][k] = dist["outside_lax_range_by_kind"].get(k, 0) + 1
    inside = len(cases) - len(out_strict)
    run.record_corr("leaf-round-exact(LB_scalar_round_exact on the model, interpreter answers; samples RuntimeLaws + FoldLaws)",
                    len(cases), [cases[i] for i in bad_exact], inside, dist)
    run.record_corr("leaf-round-sim(LB_scalar_round_sim on the model: up to the fold, lax range)", len(cases),
                    [cases[i] for i in bad_sim], len(cases) - len(out_lax), {})
    run.laws["leaf_round through the scalar model, exact, strict range"] = inside - len(bad_exact)
    run.oblige("leafbridge:the generated valid values are inside the ranges of the theorems (>= 80% strict)",
               inside * 10 >= len(cases) * 8, f"{inside} of {len(cases)}")


# ----------------------------------------------------------------------------------
# (c) the coding law, sampled
# ----------------------------------------------------------------------------------

def _registry():
    import universe
    reg = universe.Registry.__new__(universe.Registry)
    reg.atoms, reg.atom_objs = {}, []
    return reg


def sample_coding(run):
    """distinct generated values get distinct atoms and distinct val terms, equal ones the same: the two
    identifications (core harness atoms, C04's val encoder) agree pair by pair"""
    rng = random.Random(run.seed + 43)
    rounds = run.budget(12, 100)
    pairs = agree = same = 0
    bad = []
    tz5 = D.timezone(TD(hours=5))
    twins = [1, 1.0, decimal.Decimal(1), fractions.Fraction(1), "1", b"1", 0.0, -0.0, decimal.Decimal("1.0"), decimal.Decimal("1.00"),
             D.datetime(2020, 1, 1, 17, tzinfo=tz5), D.datetime(2020, 1, 1, 17, tzinfo=tz5, fold=1), D.datetime(2020, 1, 1, 12, tzinfo=c04.UTC),
             D.datetime(2020, 1, 1, 17, tzinfo=D.timezone(TD(hours=5))), D.date(2020, 1, 1), D.time(17, tzinfo=tz5), D.time(17, tzinfo=tz5, fold=1),
             D.time(12, tzinfo=c04.UTC), pathlib.PurePosixPath("a/b"), pathlib.PureWindowsPath("a/b"), "a/b", c04.EInt.one, c04.EIntEnum.x, 7,
             c04.EStr.num, c04.ESMix.five, "5", TD(0), TD(seconds=0, microseconds=0), TD(days=1), TD(hours=24), None, "None",
             uuid.UUID(int=5), "00000000-0000-0000-0000-000000000005", float("nan"), decimal.Decimal("NaN")]
    for r in range(rounds):
        reg = _registry()
        vals = list(twins)
        for kind in KINDS:
            for _ in range(4):
                vals.append(gen_valid(kind, rng)[2])
        vals = [v for v in vals if describable(v)]
        keys = [(reg.atom(v), c04.emit_val(v)) for v in vals]
        for i in range(len(vals)):
            for j in range(i + 1, len(vals)):
                pairs += 1
                a, b = keys[i], keys[j]
                if (a[0] == b[0]) == (a[1] == b[1]):
                    agree += 1
                    same += a[0] == b[0]
                elif len(bad) < 5:
                    bad.append(f"{vals[i]!r} / {vals[j]!r}: atoms {'equal' if a[0] == b[0] else 'differ'}, val terms "
                               f"{'equal' if a[1] == b[1] else 'differ'}")
    run.laws["coding: atoms (universe.Registry.atom) and val terms (c04.emit_val) identify the same pairs"] = agree
    run.extra_cov.setdefault("leafbridge", {})["coding_pairs"] = {"pairs": pairs, "identified_by_both": same}
    run.oblige("leafbridge:coding law sampled (distinct generated values <-> distinct atoms <-> distinct val terms)",
               not bad and pairs > 0, "; ".join(bad))


# ----------------------------------------------------------------------------------
# (d) the stated laws beyond RuntimeLaws
# ----------------------------------------------------------------------------------

def sample_laws(run):
    import pendulum
    from typelib import serdes
    rng = random.Random(run.seed + 44)
    n = run.budget(300, 3000)
    laws = {k: 0 for k in ["FoldLaws.parse_fold0", "FoldLaws.timeiso_fold0", "LoadLaws.load_uuid_self", "Utf8Total"]}
    bad = []

    def law(name, ok, what):
        if ok:
            laws[name] += 1
        else:
            bad.append(f"{name}: {what!r}")
    for _ in range(n):
        x = c04.gen_datetime(rng)
        law("FoldLaws.parse_fold0", pendulum.parse(x.isoformat()).fold == 0, x)
        t = c04.gen_time(rng)
        law("FoldLaws.timeiso_fold0", D.time.fromisoformat(t.isoformat()).fold == 0, t)
        u = c04.gen_uuid(rng)
        impl.clear_caches()
        law("LoadLaws.load_uuid_self", serdes.load(u) is u, u)
        b = gen_bytes(rng)
        try:
            ok = isinstance(b.decode("utf-8"), str)
        except UnicodeDecodeError:
            ok = True
        law("Utf8Total", ok, b)
    inside = outside = 0
    for E in LEAF_ENUMS:
        for m in E:
            v = m.value
            plain = not isinstance(v, (bytes, bytearray, memoryview, enum.Enum))
            try:
                back = E(v) is m
            except Exception:
                back = False
            if plain and back:
                inside += 1
            else:
                outside += 1
    laws["enum_value_ok: members inside the guard"] = inside
    run.extra_cov.setdefault("leafbridge", {})["enum_members_outside_guard"] = outside
    for k, v in laws.items():
        run.laws["leafbridge " + k] = v
    run.oblige("leafbridge:FoldLaws / LoadLaws / Utf8Total sampled against the interpreter and serdes.load", not bad, "; ".join(bad[:3]))


# ----------------------------------------------------------------------------------
# (e) the leaf tables of a core-model run ARE the bridged runtime
# ----------------------------------------------------------------------------------

def kind_of_class(t):
    """the leaf kind of the scalar model for a leaf type of the core harness (exact classes; enums and paths by base;
    a Literal by its declared values)"""
    if typing.get_origin(t) is typing.Literal:
        ms = typing.get_args(t)
        return ("LLit", ms) if all(c04.in_val(m) for m in ms) else None
    if t is typing.Any or t is object or t is typing.Callable or t is type:
        return "LAny"            # inspection.isunresolvable: NoOpUnmarshaller / NoOpMarshaller
    if not isinstance(t, type):
        return None
    if issubclass(t, enum.Enum):
        return "LEnum"
    exact = {int: "LInt", float: "LFloat", str: "LStr", bytes: "LBytes", decimal.Decimal: "LDec", fractions.Fraction: "LFrac",
             uuid.UUID: "LUuid", D.date: "LDate", D.datetime: "LDateTime", D.time: "LTime", TD: "LTimeDelta", bool: "LBool",
             re.Pattern: "LPattern", type(None): "LNone"}
    if t in exact:
        return exact[t]
    if issubclass(t, pathlib.PurePath):
        return "LPath"
    return None


in_val = c04.in_val


_ATOM = re.compile(r"^\(PAtom (\d+)%nat\)$")
_KEY = re.compile(r"^\(PKey (\d+)%nat\)$")
_OK = re.compile(r"^\(Ok (.*)\)$", re.S)


def _obj_of(reg, names, term):
    """the Python object a scalar pv term of this registry stands for: (True, obj) | (False, None)"""
    m = _ATOM.match(term)
    if m:
        return True, reg.atom_objs[int(m.group(1))]
    m = _KEY.match(term)
    if m and int(m.group(1)) in names:
        return True, names[int(m.group(1))]
    return False, None


def leaf_tables_tie(run, groups, tag):
    """every scalar leaf call the core mirror recorded on this run (leaf_u / leaf_m / none_u tables of the runtime the
    core correspondence evaluates Core.unm / Core.mar on), re-evaluated on the scalar model"""
    ucases, mcases, ncases, acases, abad = [], [], [], [], []
    ucoq, mcoq, ncoq = [], [], []
    skipped = {"leaf outside the scalar model (bare containers, exotic)": 0,
               "input is not a scalar of Temporal.val (container, naive temporal, other object)": 0,
               "result is not a scalar of Temporal.val": 0}

    def obs_term(reg, names, res):
        m = _OK.match(res)
        if not m:
            return "(@Raise val EValue)", None
        ok, obj = _obj_of(reg, names, m.group(1))
        if not ok or not in_val(obj):
            return None, None
        return f"(Ok {c04.emit_val(obj)})", obj
    for g in groups:
        reg = g.reg
        names = {i: n for n, i in reg.fields.items()}
        for table, side in ((g.mirror.t.lu, "u"), (g.mirror.t.lm, "m")):
            for (s, key), res in table.items():
                T = reg.leaf_py.get(s)
                kind = kind_of_class(T)
                if kind is None:
                    skipped["leaf outside the scalar model (bare containers, exotic)"] += 1
                    continue
                if kind == "LAny":
                    # a pass-through leaf of the bridged runtime hands EVERY core value back (containers included):
                    # the recorded result must be the recorded input, term for term
                    acases.append({"layer": "leaf-tables", "side": side, "kind": "LAny", "type": str(T)[:40], "input": key[:120],
                                   "observed": res[:120]})
                    if res != f"(Ok {key})":
                        abad.append(acases[-1])
                    continue
                ok, x = _obj_of(reg, names, key)
                if not ok or not in_val(x):
                    skipped["input is not a scalar of Temporal.val (container, naive temporal, other object)"] += 1
                    continue
                o, robj = obs_term(reg, names, res)
                if o is None:
                    skipped["result is not a scalar of Temporal.val"] += 1
                    continue
                desc = {"layer": "leaf-tables", "side": side, "kind": kname(kind), "type": getattr(T, "__name__", str(T)),
                        "input": repr(x)[:120], "observed": res[:80] if robj is None else repr(robj)[:120]}
                try:
                    if side == "u":
                        a = c04.answers_for(KINDS[kname(kind)], T, x, members_of(kind))
                        ucases.append(desc)
                        ucoq.append(f"({rterm(kind)}, {a}, {c04.emit_val(x)}, {o})")
                    else:
                        a, ev = marshal_answers(kind, x)
                        mcases.append(desc)
                        mcoq.append(f"({kterm(kind)}, {a}, {ev}, {c04.emit_val(x)}, {o})")
                except Exception as e:
                    run.notes.append(f"leaf-tables: skipped undescribable case {kind} {x!r}: {e!r}")
        for key, res in g.mirror.t.nu.items():
            ok, x = _obj_of(reg, names, key)
            if not ok:
                # a container: the bridged none_u raises
                ncases.append({"layer": "leaf-tables", "side": "none", "input": key[:80], "observed": res[:80]})
                ncoq.append(None if res.startswith("(Raise") else False)
                continue
            if not in_val(x):
                skipped["input is not a scalar of Temporal.val (container, naive temporal, other object)"] += 1
                continue
            o, _ = obs_term(reg, names, res)
            if o is None:
                skipped["result is not a scalar of Temporal.val"] += 1
                continue
            b = None
            if isinstance(x, (bytes, bytearray, memoryview)):
                b, s = c04.text_of(x)
                utf8 = coq_list([f"({c04.cs(b)}, {'(Ok ' + c04.cs(s) + ')' if s is not None else '(@Raise string EValue)'})"])
            ncases.append({"layer": "leaf-tables", "side": "none", "input": repr(x)[:120], "observed": res[:80]})
            ncoq.append(f"({c04.answers(a_utf8=utf8) if b is not None else c04.answers()}, {c04.emit_val(x)}, {o})")
    container_bad = [ncases[i] for i, c in enumerate(ncoq) if c is False]
    keep = [i for i, c in enumerate(ncoq) if isinstance(c, str)]
    dist = {"unmarshal_calls": len(ucases), "marshal_calls": len(mcases), "none_calls": len(ncases),
            "pass_through_calls(LAny)": len(acases), "skipped": skipped}
    by = {}
    for c in ucases + mcases:
        k = f"{c['side']}:{c['kind']}"
        by[k] = by.get(k, 0) + 1
    dist["by_side_and_kind"] = by
    ubad, uunm = eval_shards(run, f"tblu_{tag}", ["routine_case_ok", "(fun c => negb (routine_unmodelled c))"], ucoq, first="(R")
    mbad, munm = eval_shards(run, f"tblm_{tag}", ["marshal_case_ok", "(fun c => negb (marshal_unmodelled c))"], mcoq)
    (nbad,) = eval_shards(run, f"tbln_{tag}", ["none_case_ok"], [ncoq[i] for i in keep], first="({")
    ubad = [i for i in ubad if i not in set(uunm)]
    mbad = [i for i in mbad if i not in set(munm)]
    dist["outside the scalar model (model answers Unmodelled: time-only text to date, int(bytes), ...)"] = len(uunm) + len(munm)
    bad = [ucases[i] for i in ubad] + [mcases[i] for i in mbad] + [ncases[keep[i]] for i in nbad] + container_bad + abad
    total = len(ucases) + len(mcases) + len(ncases) + len(acases)
    run.record_corr(f"leaf-tables[{tag}](the scalar leaf tables of this core run = the bridged runtime of Model/LeafBridge.v)",
                    total, bad, total - len(uunm) - len(munm), dist)
    run.extra_cov.setdefault("leafbridge", {}).setdefault("leaf_tables", {})[tag] = {
        "calls_compared": total, "outside_model": len(uunm) + len(munm), "skipped": skipped}
    return bad


def obligations(run, groups=None, tag="core", props=True, streams=True):
    """props: re-check Props/LeafBridge.v on this run (about 20 s); streams: the generated streams leaf-marshallers /
    leaf-round / coding / laws (about 15 s quick); groups: the coremodel.Group objects of the calling property's own
    core correspondence -> the leaf-tables tie on exactly the runtime tables that correspondence used."""
    if props:
        run.check_props("Props/LeafBridge.v", THEOREMS)
        src = open(os.path.join(lib.THEORIES, "Props", "LeafBridge.v")).read()
        missing = [e for e in EXAMPLES if not re.search(r"Example\s+%s\b" % e, src) or f"Print Assumptions {e}." not in src]
        run.oblige("leafbridge:non-vacuity Examples (coding law, laws on the toy runtime, the C01 instance) stated and under "
                   "Print Assumptions", not missing, "missing: " + ", ".join(missing))
    if streams:
        corr_marshallers(run)
        corr_round(run)
        sample_coding(run)
        sample_laws(run)
    if groups:
        leaf_tables_tie(run, groups, tag)
    run.assumptions += [
        "leaf bridge: the leaf hypotheses of the core theorems (RoundLaws, PassLaws, IdemLaws, NoneLaws, LeafLaws, "
        "MarshalLaws) are theorems of the scalar model for the scalar kinds int float str bytes Decimal Fraction UUID "
        "path enum date datetime time timedelta (Props/LeafBridge.v); what remains assumed there: Scalars.RuntimeLaws "
        "(sampled by C04), FoldLaws, LoadLaws, Utf8Total (sampled here), and that the scalar models mirror the "
        "routines (C04's routines stream for the unmarshal side, the leaf-marshallers stream here for the marshal side)",
        "leaf bridge: bare containers and exotic leaves of the core model are outside the leaf table; for them the "
        "leaf laws stay sampled hypotheses (Any / object are the pass-through kind LAny)",
    ]
