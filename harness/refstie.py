"""Tie of the reference-resolution model (coq/theories/Model/Refs.v) to /repo, and its oracle (WP-G; C11, C12).

`obligations(run)`
  * re-checks Props/C11Refs.v (19 theorems, Print Assumptions closed);
  * reflects from the live module WHICH resolver it is (`refs._resolve_module_name` wrapped by functools.cache =
    the code before the repair, model `fixed = false`; plain function = repaired, `fixed = true`) and, by a profiler
    on probe calls, the library's own frames between each entry point and `_resolve_module_name`, and `extract`'s frame;
    and which `forwardref` it is: `l_strip_lead` ('<module>.' dropped only where it leads a dotted name, vs the pinned
    str.replace) and `l_caller_head` (a leading name the calling module binds is a name of that module, vs the pinned
    "a leading dotted name is a module") -- one obligation each, and the model variant follows the flags;
  * correspondence stream `refs-histories`: generated histories of unmarshal / marshal / decode / codec /
    refs.forwardref / graph.static_order calls with bare strings, qualified strings and ForwardRefs, issued from inside
    2-3 synthesised modules (same name bound to different classes, aliases whose __module__ is typing / types, NewTypes,
    imports, imports under another name, nested call depth, locals of the same name in the calling and in outer frames,
    names the library's own frames bind), caches cleared only where the history says so.  The frames the model gets are
    the REAL frames at the call (captured inside the synthesised module), restricted to the names asked.  Coq evaluates
    `outs fixed W L init h` (vm_compute) and prints the mismatching (history, operation) pairs;
  * for the repaired variant: `lib_ok` of the reflected chains (hypothesis of Refs_repaired_bare), and the theorem's
    conclusion read on the observations for every operation inside its hypotheses (`cover_cases`).

`search(run)`  the oracle, independent of the model: every operation of every history alone in a fresh (forked, never
  used) interpreter vs in the history (C12), and the string vs the object it names in the caller's module, both cold
  (C11), the latter also for subscripted texts the model's `evaluate` does not cover (`typing.Optional[Node]`, ...:
  `oracle_extras`, judged against `eval(text, module.__dict__)`).  Returns failure dicts with a shrunk replay and a
  `cause` (history-dependence, string-not-transparent, qualified-mangled, dotted-prefix-is-caller-name).
  `replay(payload)` re-runs one.

Worker mode (`python refstie.py --worker`): a fork server like harness/c12_worker.py; the only part that imports typelib.
"""
from __future__ import annotations

import json
import os
import random
import subprocess
import sys
import threading

HERE = os.path.dirname(os.path.abspath(__file__))

THEOREMS = [
    "Refs_refuted_cross_module", "Refs_refuted_resolver_memo", "Refs_refuted_factory_key", "Refs_full_refuted",
    "Refs_refuted_library_capture", "Refs_refuted_object_module", "Refs_full_repaired", "Refs_repaired_bare",
    "Refs_repaired_qualified", "Refs_repaired_qualified_name", "Refs_repaired_caller_head", "Refs_repaired_caller_head_name",
    "Refs_refuted_qualified_mangled", "Refs_refuted_dotted_head_pinned", "Refs_repaired_caller_name_wins",
    "Refs_repaired_refuted_local_only", "Refs_extract_innermost", "Refs_extract_global_before_local",
    "Refs_outer_local_falls_to_object_module",
]
PROPS = [("Props/C11Refs.v", THEOREMS)]
COQ_TARGETS = ["theories/Props/C11Refs.vo", "theories/Model/RefsEq.vo"]

# names asked for: ordinary ones, two that frames of the library bind as globals (graph.TypeNode; Codec in typelib.api
# and typelib.codecs), one that they bind as a local (`name` in extract / forwardref)
UNIVERSE = ["Node", "Item", "Leaf", "TypeNode", "Codec", "name"]
ALIASES = ["Ma", "Mb", "Mc"]            # names modules are imported under (`import rf..a as Ma`); also used as locals
KINDS = ["U", "M", "D", "C", "R", "S"]
ENTRY = {"U": "EUnmarshal", "M": "EMarshal", "D": "EDecode", "C": "ECodec", "R": "EForwardref", "S": "EStaticOrder"}
CLEARS = {"all": "CAll", "res": "CRes", "so": "CSo", "un": "CUn", "ma": "CMa", "cd": "CCd"}

# ======================================================================================================
# generation (no typelib here)
# ======================================================================================================
DISPATCH = '''    _cap(sys._getframe())
    if kind == "U":
        return typelib.unmarshal(ref, v)
    if kind == "M":
        return typelib.marshal(v, t=ref)
    if kind == "D":
        return typelib.decode(ref, v)
    if kind == "C":
        return typelib.codec(ref)
    if kind == "R":
        return refs.forwardref(ref)
    if kind == "S":
        return graph.static_order(ref)
    raise ValueError(kind)
'''


def witness_src(k: int, name: str) -> str:
    return f"@dataclasses.dataclass\nclass {name}:\n    x: int\n    k{k}: int = {k}\n"


def module_source(m: dict) -> str:
    out = ["import collections, dataclasses, sys, typing", "import typing as t", "from typing import Optional",
           "import typelib", "from typelib import refs, graph", ""]
    for b in m["binds"]:
        n, kind = b[0], b[1]
        if kind == "class":
            out.append(witness_src(b[2], n))
        elif kind == "opt":
            out.append(witness_src(b[2], f"_W{b[2]}") + f"{n} = typing.Optional[_W{b[2]}]\n")
        elif kind == "pipe":
            out.append(witness_src(b[2], f"_W{b[2]}") + f"{n} = _W{b[2]} | None\n")
        elif kind == "newtype":
            out.append(witness_src(b[2], f"_W{b[2]}") + f"{n} = typing.NewType({n!r}, _W{b[2]})\n")
        elif kind == "from":
            out.append(f"from {b[2]} import {b[3]} as {n}\n")
        elif kind == "import":
            out.append(f"import {b[2]}\n")
        elif kind == "importas":
            out.append(f"import {b[2]} as {n}\n")
        else:
            raise ValueError(b)
    out.append("def do(kind, ref, v):\n" + DISPATCH)
    out.append("def hop(k, *a):\n    return k(*a)\n")
    for n in UNIVERSE + ALIASES:
        out.append(f"def shadow_{n}(obj, k, *a):\n    {n} = obj\n    return k(*a)\n")
        out.append(f"def do_local_{n}(obj, kind, ref, v):\n    {n} = obj\n" + DISPATCH)
    return "\n".join(out)


def gen_group(rng: random.Random, tag: str, gi: int) -> dict:
    base = f"rf{tag}g{gi}"
    mods, wit = [], 0
    for mi in range(rng.choice([2, 3, 3])):
        name = base + "abc"[mi]
        binds = []
        for n in UNIVERSE:
            r = rng.random()
            if n in ("TypeNode", "Codec", "name") and r < 0.45:
                continue
            if n == "Node":
                r *= 0.8          # almost every module binds Node
            earlier = [(m["name"], b[0]) for m in mods for b in m["binds"] if b[1] not in ("import", "importas")]
            if r < 0.38 or (not earlier and r < 0.62):
                binds.append([n, "class", wit]); wit += 1
            elif r < 0.46:
                binds.append([n, "opt", wit]); wit += 1
            elif r < 0.52:
                binds.append([n, "pipe", wit]); wit += 1
            elif r < 0.58:
                binds.append([n, "newtype", wit]); wit += 1
            elif r < 0.70 and earlier:
                same = [e for e in earlier if e[1] == n]
                src = rng.choice(same) if same and rng.random() < 0.6 else rng.choice(earlier)
                binds.append([n, "from", src[0], src[1]])
        # module objects under their own name, under an alias, under the name of ANOTHER module of the group
        for m in mods:
            r = rng.random()
            if r < 0.35:
                binds.append([m["name"], "import", m["name"]])
            elif r < 0.55:
                binds.append([f"M{m['name'][-1]}", "importas", m["name"]])
            elif r < 0.62 and len(mods) > 1:
                other = rng.choice([x["name"] for x in mods if x["name"] != m["name"]])
                binds.append([other, "importas", m["name"]])
        if rng.random() < 0.3:
            binds.append([base + "p", "import", base + "p." + "SUB"])
        mods.append({"name": name, "binds": binds})
    # a helper module through which others issue their references: binds none of the names, or one of them to a class of its own
    hb = []
    if rng.random() < 0.35:
        hb.append([rng.choice(UNIVERSE[:3]), "class", wit]); wit += 1
    mods.append({"name": base + "h", "binds": hb})
    # a package with one sub-module, for three-component names; half of the time its name repeats the package's
    pkg = base + "p"
    sub = ("x" + pkg) if rng.random() < 0.5 else "sub"
    pk = {"pkg": pkg, "sub": sub, "binds": [["Node", "class", wit]]}
    wit += 1
    for m in mods:
        for b in m["binds"]:
            if b[1] == "import" and b[2].endswith(".SUB"):
                b[2] = pkg + "." + sub
    return {"base": base, "mods": mods, "pkg": pk, "witnesses": wit}


def bound_in(group: dict, mod: str, name: str) -> bool:
    for m in group["mods"]:
        if m["name"] == mod:
            return any(b[0] == name for b in m["binds"])
    pk = group["pkg"]
    if mod == pk["pkg"] + "." + pk["sub"]:
        return any(b[0] == name for b in pk["binds"])
    return False


def module_binding(group: dict, mod: str, name: str):
    """The module a module-level name of `mod` is bound to by an import statement, or None."""
    for m in group["mods"]:
        if m["name"] == mod:
            for b in reversed(m["binds"]):
                if b[0] == name and b[1] == "importas":
                    return b[2]
                if b[1] == "import" and b[2].split(".")[0] == name:
                    return name
    return None


def qualified_target(group: dict, inner: str, text: str):
    """[module, name] a dotted text denotes for Python when written in module `inner` (None: nothing we bind)."""
    parts = text.split(".")
    head = parts[0]
    bound = module_binding(group, inner, head)
    modname = ".".join([bound if bound is not None else head] + parts[1:-1])
    return ([modname, parts[-1]] if bound_in(group, modname, parts[-1]) else None), bound is not None


def mangled(text: str) -> bool:
    head, _, rest = text.partition(".")
    return bool(rest) and (head + ".") in rest


def gen_op(rng: random.Random, group: dict) -> dict:
    mods = [m["name"] for m in group["mods"]]
    if rng.random() < 0.14:
        return {"k": "clear", "which": rng.choice(["all", "res", "so", "un", "ma", "cd", "so", "un"])}
    kind = rng.choice(["U", "U", "U", "M", "M", "D", "C", "R", "S"])
    inner = rng.choice(mods)
    head_bound = False
    r = rng.random()
    pk = group["pkg"]
    if r < 0.66:
        bound = [n for n in UNIVERSE if bound_in(group, inner, n)]
        name = rng.choice(bound) if bound and rng.random() < 0.85 else rng.choice(UNIVERSE)
        ref = ["s", name]
        intended = [inner, name] if bound_in(group, inner, name) else None
    elif r < 0.84:
        heads = list(mods)
        for m in group["mods"]:
            if m["name"] == inner:
                heads += [b[0] for b in m["binds"] if b[1] == "importas"] * 2
        heads += ALIASES[:1]
        name = rng.choice(UNIVERSE[:3])
        ref = ["s", f"{rng.choice(heads)}.{name}"]
        intended, head_bound = qualified_target(group, inner, ref[1])
    elif r < 0.93:
        target = rng.choice(mods)
        name = rng.choice(UNIVERSE[:3])
        ref = ["f", name, target]
        intended = [target, name] if bound_in(group, target, name) else None
    else:
        full = pk["pkg"] + "." + pk["sub"]
        ref = ["s", full + ".Node"]
        intended, head_bound = qualified_target(group, inner, ref[1])
    # the stack: outermost -> innermost
    path = []
    for _ in range(rng.choice([0, 0, 1, 1, 2])):
        m = rng.choice(mods)
        if rng.random() < 0.45:
            n = rng.choice(UNIVERSE)
            src = rng.choice(mods)
            bound = [x for x in UNIVERSE if bound_in(group, src, x)]
            path.append([m, f"shadow_{n}", [src, rng.choice(bound)] if bound else None])
        else:
            path.append([m, "hop"])
    if rng.random() < 0.2:
        n = ref[1] if ref[0] == "s" and "." not in ref[1] and rng.random() < 0.7 else rng.choice(UNIVERSE)
        if ref[0] == "s" and ref[1].split(".")[0] in ALIASES:
            n = ref[1].split(".")[0]        # a LOCAL called like the leading name of the text
        src = rng.choice(mods)
        bound = [x for x in UNIVERSE if bound_in(group, src, x)]
        path.append([inner, f"do_local_{n}", [src, rng.choice(bound)] if bound else None])
    else:
        path.append([inner, "do"])
    if kind == "R" and ref[0] == "f":
        kind = "S"          # refs.forwardref takes a text or a type, not a reference
    return {"k": kind, "ref": ref, "path": path, "intended": intended, "head_bound": head_bound}


def gen_relay(rng: random.Random, group: dict, name=None, binder=None, tail=None, kind=None):
    """A bare name issued by a frame whose module does NOT bind it, on behalf of a module further out that does:
    0-2 non-binding frames in between, sometimes a nearer frame that binds the name to something else (the nearest
    binding frame decides: Refs_repaired_bare), sometimes another binder further out (irrelevant)."""
    mods = [m["name"] for m in group["mods"]]
    name = name or rng.choice(UNIVERSE[:3] * 3 + UNIVERSE[3:])
    binders = [m for m in mods if bound_in(group, m, name)]
    free = [m for m in mods if not bound_in(group, m, name)]
    if not binders or not free:
        return None
    binder = binder or rng.choice(binders)
    path = [[binder, "hop"]]
    if rng.random() < 0.3:
        path.insert(0, [rng.choice(binders), "hop"])
    if tail is None:
        tail = []
        if rng.random() < 0.25:
            tail.append([rng.choice(binders), "hop"])
        for _ in range(rng.choice([0, 0, 1, 2])):
            tail.append([rng.choice(free), rng.choice(["hop", "hop", f"shadow_{rng.choice(UNIVERSE)}"])])
        helper = group["base"] + "h"
        tail.append([helper if helper in free and rng.random() < 0.7 else rng.choice(free), "do"])
        tail = [t + [None] if t[1].startswith("shadow_") else t for t in tail]
    return {"k": kind or rng.choice(["U", "U", "M", "D", "C", "R", "S"]), "ref": ["s", name], "path": path + tail,
            "intended": None, "head_bound": False, "relay": True}


def gen_history(rng: random.Random, group: dict, lo=2, hi=8) -> list:
    ops = []
    for _ in range(rng.randint(lo, hi)):
        op = gen_relay(rng, group) if rng.random() < 0.18 else None
        ops.append(op or gen_op(rng, group))
    # the same bare name through the SAME non-binding helper frames on behalf of two modules that bind it differently
    if rng.random() < 0.4:
        names = [n for n in UNIVERSE if sum(bound_in(group, m["name"], n) for m in group["mods"]) >= 2]
        if names:
            n = rng.choice(names)
            ms = [m["name"] for m in group["mods"] if bound_in(group, m["name"], n)]
            rng.shuffle(ms)
            first = gen_relay(rng, group, n, ms[0])
            if first is not None:
                tail = first["path"][[i for i, st in enumerate(first["path"]) if st[0] == ms[0]][-1] + 1:]
                second = gen_relay(rng, group, n, ms[1], tail=tail)
                ops.insert(rng.randint(0, len(ops)), first)
                ops.append(second)
    # make the interesting collision frequent: the same bare name asked from two modules
    if rng.random() < 0.5:
        names = [n for n in UNIVERSE[:3] if sum(bound_in(group, m["name"], n) for m in group["mods"]) >= 2]
        if names:
            n = rng.choice(names)
            ms = [m["name"] for m in group["mods"] if bound_in(group, m["name"], n)]
            rng.shuffle(ms)
            k1, k2 = rng.choice(["U", "M", "C", "D"]), rng.choice(["U", "M", "U", "S", "R"])
            ops.insert(rng.randint(0, len(ops)), {"k": k1, "ref": ["s", n], "path": [[ms[0], "do"]], "intended": [ms[0], n]})
            ops.append({"k": k2, "ref": ["s", n], "path": [[ms[1], "do"]], "intended": [ms[1], n]})
    return ops


def fixed_scenarios(tag: str) -> list:
    """The lead's reproduction and the other known shapes, always present."""
    b = f"rf{tag}fx"
    g = {"base": b, "witnesses": 10,
         "mods": [{"name": b + "a", "binds": [["Node", "class", 0], ["Item", "opt", 1], ["TypeNode", "class", 2], ["Leaf", "pipe", 6]]},
                  {"name": b + "b", "binds": [["Node", "class", 3], ["Leaf", "from", b + "a", "Node"], ["Item", "newtype", 7]]},
                  {"name": b + "c", "binds": [["Item", "from", b + "a", "Node"], ["Ma", "importas", b + "a"],
                                              [b + "a", "import", b + "a"], [b + "b", "importas", b + "a"],
                                              [b + "p", "import", b + "p.x" + b + "p"]]},
                  {"name": b + "h", "binds": [["Leaf", "class", 8]]}],
         "pkg": {"pkg": b + "p", "sub": "x" + b + "p", "binds": [["Node", "class", 4]]}}
    a, bb, c = b + "a", b + "b", b + "c"

    def call(k, m, name, fn="do", extra=None, intended=True):
        path = (extra or []) + [[m, fn] + ([[a, "Node"]] if fn != "do" else [])]
        return {"k": k, "ref": ["s", name], "path": path, "intended": [m, name] if intended else None}
    hs = [
        [call("U", a, "Node"), call("U", bb, "Node")],
        [call("U", bb, "Node"), call("M", a, "Node"), {"k": "clear", "which": "un"}, call("U", a, "Node")],
        [call("U", a, "Node"), {"k": "clear", "which": "res"}, call("U", bb, "Node")],
        [call("R", a, "Node"), {"k": "clear", "which": "so"}, call("U", bb, "Node"), call("C", bb, "Node")],
        [call("C", a, "Node"), {"k": "clear", "which": "so"}, {"k": "clear", "which": "cd"}, {"k": "clear", "which": "un"},
         call("C", bb, "Node")],
        [call("U", a, "Item"), call("M", a, "Leaf"), call("U", a, "TypeNode"), call("D", a, "TypeNode")],
        [call("U", bb, "Leaf"), call("U", c, "Item"), call("U", bb, "Item")],
        [call("U", a, "Node", extra=[[bb, "shadow_Node", [bb, "Node"]], [c, "hop"]]),
         call("U", bb, "Node", fn="do_local_Node")],
        [call("U", c, "Node", extra=[[a, "shadow_Node", [bb, "Node"]]], intended=False),
         call("U", c, "Node", extra=[[a, "hop"]], intended=False)],
        [{"k": "U", "ref": ["s", f"{g['pkg']['pkg']}.{g['pkg']['sub']}.Node"], "path": [[a, "do"]],
          "intended": [f"{g['pkg']['pkg']}.{g['pkg']['sub']}", "Node"]},
         {"k": "U", "ref": ["s", f"{bb}.Node"], "path": [[a, "do"]], "intended": [bb, "Node"]},
         {"k": "M", "ref": ["f", "Node", bb], "path": [[a, "do"]], "intended": [bb, "Node"]}],
    ]
    def q(k, m, text):
        it, hb = qualified_target(g, m, text)
        return {"k": k, "ref": ["s", text], "path": [[m, "do"]], "intended": it, "head_bound": hb}
    hs += [
        [q("U", c, "Ma.Node"), q("M", c, f"{a}.Node"), q("D", c, f"{bb}.Node"), q("U", a, f"{bb}.Node")],
        [q("U", a, f"{bb}.Node"), q("U", c, f"{bb}.Node"), q("C", c, f"{g['pkg']['pkg']}.{g['pkg']['sub']}.Node"),
         q("S", c, "Ma.Item"), q("R", c, "Ma.Leaf")],
        # a LOCAL called like the leading name is not a name of the module: the leading name stays a module qualifier
        [{"k": "R", "ref": ["s", "Ma.Node"], "path": [[a, "do_local_Ma", [a, "Node"]]], "intended": None, "head_bound": False},
         {"k": "R", "ref": ["s", f"{bb}.Node"], "path": [[c, "shadow_Ma", [a, "Node"]], [a, "do"]], "intended": [bb, "Node"],
          "head_bound": False}],
    ]
    hm = b + "h"

    def relay(k, binder, name, mid=()):
        return {"k": k, "ref": ["s", name], "path": [[binder, "hop"]] + [list(x) for x in mid] + [[hm, "do"]],
                "intended": None, "head_bound": False, "relay": True}
    hs += [
        # issued through a helper module that does not bind the name, on behalf of two modules that bind it differently
        [relay("U", a, "Item"), relay("U", bb, "Item")],
        [relay("M", bb, "Node", [(hm, "hop")]), relay("M", a, "Node", [(hm, "hop")]), relay("C", c, "Item"), relay("C", bb, "Item")],
        # a nearer frame that binds the name to something else wins over the one further out
        [relay("U", a, "Node", [(bb, "hop"), (hm, "hop")]), relay("U", bb, "Node", [(a, "hop")]), relay("R", a, "Leaf"),
         relay("S", bb, "Leaf", [(c, "hop")])],
    ]
    return [(g, h) for h in hs]


ORACLE_TEXTS = [("typing.Optional[{n}]", "dict"), ("typing.List[{n}]", "list"), ("collections.deque[{n}]", "list"),
                ("t.Optional[{n}]", "dict"), ("Optional[{n}]", "dict"), ("list[{n}]", "list"),
                ("typing.Dict[str, {n}]", "map")]


def oracle_extras(work) -> list:
    """Subscripted texts (outside the model's evaluate): judged by the oracle only -- the string vs the annotation the
    same text denotes for Python in the calling module."""
    out, seen = [], set()
    for g, _ in work:
        if g["base"] in seen:
            continue
        seen.add(g["base"])
        for m in g["mods"]:
            if not bound_in(g, m["name"], "Node"):
                continue
            for text, shape in ORACLE_TEXTS:
                tx = text.format(n="Node")
                for k in ("U", "D"):
                    out.append((g, {"k": k, "ref": ["s", tx], "path": [[m["name"], "do"]], "shape": shape,
                                    "intended": ["expr", m["name"], tx],
                                    "head_bound": "." in tx.split("[")[0]}))
            break
    return out


# ======================================================================================================
# worker (imports typelib; every request in a forked child = a process that never called typelib)
# ======================================================================================================
class _W:
    """Per-request state of the worker child."""

    def __init__(self, group, names):
        self.group = group
        self.names = set(names)
        self.objs = []          # registry: index = identity
        self.ids = {}
        self.wit_cls = {}       # witness class -> k
        self.wit_obj = {}       # k -> registry id of the bound object that carries it
        self.last_stack = None
        self.allcls = None

    def reg(self, o):
        i = self.ids.get(id(o))
        if i is None:
            i = len(self.objs)
            self.objs.append(o)
            self.ids[id(o)] = i
        return i

    def enc_obj(self, o):
        import types
        if isinstance(o, types.ModuleType) and sys.modules.get(getattr(o, "__name__", None)) is o:
            return ["M", o.__name__]
        try:
            m = getattr(o, "__module__", None)
        except Exception:
            m = None
        return ["V", self.reg(o), m if isinstance(m, str) else None]

    def enc_table(self, d):
        out = []
        for n in sorted(self.names):
            if n in d:
                out.append([n, self.enc_obj(d[n])])
        return out

    def enc_frame(self, fr):
        import inspect
        g = fr.f_globals.get("__name__")
        mod = inspect.getmodule(fr)
        return {"gname": g if isinstance(g, str) else None,
                "mod": getattr(mod, "__name__", None) if mod else None,
                "qual": getattr(fr.f_code, "co_qualname", fr.f_code.co_name), "file": fr.f_code.co_filename,
                "globals": self.enc_table(fr.f_globals), "locals": self.enc_table(fr.f_locals)}

    def capture(self, fr):
        st = []
        while fr is not None:
            st.append(self.enc_frame(fr))
            fr = fr.f_back
        self.last_stack = st


def _build(w: _W):
    import dataclasses
    import impl
    g = w.group
    mods = {}
    pk = g["pkg"]
    pkg = impl.new_module(pk["pkg"], "")
    full = pk["pkg"] + "." + pk["sub"]
    sub = impl.new_module(full, module_source({"name": full, "binds": pk["binds"]}))
    setattr(pkg, pk["sub"], sub)
    for m in g["mods"]:
        mods[m["name"]] = impl.new_module(m["name"], module_source(m))
    mods[full] = sub
    cal = impl.new_module(g["base"] + "cal", module_source({"name": g["base"] + "cal", "binds": [
        ["ZzCal", "class", 9999], ["ZzMod", "importas", "typing"]]}))
    for mod in list(mods.values()) + [cal]:
        mod._cap = w.capture
    for m in g["mods"] + [{"name": full, "binds": pk["binds"]}]:
        for b in m["binds"]:
            if b[1] in ("from", "import", "importas"):
                continue
            mod = mods[m["name"]]
            bound = getattr(mod, b[0])
            wcls = bound if b[1] == "class" else getattr(mod, f"_W{b[2]}")
            w.wit_cls[wcls] = b[2]
            w.wit_obj[b[2]] = w.reg(bound)
    fields = [("x", int, dataclasses.field(default=1))] + [
        (f"k{k}", int, dataclasses.field(default=k)) for k in list(range(g["witnesses"])) + [9999]]
    w.allcls = dataclasses.make_dataclass("All", fields)
    w.mods, w.cal = mods, cal
    return mods


def _variant():
    from typelib.py import refs
    f = refs._resolve_module_name
    return {"fixed": not hasattr(f, "cache_info"), "has_refs_cache": hasattr(refs, "cache"),
            "unmarshaller_wrapped": hasattr(__import__("typelib").unmarshaller, "__wrapped__")}


def _clear(which):
    import impl
    import typelib
    from typelib import graph
    from typelib.py import refs
    if which == "all":
        impl.clear_caches()
        return
    f = {"res": refs._resolve_module_name, "so": graph.static_order, "un": typelib.unmarshaller,
         "ma": typelib.marshaller, "cd": typelib.codec}[which]
    if hasattr(f, "cache_clear"):
        f.cache_clear()


def _calibrate(w: _W, fixed: bool):
    """The library's frames between the caller and _resolve_module_name per entry point, and extract's own frame."""
    import impl
    from typelib.py import frames, refs
    target = getattr(refs._resolve_module_name, "__wrapped__", refs._resolve_module_name).__code__
    ext = frames.extract.__code__
    stop = w.cal.do.__code__
    got = {"res": [], "ext": []}

    def prof(fr, event, arg):
        if event != "return":
            return
        if fr.f_code is target:
            chain, f = [], fr
            while f is not None and f.f_code is not stop:
                chain.append(w.enc_frame(f))
                f = f.f_back
            got["res"].append(chain)
        elif fr.f_code is ext:
            got["ext"].append(w.enc_frame(fr))

    def probe(kind, ref, v):
        got["res"].clear()
        sys.setprofile(prof)
        try:
            w.cal.do(kind, ref, v)
        except Exception:
            pass
        finally:
            sys.setprofile(None)
        return list(got["res"])

    chains = {e: [] for e in ["EUnmarshal", "EMarshal", "EDecode", "EStaticOrder", "EForwardref", "ECodec", "ECodecM", "ECodecU",
                              "EDecodePre", "ECodecPost"]}
    n = [0]

    def fresh():
        n[0] += 1
        return f"zz_cal_{n[0]}"
    for kind, e in (("U", "EUnmarshal"), ("M", "EMarshal"), ("S", "EStaticOrder"), ("R", "EForwardref")):
        r = probe(kind, fresh(), None)
        if r:
            chains[e] = r[-1]
    # decode resolves twice: in codecs.isbyteslike, then under unmarshal.  Before the repair the second resolution is
    # always answered by the resolver's memo (filled by the first within the same call): its frames never matter.
    impl.clear_caches()
    r = probe("D", "ZzCal", b'{"x":1}')
    if r:
        chains["EDecodePre"] = r[0]
        if len(r) > 1:
            chains["EDecode"] = r[-1]
    impl.clear_caches()
    r = probe("C", "ZzCal", None)
    if r:
        chains["ECodec" if fixed else "ECodecM"] = r[0]
    if not fixed:
        for wh in ("so", "cd", "un", "res"):
            _clear(wh)
        r = probe("C", "ZzCal", None)
        if r:
            chains["ECodecU"] = r[0]
        for wh in ("cd", "res"):
            _clear(wh)
        r = probe("C", "ZzCal", None)       # both routines memoised: only isbyteslike asks the resolver
        if r:
            chains["ECodecPost"] = r[-1]
    impl.clear_caches()
    extract = got["ext"][-1] if got["ext"] else None
    # which forwardref: "<module>." dropped only where it leads a dotted name?  (pure: the module is given)
    strip_lead = refs.forwardref("xzq.N", module="zq").__forward_arg__ == "xzq.N"
    # which head rule: is a leading name that the CALLING module binds a name of that module?
    try:
        caller_head = w.cal.do("R", "ZzMod.Any", None).__forward_module__ == w.cal.__name__
    except Exception:
        caller_head = False
    impl.clear_caches()
    return {"pkg": frames.PKG_NAME, "extract": extract, "chains": chains, "strip_lead": strip_lead, "caller_head": caller_head}


def _resolve_objspec(w: _W, spec):
    if spec is None:
        return None
    if spec[0] == "expr":
        return eval(spec[2], w.mods[spec[1]].__dict__)
    return getattr(w.mods[spec[0]], spec[1], None)


def _mk_ref(ref):
    if ref[0] == "s":
        return ref[1]
    import typing
    return typing.ForwardRef(ref[1], module=ref[2])


def _input(w: _W, kind, shape="dict"):
    if shape != "dict" and kind in ("U", "D"):
        v = [{"x": 1}] if shape == "list" else {"a": {"x": 1}}
        return v if kind == "U" else json.dumps(v).encode()
    if kind == "U":
        return {"x": 1}
    if kind == "D":
        return b'{"x":1}'
    if kind == "M":
        return w.allcls()
    return None


def _call(w: _W, op, ref):
    """Compose the stack of `op` from the modules' own functions and make the call."""
    path = op["path"]
    kind = op["k"]
    mod, fn = path[-1][0], path[-1][1]
    callee = getattr(w.mods[mod], fn)
    v = _input(w, kind, op.get("shape", "dict"))
    args = (kind, ref, v) if fn == "do" else (_resolve_objspec(w, path[-1][2]), kind, ref, v)
    for step in reversed(path[:-1]):
        f = getattr(w.mods[step[0]], step[1])
        if step[1] == "hop":
            callee, args = f, (callee,) + args
        else:
            callee, args = f, (_resolve_objspec(w, step[2]), callee) + args
    return callee(*args)


def _witness_in_type(w: _W, t, depth=0):
    if t in w.wit_cls if isinstance(t, type) else False:
        return w.wit_cls[t]
    if depth > 4:
        return None
    sup = getattr(t, "__supertype__", None)
    if sup is not None:
        return _witness_in_type(w, sup, depth + 1)
    for a in getattr(t, "__args__", ()) or ():
        k = _witness_in_type(w, a, depth + 1)
        if k is not None:
            return k
    return None


def _text(x):
    t = type(x)
    return f"{t.__module__}.{t.__qualname__}:{x!r}"


def _exc_obs(e, heads=None):
    # a NameError of the resolution names the leading component of the evaluated text; one raised while the routine
    # for the resolved object is built (hints of a class of the library, say) is behaviour of that object
    if isinstance(e, NameError) and (heads is None or getattr(e, "name", None) in heads):
        return ["E", "ENameError"]
    if isinstance(e, NameError):
        return None
    if isinstance(e, AttributeError):
        return ["E", "EAttributeError"]
    if isinstance(e, TypeError) and "Forward references must evaluate to types" in str(e):
        return ["E", "ETypeError"]
    return None


def _heads(ref):
    if ref is None:
        return None
    text = ref[1]
    head, _, rest = text.partition(".")
    out = {head, text.replace(head + ".", "").split(".")[0]}
    if rest:
        out.add(rest.split(".")[0])
    return out


def _observe(w: _W, kind, fn, ref=None):
    """Run fn; return (structured observation | pending table lookup, canonical text)."""
    import json as _json
    from typelib.py import refs
    try:
        val = fn()
    except Exception as e:  # noqa: BLE001
        txt = f"raise {type(e).__name__}: {e}"
        ob = _exc_obs(e, _heads(ref))
        return (ob if ob is not None else ["T", txt]), txt
    if kind in ("U", "D"):
        k = w.wit_cls.get(type(val))
        txt = _text(val)
        return (["K", [k]] if k is not None else ["T", txt]), txt
    if kind == "M":
        ks = [int(n[1:]) for n in val if n.startswith("k")] if isinstance(val, dict) else []
        txt = _text(val)
        return (["K", [ks[0]]] if len(ks) == 1 else ["T", txt]), txt
    if kind == "C":
        try:
            d = val.decode(b'{"x":1}')
            e = _json.loads(val.encode(w.allcls()))
        except Exception as ex:  # noqa: BLE001
            txt = f"codec raise {type(ex).__name__}: {ex}"
            return ["T", txt], txt
        txt = _text(d) + " / " + repr(e)
        ku = w.wit_cls.get(type(d))
        km = [int(n[1:]) for n in e if n.startswith("k")] if isinstance(e, dict) else []
        if ku is None or len(km) != 1:
            return ["O"], txt
        return ["K", [km[0], ku]], txt
    if kind == "R":
        n, m = val.__forward_arg__, val.__forward_module__
        try:
            ev = refs.evaluate(val)
        except Exception as ex:  # noqa: BLE001
            inner = _exc_obs(ex) or ["O"]
            return ["R", n, m, inner], f"ForwardRef({n!r}, module={m!r}) -> raise {type(ex).__name__}"
        return ["R", n, m, ["I", [w.reg(ev)]]], f"ForwardRef({n!r}, module={m!r}) -> {ev!r}"
    if kind == "S":
        root = val[-1].type if val else None
        k = _witness_in_type(w, root)
        txt = f"root {root!r}"
        return (["K", [k]] if k is not None else ["I", [w.reg(root)]]), txt
    raise ValueError(kind)


def _apply_to_object(w: _W, kind, obj, shape="dict"):
    import typelib
    from typelib import graph
    v = _input(w, kind, shape)
    if kind == "U":
        return typelib.unmarshal(obj, v)
    if kind == "M":
        return typelib.marshal(v, t=obj)
    if kind == "D":
        return typelib.decode(obj, v)
    if kind == "C":
        return typelib.codec(obj)
    if kind == "S":
        return graph.static_order(obj)
    raise ValueError(kind)


def _world(w: _W, framesets, refs_used):
    import builtins
    comps = set()
    mods = set()
    for r in refs_used:
        if r[0] == "s":
            parts = r[1].split(".")
            comps.update(parts)
            if len(parts) > 1:
                mods.add(parts[0])
        else:
            comps.update(r[1].split("."))
            if r[2]:
                mods.add(r[2])
    keep = w.names | comps

    def walk(o):
        if o[0] == "M":
            mods.add(o[1])
        elif o[2]:
            mods.add(o[2])
    for fs in framesets:
        for f in fs:
            for key in ("gname", "mod"):
                if f[key]:
                    mods.add(f[key])
            for _, o in f["globals"] + f["locals"]:
                walk(o)
    out, done = [], set()
    saved, w.names = w.names, keep
    try:
        while mods - done:
            name = sorted(mods - done)[0]
            done.add(name)
            m = sys.modules.get(name)
            if m is None or not hasattr(m, "__dict__"):
                continue
            tab = w.enc_table(m.__dict__)
            for _, o in tab:
                walk(o)
            out.append([name, tab])
        bi = w.enc_table(builtins.__dict__)
    finally:
        w.names = saved
    return {"modules": out, "builtins": bi}


def _history(req):
    import impl
    group, ops = req["group"], req["ops"]
    names = set(UNIVERSE) | {o["ref"][1].split(".")[0] for o in ops if o["k"] != "clear" and o["ref"][0] == "s"}
    w = _W(group, names)
    _build(w)
    var = _variant()
    lib = _calibrate(w, var["fixed"])
    impl.clear_caches()
    obs, texts, stacks = [], [], []
    for op in ops:
        if op["k"] == "clear":
            _clear(op["which"])
            obs.append(["U"]); texts.append("cleared"); stacks.append(None)
            continue
        ref = _mk_ref(op["ref"])
        w.last_stack = None
        ob, txt = _observe(w, op["k"], lambda: _call(w, op, ref), op["ref"])
        obs.append(ob); texts.append(txt); stacks.append(w.last_stack)
    # after the history: resolve witness indexes to objects, and table lookups for objects without a witness
    impl.clear_caches()
    world = _world(w, [s for s in stacks if s] + list(lib["chains"].values()) + ([[lib["extract"]]] if lib["extract"] else []),
                   [o["ref"] for o in ops if o["k"] != "clear"])
    plain = [i for i, o in enumerate(w.objs) if i not in set(w.wit_obj.values()) and not isinstance(o, (str, bytes, type(None), bool, int))]
    cache = {}

    def table(kind, txt):
        c = []
        for i in plain:
            key = (kind, i)
            if key not in cache:
                try:
                    cache[key] = _observe(w, kind, lambda: _apply_to_object(w, kind, w.objs[i]))[1]
                except Exception as e:  # noqa: BLE001
                    cache[key] = f"?? {e!r}"
            if cache[key] == txt:
                c.append(i)
        return c

    def fin(ob, kind):
        if ob[0] == "K":
            return ["B", [[w.wit_obj[k]] for k in ob[1]]]
        if ob[0] == "I":
            return ["B", [ob[1]]]
        if ob[0] == "T":
            c = table(kind, ob[1])
            return ["B", [c, c] if kind == "C" else [c]]
        if ob[0] == "R":
            return ["R", ob[1], ob[2], fin(ob[3], kind)]
        return ob
    final = [fin(ob, op["k"]) for ob, op in zip(obs, ops)]
    return {"variant": var, "lib": lib, "world": world, "obs": final, "texts": texts, "stacks": stacks}


def _cold(req):
    """One operation alone; with 'object': the operation on the object the reference names in the caller's module."""
    import impl
    group, op = req["group"], req["op"]
    w = _W(group, UNIVERSE)
    _build(w)
    impl.clear_caches()
    if req.get("object"):
        obj = _resolve_objspec(w, op["intended"])
        return {"text": _observe(w, op["k"], lambda: _apply_to_object(w, op["k"], obj, op.get("shape", "dict")))[1]}
    ref = _mk_ref(op["ref"])
    return {"text": _observe(w, op["k"], lambda: _call(w, op, ref))[1]}


def _texts(req):
    """A history, observations as texts only (for shrinking / replay)."""
    import impl
    w = _W(req["group"], UNIVERSE)
    _build(w)
    impl.clear_caches()
    out = []
    for op in req["ops"]:
        if op["k"] == "clear":
            _clear(op["which"]); out.append("cleared")
            continue
        ref = _mk_ref(op["ref"])
        out.append(_observe(w, op["k"], lambda: _call(w, op, ref))[1])
    return {"texts": out}


def _handle(req):
    k = req["kind"]
    if k == "history":
        return _history(req)
    if k == "cold":
        return _cold(req)
    if k == "texts":
        return _texts(req)
    if k == "variant":
        return _variant()
    raise ValueError(k)


def _in_child(req):
    r, wfd = os.pipe()
    pid = os.fork()
    if pid == 0:
        os.close(r)
        try:
            import warnings
            warnings.simplefilter("ignore")
            out = _handle(req)
        except BaseException as e:  # noqa: BLE001
            import traceback
            out = {"error": repr(e), "trace": traceback.format_exc()[-2500:]}
        data = json.dumps(out).encode()
        while data:
            n = os.write(wfd, data)
            data = data[n:]
        os._exit(0)
    os.close(wfd)
    chunks = []
    while True:
        ch = os.read(r, 1 << 16)
        if not ch:
            break
        chunks.append(ch)
    os.close(r)
    os.waitpid(pid, 0)
    return b"".join(chunks).decode() or json.dumps({"error": "child died"})


def _worker_main():
    sys.path.insert(0, HERE)
    import typelib  # noqa: F401  imported, never called, in the server
    import impl  # noqa: F401
    if "--fresh" in sys.argv:
        print(json.dumps(_handle(json.loads(sys.stdin.read()))))
        return
    for line in sys.stdin:
        line = line.strip()
        if line:
            sys.stdout.write(_in_child(json.loads(line)) + "\n")
            sys.stdout.flush()


# ======================================================================================================
# main-process side
# ======================================================================================================
class Pool:
    def __init__(self, n=4):
        import lib
        self.procs = [subprocess.Popen([lib.PY, os.path.abspath(__file__), "--worker"], stdin=subprocess.PIPE,
                                       stdout=subprocess.PIPE, stderr=subprocess.DEVNULL, text=True, cwd=lib.VERIF,
                                       env={**lib.env_for_impl(), "PYTHONPATH": os.path.join(lib.REPO, "src") + ":" + HERE})
                      for _ in range(n)]
        self.locks = [threading.Lock() for _ in range(n)]

    def ask(self, i, req):
        p = self.procs[i % len(self.procs)]
        with self.locks[i % len(self.procs)]:
            p.stdin.write(json.dumps(req) + "\n")
            p.stdin.flush()
            line = p.stdout.readline()
        if not line:
            raise RuntimeError("refs worker died")
        r = json.loads(line)
        if "error" in r:
            raise RuntimeError("refs worker: " + r["error"] + "\n" + r.get("trace", ""))
        return r

    def map(self, reqs):
        from concurrent.futures import ThreadPoolExecutor
        n = len(self.procs)
        out = [None] * len(reqs)

        def work(i):
            for j in range(i, len(reqs), n):
                out[j] = self.ask(i, reqs[j])
        with ThreadPoolExecutor(max_workers=n) as ex:
            list(ex.map(work, range(n)))
        return out

    def close(self):
        for p in self.procs:
            try:
                p.stdin.close()
                p.wait(timeout=5)
            except Exception:
                p.kill()


def fresh_request(req, timeout=120):
    """One request in a really fresh interpreter (validates fork-cold == process-cold; used by replay)."""
    import lib
    rc, out, err = lib.sh([lib.PY, os.path.abspath(__file__), "--worker", "--fresh"], timeout=timeout, cwd=lib.VERIF,
                          env={**lib.env_for_impl(), "PYTHONPATH": os.path.join(lib.REPO, "src") + ":" + HERE},
                          input=json.dumps(req))
    for line in reversed(out.strip().split("\n")):
        if line.startswith("{"):
            return json.loads(line)
    raise RuntimeError(f"fresh worker: rc={rc} {err[-800:]}")


def workload(run):
    """(group, history) pairs of this run; deterministic in run.seed and the tier."""
    if getattr(run, "_refs_work", None) is not None:
        return run._refs_work
    rng = random.Random(f"refs-{run.seed}-{run.tier}")
    tag = str(run.seed % 10000)
    work = fixed_scenarios(tag)
    n_groups, per = run.budget((10, 5), (40, 7))
    for gi in range(n_groups):
        g = gen_group(rng, tag, gi)
        for _ in range(per):
            work.append((g, gen_history(rng, g, 2, run.budget(8, 14))))
    run._refs_work = work
    return work


# ---------------------------------------------------------------------------------- Coq emission
def _cs(s):
    import lib
    return lib.coq_string(s)


def _co(s):
    return "None" if s is None else f"(Some {_cs(s)})"


def _obj(o):
    if o[0] == "M":
        return f"(OMod {_cs(o[1])})"
    return f"(OVal {o[1]} {_co(o[2])})"


def _tab(t):
    return "[" + "; ".join(f"({_cs(n)}, {_obj(o)})" for n, o in t) + "]"


class Emitter:
    def __init__(self):
        self.defs = []
        self.frames = {}

    def frame(self, f):
        key = json.dumps(f, sort_keys=True)
        n = self.frames.get(key)
        if n is None:
            n = f"fr_{len(self.frames)}"
            self.frames[key] = n
            self.defs.append(
                f"Definition {n} : frame := {{| f_gname := {_co(f['gname'])}; f_mod := {_co(f['mod'])}; "
                f"f_qual := {_cs(f['qual'])}; f_file := {_cs(f['file'])}; f_globals := {_tab(f['globals'])}; "
                f"f_locals := {_tab(f['locals'])} |}}.")
        return n

    def stack(self, st):
        return "[" + "; ".join(self.frame(f) for f in st) + "]"

    def lib(self, name, L):
        ex = L["extract"] or {"gname": None, "mod": None, "qual": "", "file": "", "globals": [], "locals": []}
        arms = " ".join(f"| {e} => {self.stack(c)}" for e, c in L["chains"].items())
        self.defs.append(f"Definition {name} : lib := {{| l_pkg := {_cs(L['pkg'])}; "
                         f"l_strip_lead := {'true' if L.get('strip_lead') else 'false'}; "
                         f"l_caller_head := {'true' if L.get('caller_head') else 'false'}; l_extract := {self.frame(ex)}; "
                         f"l_chain := fun e => match e with {arms} end |}}.")

    def world(self, name, W):
        mods = "; ".join(f"({_cs(n)}, {_tab(t)})" for n, t in W["modules"])
        self.defs.append(f"Definition {name} : world := {{| w_modules := [{mods}]; w_builtins := {_tab(W['builtins'])} |}}.")

    def op(self, op, stack):
        if op["k"] == "clear":
            return f"OClear {CLEARS[op['which']]}"
        r = op["ref"]
        ref = f"(RStr {_cs(r[1])})" if r[0] == "s" else f"(RFwd {_cs(r[1])} {_co(r[2])})"
        return f"OCall {ENTRY[op['k']]} {ref} {self.stack(stack)}"

    def obs(self, o):
        if o[0] == "B":
            return "(BOk [" + "; ".join("[" + "; ".join(str(i) for i in c) + "]" for c in o[1]) + "])"
        if o[0] == "E":
            return f"(BErr {o[1]})"
        if o[0] == "R":
            return f"(BRef {_cs(o[1])} {_co(o[2])} {self.obs(o[3])})"
        if o[0] == "U":
            return "BUnit"
        return "BOther"


def emit_cases(items):
    """items: [(ops, answer of the worker)] -> Coq text printing bad_cases, libs_bad, cover_cases."""
    em = Emitter()
    names = []
    for i, (ops, ans) in enumerate(items):
        em.world(f"W_{i}", ans["world"])
        em.lib(f"L_{i}", ans["lib"])
        h = "[" + ";\n    ".join(em.op(o, s) for o, s in zip(ops, ans["stacks"])) + "]"
        b = "[" + "; ".join(em.obs(o) for o in ans["obs"]) + "]"
        em.defs.append(f"Definition case_{i} : rcase := {{| c_fixed := {'true' if ans['variant']['fixed'] else 'false'}; "
                       f"c_world := W_{i}; c_lib := L_{i};\n  c_hist := {h};\n  c_obs := {b} |}}.")
        names.append(f"case_{i}")
    head = ("From Coq Require Import List String.\nImport ListNotations.\nRequire Import TL.Model.Refs TL.Model.RefsEq.\n"
            "Local Open Scope string_scope.\nLocal Open Scope list_scope.\n")
    allc = "[" + "; ".join(names) + "]"
    tail = (f"Definition all_cases : list rcase := {allc}.\n"
            "Eval vm_compute in (bad_cases all_cases).\nEval vm_compute in (libs_bad all_cases).\n"
            "Eval vm_compute in (cover_cases all_cases).\n")
    return head + "\n".join(em.defs) + "\n" + tail


def _pairs(s):
    import re
    return [(int(a), int(b)) for a, b in re.findall(r"\((\d+),\s*(\d+)\)", s)]


# ---------------------------------------------------------------------------------- obligations
def obligations(run, pool=None):
    import lib
    own = pool is None
    pool = pool or Pool(4)
    try:
        run.check_props(PROPS[0][0], PROPS[0][1])
        work = workload(run)
        answers = pool.map([{"kind": "history", "group": g, "ops": h} for g, h in work])
        run._refs_answers = answers
        var = answers[0]["variant"]
        fixed = var["fixed"]
        run.oblige("refs:the live resolver is the repaired one (no functools memo on _resolve_module_name; a bare string is "
                   "qualified before it keys a factory cache) -- Refs_full_repaired / Refs_repaired_* apply", fixed and var.get("has_refs_cache", False),
                   json.dumps(var))
        strip_lead, caller_head = bool(answers[0]["lib"].get("strip_lead")), bool(answers[0]["lib"].get("caller_head"))
        run.oblige("refs:the live forwardref drops '<module>.' only where it leads a dotted name (l_strip_lead) -- "
                   "Refs_repaired_qualified / Refs_repaired_caller_head apply", strip_lead,
                   "refs.forwardref('xzq.N', module='zq') is not ForwardRef('xzq.N'): the pinned str.replace (Refs_refuted_qualified_mangled)")
        run.oblige("refs:a leading name the calling module binds is a name of that module (l_caller_head) -- "
                   "Refs_repaired_caller_head applies", caller_head,
                   "forwardref('ZzMod.Any') from a module that binds ZzMod is qualified by 'ZzMod': the pinned head rule (Refs_refuted_dotted_head_pinned)")
        per_file = 40
        files = {}
        index = []
        for fi in range(0, len(work), per_file):
            chunk = list(range(fi, min(fi + per_file, len(work))))
            files[f"cases_refs_{fi // per_file}.v"] = emit_cases([(work[i][1], answers[i]) for i in chunk])
            index.append(chunk)
        res = run.coq_eval_many(files, timeout=900)
        mism, libbad, covered, covbad, failed = [], [], 0, [], []
        for (name, out), chunk in zip(sorted(res.items(), key=lambda kv: int(kv[0].split("_")[-1][:-2])), index):
            if out is None or len(out) != 3:
                failed.append(name)
                continue
            for ci, oi in _pairs(out[0]):
                i = chunk[ci]
                mism.append({"history": i, "op": oi, "ops": work[i][1][: oi + 1], "implementation": answers[i]["texts"][oi],
                             "observed": answers[i]["obs"][oi], "group": work[i][0]["base"]})
            libbad += [chunk[int(x)] for x in lib.parse_nat_list(out[1])]
            import re
            m = re.match(r"\((\d+),\s*(.*)\)$", out[2].strip(), flags=re.S)
            covered += int(m.group(1)) if m else 0
            for ci, oi in _pairs(m.group(2) if m else ""):
                covbad.append({"history": chunk[ci], "op": oi, "implementation": answers[chunk[ci]]["texts"][oi]})
        n_ops = sum(len(h) for _, h in work)
        dist = distribution(work, answers)
        dist["model_variant"] = ("repaired (fixed=true)" if fixed else "before the repair (fixed=false)") + \
            f", l_strip_lead={strip_lead}, l_caller_head={caller_head}"
        run.oblige("refs:every cases file evaluated", not failed, ", ".join(failed))
        run.record_corr("refs-histories", n_ops, mism, nontrivial=dist["calls"], dist=dist)
        if fixed:
            run.oblige("refs:lib_ok holds of the reflected library chains (hypothesis of Refs_repaired_bare)", not libbad,
                       f"histories {libbad[:5]}")
            run.oblige(f"refs:Refs_repaired_bare read on the implementation ({covered} operations inside its hypotheses)",
                       not covbad and covered > 0, json.dumps(covbad[:3]))
        run.extra_cov["refs_tie"] = {"histories": len(work), "operations": n_ops, "variant": var,
                                     "inside_Refs_repaired_bare": covered, "distribution": dist}
        return not mism and not failed
    finally:
        if own:
            pool.close()


def distribution(work, answers):
    d = {"calls": 0, "clears": 0, "kinds": {}, "ref_shapes": {}, "outcomes": {}, "depth": {}, "locals_in_stack": 0,
         "candidate_set_sizes": {}, "bind_kinds": {}}
    seen = set()
    for (g, h), a in zip(work, answers):
        if g["base"] not in seen:
            seen.add(g["base"])
            for m in g["mods"]:
                for b in m["binds"]:
                    d["bind_kinds"][b[1]] = d["bind_kinds"].get(b[1], 0) + 1
        for op, ob in zip(h, a["obs"]):
            if op["k"] == "clear":
                d["clears"] += 1
                continue
            d["calls"] += 1
            d["kinds"][op["k"]] = d["kinds"].get(op["k"], 0) + 1
            r = op["ref"]
            shape = "forwardref" if r[0] == "f" else ("bare" if "." not in r[1] else ("qualified3" if r[1].count(".") > 1 else "qualified"))
            d["ref_shapes"][shape] = d["ref_shapes"].get(shape, 0) + 1
            d["depth"][str(len(op["path"]))] = d["depth"].get(str(len(op["path"])), 0) + 1
            if any(s[1].startswith(("shadow_", "do_local_")) for s in op["path"]):
                d["locals_in_stack"] += 1
            if op.get("relay"):
                d["issued_by_a_non_binding_frame"] = d.get("issued_by_a_non_binding_frame", 0) + 1
            o = ob[3] if ob[0] == "R" else ob
            key = {"B": "object", "E": "raise", "O": "other"}.get(o[0], o[0])
            if o[0] == "E":
                key = o[1]
            d["outcomes"][key] = d["outcomes"].get(key, 0) + 1
            if o[0] == "B":
                for c in o[1]:
                    d["candidate_set_sizes"][str(len(c))] = d["candidate_set_sizes"].get(str(len(c)), 0) + 1
    return d


# ---------------------------------------------------------------------------------- oracle
def _cause(op, kind):
    r = op["ref"]
    if r[0] == "s" and mangled(r[1]) and not op.get("head_bound"):
        return "qualified-mangled"
    if r[0] == "s" and op.get("head_bound"):
        return "dotted-prefix-is-caller-name"
    return kind


def search(run, pool=None, limit=6):
    """Concrete failing histories / calls, found on the implementation alone."""
    own = pool is None
    pool = pool or Pool(4)
    try:
        work = workload(run)
        answers = getattr(run, "_refs_answers", None)
        if answers is None:
            answers = pool.map([{"kind": "texts", "group": g, "ops": h} for g, h in work])
        # every call alone, and (where the property speaks) the object itself alone
        reqs, where = [], []
        for i, (g, h) in enumerate(work):
            for j, op in enumerate(h):
                if op["k"] == "clear":
                    continue
                reqs.append({"kind": "cold", "group": g, "op": op}); where.append((i, j, "cold"))
                if op["intended"] is not None and op["k"] in ("U", "M", "D", "C"):
                    reqs.append({"kind": "cold", "group": g, "op": op, "object": True}); where.append((i, j, "object"))
        extras = oracle_extras(work)
        for x, (g, op) in enumerate(extras):
            i = len(work) + x
            reqs.append({"kind": "cold", "group": g, "op": op}); where.append((i, 0, "cold"))
            reqs.append({"kind": "cold", "group": g, "op": op, "object": True}); where.append((i, 0, "object"))
        work = list(work) + [(g, [op]) for g, op in extras]
        answers = list(answers) + [None] * len(extras)
        res = pool.map(reqs)
        cold, objt = {}, {}
        for (i, j, what), r in zip(where, res):
            (cold if what == "cold" else objt)[(i, j)] = r["text"]
        failures, nhist, ntrans, causes = [], 0, 0, {}
        seen = set()
        for (i, j), ct in sorted(cold.items()):
            g, h = work[i]
            if answers[i] is None:
                continue
            wt = answers[i]["texts"][j]
            if wt != ct:
                nhist += 1
                cause = _cause(h[j], "history-dependence")
                causes[cause] = causes.get(cause, 0) + 1
                key = f"refs-history:{h[j]['k']}:{h[j]['ref'][1].split('.')[-1]}:{cause}"
                if key not in seen and len(failures) < limit:
                    seen.add(key)
                    ops = _shrink(pool, g, h, j, wt)
                    failures.append({"key": key, "kind": "refs-history", "cause": cause, "property": "C12", "group": g, "ops": ops,
                                     "in_history": wt, "alone": ct,
                                     "what": "the last call answers differently after the calls before it than alone in a cold process"})
        for (i, j), ot in sorted(objt.items()):
            g, h = work[i]
            ct = cold[(i, j)]
            if ct != ot:
                ntrans += 1
                cause = _cause(h[j], "string-not-transparent")
                causes[cause] = causes.get(cause, 0) + 1
                key = f"refs-transparency:{h[j]['k']}:{h[j]['ref'][1].split('.')[-1]}:{cause}:{ct.split(':')[0][:40]}"
                if key not in seen and len(failures) < 2 * limit:
                    seen.add(key)
                    failures.append({"key": key, "kind": "refs-transparency", "cause": cause, "property": "C11", "group": g, "ops": [h[j]],
                                     "by_string": ct, "by_object": ot,
                                     "what": "in a cold process the reference string does not behave like the object it names in the caller's module"})
        # fork-cold is process-cold: sample
        sample = reqs[:: max(1, len(reqs) // 3)][:3]
        agree = all(fresh_request(q)["text"] == res[reqs.index(q)]["text"] for q in sample)
        run.search_stats["refs-oracle"] = {"evaluations": len(reqs) + sum(len(h) for _, h in work[: len(work) - len(extras)]), "calls_alone": len(cold),
                                           "objects_alone": len(objt), "history_failures": nhist, "transparency_failures": ntrans, "causes": causes,
                                           "fork_cold_equals_fresh_process": agree, "reported": len(failures),
                                           "subscripted_texts_judged": len(extras)}
        return failures
    finally:
        if own:
            pool.close()


def _shrink(pool, g, h, j, warm):
    """Smallest prefix subset that still makes call j answer `warm`: one earlier op, then two, else the prefix."""
    target = h[j]
    for a in range(j):
        ops = [h[a], target]
        if pool.ask(0, {"kind": "texts", "group": g, "ops": ops})["texts"][-1] == warm:
            return ops
    for a in range(j):
        for b in range(a + 1, j):
            ops = [h[a], h[b], target]
            if pool.ask(0, {"kind": "texts", "group": g, "ops": ops})["texts"][-1] == warm:
                return ops
    return h[: j + 1]


def replay(payload):
    """Re-run a failure of `search` in really fresh interpreters.  {'fails': bool, ...}"""
    g, ops = payload["group"], payload["ops"]
    if payload["kind"] == "refs-history":
        warm = fresh_request({"kind": "texts", "group": g, "ops": ops})["texts"][-1]
        alone = fresh_request({"kind": "cold", "group": g, "op": ops[-1]})["text"]
        return {"fails": warm != alone, "in_history": warm, "alone": alone, "sources": {m["name"]: module_source(m) for m in g["mods"]}}
    s = fresh_request({"kind": "cold", "group": g, "op": ops[-1]})["text"]
    o = fresh_request({"kind": "cold", "group": g, "op": ops[-1], "object": True})["text"]
    return {"fails": s != o, "by_string": s, "by_object": o, "sources": {m["name"]: module_source(m) for m in g["mods"]}}


def matches(entry, failure):
    """Does a listed finding (notes/refs-finding.json format) explain this failure?"""
    m = entry.get("matches", {})
    return failure.get("kind") in m.get("kinds", []) and failure.get("cause") in m.get("causes", [])


def reproduces(entry):
    return bool(replay(entry["replay"]).get("fails"))


if __name__ == "__main__":
    if "--worker" in sys.argv:
        _worker_main()
