"""Tie "one module, two descriptions" for the bridge C09 -> C05/C07/C15 (notes/bridge.md, item 3).

`bridge_obligations(run, groups, tag)` takes the synthesised modules of the core harness (coremodel.Group: the
module is described by harness/universe.py descriptions, from which the Core `ty` / `env` terms are printed) and,
for every observed graph.static_order whose annotations lie in the fragment `tr_ty` covers,

  (a) prints the SAME module a second time, at the string level of Model/Graph.v (Graph.env, root gty) together
      with the `naming` record N (how names / reference texts / leaf classes meet the numbers of the core level),
  (b) prints the observed order twice: as Graph.node terms (from the TypeNode objects: annotation -> gty, the
      ForwardRef text and module taken from the object) and as the Build.node terms coremodel encoded,
  (c) lets ONE coqc call per shard decide by vm_compute, per observed order, Model/GraphBridgeEq.check_case:
        topo, classes_ok, refs_ok, tr_order = observed build nodes, root key, tr_env = core env, contract.

Those are the hypotheses of `graph_orders` (Proofs/GraphBridge.v), so `orders_contract` is decided per run on the
generated modules instead of being assumed.  Orders outside the fragment are skipped and COUNTED with the reason.

Leaves.  Graph.v has twelve leaf classes (scalars), each with module / qualified name / stdlib flag.  A universe
leaf with the same three attributes maps to its scalar (int str float bool bytes Decimal datetime date UUID
Fraction); typing.Any -> GAny; a Literal alias -> GLit k.  Other leaf classes (time, timedelta, bare list/dict:
stdlib; PurePosixPath, enums: not stdlib) get a STAND-IN: a scalar with the same stdlib flag that the module does
not use otherwise.  In Graph.v the name of a leaf class is only ever used when a reference to it is built
(revisited non-stdlib leaf); a reference the implementation returns to a stand-in leaf is identified by the leaf it
names and printed with the stand-in's name: for those nodes (counted: standin_reference_nodes) the reference TEXT is
not compared here (C09's own correspondence compares reference texts of leaf classes).  Likewise the origin spelling of a generic
(typing.Iterable[X] ...) is invisible to tr_ty and to Graph.v except as an identity: it maps to a constructor of
the right kind; two annotations of one module that would get the same gty, or two ==-equal annotations with
different gty (Optional[X] vs X | None), put the order outside ("ambiguous spelling").
"""
from __future__ import annotations

import typing
import warnings

import impl
import lib
import universe
from lib import coq_bool, coq_list, coq_nat

HEADER = ("From Coq Require Import List String Bool. Import ListNotations.\n"
          "Require Import TL.Model.Graph TL.Model.Topo.\n"
          "Require Import TL.Model.Core TL.Model.Build.\n"
          "Require Import TL.Model.GraphBridge TL.Model.GraphBridgeEq.\n"
          "Local Open Scope string_scope.\nLocal Open Scope list_scope.\n")

CLAUSES = [(1, "topo"), (2, "classes_ok"), (4, "refs_ok"), (8, "tr_order"), (16, "root"), (32, "tr_env"),
           (64, "contract"), (512, "graph")]
CLAUSE_TEXT = {
    "topo": "observed order is a topological order of the model's adjacency",
    "classes_ok": "classes_ok",
    "refs_ok": "refs_ok",
    "tr_order": "tr_order N observed_graph_nodes = observed_build_nodes",
    "root": "tr_ty N root = the key the order is filed under",
    "tr_env": "tr_env N E = the core environment on every expanded class",
    "contract": "order_ok in both directions",
    "graph": "type_graph builds an adjacency",
}

# leaf classes with an exact scalar: universe key -> (scalar, stdlib)
EXACT = {"int": "SInt", "str": "SStr", "float": "SFloat", "bool": "SBool", "bytes": "SBytes",
         "Decimal": "SDecimal", "datetime": "SDatetime", "date": "SDate", "UUID": "SUuid", "Fraction": "SFraction"}
STDLIB_SCALARS = ["SInt", "SStr", "SFloat", "SBool", "SBytes", "SDecimal", "SDatetime", "SDate", "SUuid"]
OTHER_SCALARS = ["SPurePath", "SEnum", "SFraction"]     # stand-ins are taken in this order
# universe leaves without scalar: True = inspection.isstdlibtype
STANDIN_STDLIB = {"time": True, "timedelta": True, "list": True, "dict": True, "Path": False}
# the (name, module) a reference to an exact non-stdlib leaf carries
LEAF_REF = {"Fraction": ("Fraction", "fractions"), "Any": ("Any", "typing")}
# the (name, module) of the non-stdlib scalars in Graph.v (scalar_name / scalar_module)
SCALAR_NAME = {"SFraction": ("Fraction", "fractions"), "SPurePath": ("PurePath", "pathlib"),
               "SEnum": ("Color", "verif_c09_enum")}

SEQ_GENS = {"KList": ["GList", "GTList", "GTSequence"], "KTuple": ["GTuple"], "KSet": ["GSet"],
            "KFrozenset": ["GFrozenset"], "KDeque": ["GDeque"]}
SEQ_EXACT = {"list[{}]": "GList", "typing.List[{}]": "GTList", "typing.Sequence[{}]": "GTSequence",
             "tuple[{}, ...]": "GTuple", "set[{}]": "GSet", "frozenset[{}]": "GFrozenset",
             "collections.deque[{}]": "GDeque"}
MAP_GENS = ["GDict", "GTDict"]
MAP_EXACT = {"dict[{}, {}]": "GDict", "typing.Dict[{}, {}]": "GTDict"}
USPELL = {"Optional": "UOptional", "|": "UPipe", "Union": "UUnion"}


class Outside(Exception):
    pass


def cstr(s: str) -> str:
    if not all(32 <= ord(c) < 127 for c in s) or '"' in s:
        raise Outside("name not printable as a Coq string")
    return '"' + s + '"'


def coq_ostr(s) -> str:
    return "None" if s is None else f"(Some {cstr(s)})"


class GroupView:
    """The string-level description of one coremodel.Group."""

    def __init__(self, g):
        self.g = g
        self.env = g.env
        self.mod = g.env["module"]
        self.reg = g.reg
        self.defs = g.env["defs"]
        self.string_aliases = self._string_aliases()
        self.leafmap: dict[str, str] = {}       # universe leaf key -> gty term
        self.standins: dict[str, str] = {}      # universe leaf key -> stand-in scalar
        self.genmap: dict[tuple, str] = {}      # (kind, spelling) -> gen constructor
        self.sids: dict[str, int] = {}          # scalar -> core leaf id
        self.lits: dict[int, int] = {}          # literal tag -> core leaf id
        self.standin_refs = 0
        self._assign()
        self.pyobj = {}
        for py, d in self.reg.rev:
            self.pyobj.setdefault(repr(d), py)

    # -- which named aliases are written as strings in the module (their value is a reference, not a type) --
    def _string_aliases(self):
        out, defined = set(), set()

        def undefined(t):
            k = t[0]
            if k == "name":
                return t[1] not in defined
            if k == "seq":
                return undefined(t[3])
            if k == "map":
                return undefined(t[3]) or undefined(t[4])
            if k in ("tuple", "union"):
                return any(undefined(x) for x in t[2])
            if k in ("newtype", "alias"):
                return undefined(t[2])
            if k in ("final", "classvar"):
                return undefined(t[1])
            return False

        for n, d in self.defs.items():
            if d[0] == "alias":
                if isinstance(d[1], str) or undefined(d[1]):
                    out.add(n)
                defined.add(n)
            elif d[0] == "class":
                defined.add(n)
        return out

    # -- all descriptions of the group, for the leaf / spelling assignment --
    def all_descs(self):
        ds = []
        for r in self.g.roots:
            universe.subdescs(r, ds)
        for n, d in self.defs.items():
            if d[0] == "class":
                for _, t, _ in d[3]:
                    universe.subdescs(t, ds)
            elif d[0] == "alias" and not isinstance(d[1], str):
                universe.subdescs(d[1], ds)
        return ds

    def _assign(self):
        leaves, seqs, maps = [], [], []
        for d in self.all_descs():
            if d[0] == "leaf" and d[1] not in leaves:
                leaves.append(d[1])
            elif d[0] == "seq" and (d[1], d[2]) not in seqs:
                seqs.append((d[1], d[2]))
            elif d[0] == "map" and (d[1], d[2]) not in maps:
                maps.append((d[1], d[2]))
        free_std = [s for s in STDLIB_SCALARS if s not in {EXACT.get(k) for k in leaves}]
        free_oth = [s for s in OTHER_SCALARS if s not in {EXACT.get(k) for k in leaves}]
        lit = 0
        for k in leaves:
            if k == "Any":
                self.leafmap[k] = "GAny"
            elif k in EXACT:
                self.leafmap[k] = f"(GScalar {EXACT[k]})"
                self.sids[EXACT[k]] = self.reg.leaves[k]
            elif k in self.defs and self.defs[k][0] == "literal":
                self.leafmap[k] = f"(GLit {lit})"
                self.lits[lit] = self.reg.leaves[k]
                lit += 1
            else:
                if k in self.defs and self.defs[k][0] == "enum":
                    pool = free_oth
                elif k in STANDIN_STDLIB:
                    pool = free_std if STANDIN_STDLIB[k] else free_oth
                else:
                    continue                      # exotic leaves of the extended grammar: outside
                if not pool:
                    continue                      # more leaf classes than scalars: outside
                s = pool.pop(0)
                self.standins[k] = s
                self.leafmap[k] = f"(GScalar {s})"
                self.sids[s] = self.reg.leaves[k]
        # origin spellings: the exact constructor where there is one, else a free one of the same kind
        used = {}
        for kind, sp in seqs:
            if sp in SEQ_EXACT:
                self.genmap[(kind, sp)] = SEQ_EXACT[sp]
                used.setdefault(kind, set()).add(SEQ_EXACT[sp])
        for kind, sp in seqs:
            if (kind, sp) in self.genmap:
                continue
            free = [x for x in SEQ_GENS[kind] if x not in used.get(kind, set())]
            gen = free[0] if free else SEQ_GENS[kind][0]          # a clash is caught by the ambiguity check
            self.genmap[(kind, sp)] = gen
            used.setdefault(kind, set()).add(gen)
        usedm = set()
        for kind, sp in maps:
            if kind == "KDict" and sp in MAP_EXACT:
                self.genmap[(kind, sp)] = MAP_EXACT[sp]
                usedm.add(MAP_EXACT[sp])
        # OrderedDict origins: a mapping constructor that no dict origin of the module uses (mkind N tells them apart)
        self.ordered = []
        for kind, sp in maps:
            if kind != "KOrderedDict":
                continue
            free = [x for x in MAP_GENS if x not in usedm or x in self.ordered]
            if not free:
                continue
            gen = ([x for x in free if x not in self.ordered] or free)[0]
            self.genmap[(kind, sp)] = gen
            usedm.add(gen)
            if gen not in self.ordered:
                self.ordered.append(gen)
        # the other dict origins: a free constructor, else one shared with another dict origin
        for kind, sp in maps:
            if kind != "KDict" or (kind, sp) in self.genmap:
                continue
            plain = [x for x in MAP_GENS if x not in self.ordered]
            if not plain:
                continue
            free = [x for x in plain if x not in usedm]
            gen = free[0] if free else plain[0]               # a clash is caught by the ambiguity check
            self.genmap[(kind, sp)] = gen
            usedm.add(gen)

    # -- description -> gty term (raises Outside with the reason) --
    def gty(self, d) -> str:
        k = d[0]
        if k == "leaf":
            if d[1] not in self.leafmap:
                raise Outside(f"leaf class without scalar: {d[1]}")
            return self.leafmap[d[1]]
        if k == "none":
            return "GNone"
        if k == "seq":
            gen = self.genmap[(d[1], d[2])]
            a = self.gty(d[3])
            return f"(GGen {gen} [{a}; GEllipsis])" if d[1] == "KTuple" else f"(GGen {gen} [{a}])"
        if k == "map":
            if (d[1], d[2]) not in self.genmap:
                raise Outside("more mapping origins in the module than Graph.v has mapping constructors")
            return f"(GGen {self.genmap[(d[1], d[2])]} [{self.gty(d[3])}; {self.gty(d[4])}])"
        if k == "tuple":
            if not d[2]:
                raise Outside("empty tuple")
            return "(GGen GTuple [" + "; ".join(self.gty(t) for t in d[2]) + "])"
        if k == "union":
            return f"(GUnion {USPELL[d[1]]} [" + "; ".join(self.gty(t) for t in d[2]) + "])"
        if k == "name":
            df = self.defs.get(d[1])
            if df is None:
                raise Outside("undefined name")
            if df[0] == "class":
                return f"(GClass {d[1]})"
            if df[0] == "alias":
                if d[1] in self.string_aliases:
                    raise Outside("named alias whose value is written as a string (core env entry NType)")
                return f"(GAlias {cstr(self.mod)} {cstr(universe.cname(d[1]))} {self.gty(df[1])})"
            raise Outside(f"name of a {df[0]}")
        if k == "newtype":
            return f"(GNewType {cstr(self.mod)} {cstr('NT%d' % d[1])} {self.gty(d[2])})"
        if k == "alias":
            return f"(GAlias {cstr(self.mod)} {cstr('AL%d' % d[1])} {self.gty(d[2])})"
        if k == "aliasstr":
            if self.defs.get(d[2], ("?",))[0] != "class":
                raise Outside("string alias whose body does not name a class")
            return f"(GAliasStr {cstr(self.mod)} {cstr('AS%d' % d[1])} {cstr(universe.cname(d[2]))})"
        if k == "final":
            return f"(GFinal {self.gty(d[1])})"
        if k in ("ref", "wrapref", "lref", "wref"):
            raise Outside("reference written in the module (the core env keeps the reference, "
                          "the graph sees what get_type_hints resolved)")
        if k == "classvar":
            raise Outside("ClassVar has no gty constructor")
        if k == "tvar":
            raise Outside("TypeVar has no gty constructor")
        raise Outside(f"description {k}")

    # -- everything reachable from a description through classes and aliases --
    def reachable(self, d):
        out, seen, todo = [], set(), [d]
        while todo:
            x = todo.pop()
            for s in universe.subdescs(x, []):
                key = repr(s)
                if key in seen:
                    continue
                seen.add(key)
                out.append(s)
                if s[0] == "name":
                    df = self.defs.get(s[1])
                    if df and df[0] == "class":
                        todo += [t for _, t, _ in df[3]]
                    elif df and df[0] == "alias" and not isinstance(df[1], str):
                        todo.append(df[1])
                elif s[0] == "aliasstr":
                    todo.append(("name", s[2]))
        return out

    def check_unambiguous(self, descs):
        """two annotations with one gty, or ==-equal annotations with different gty: outside"""
        items = []
        for d in descs:
            py = self.pyobj.get(repr(d))
            if py is None:
                continue
            items.append((py, self.gty(d), d))
        for i in range(len(items)):
            for j in range(i + 1, len(items)):
                a, b = items[i], items[j]
                try:
                    eq = bool(a[0] == b[0])
                except Exception:
                    eq = False
                if eq != (a[1] == b[1]):
                    raise Outside("ambiguous spelling (two annotations, one identity)")

    # -- Coq terms of the module --
    def coq_env(self, classes) -> str:
        items = []
        for n in classes:
            d = self.defs[n]
            fields = "; ".join(f"({cstr(f)}, {self.gty(t)})" for f, t, _ in d[3])
            items.append(f"({n}, {{| cmodule := {cstr(self.mod)}; cqual := {cstr(universe.cname(n))}; "
                         f"Graph.cfields := [{fields}] |}})")
        return "(env_of [" + "; ".join(items) + "])" if items else "(env_of (@nil (cname * Graph.classdef)))"

    def coq_naming(self, classes, descs) -> tuple[str, str]:
        """(naming term, universe of named objects for the names layer)"""
        reg = self.reg
        refs, wids, univ = [], [], []
        for n in classes:
            refs.append(f"({cstr(universe.cname(n))}, Some {cstr(self.mod)}, TRef {coq_nat(n)})")
            univ.append(f"(GClass {n})")
        for key, s in self.standins.items():
            if s in SCALAR_NAME:              # a reference to a stand-in leaf is written with the stand-in's name
                nm, m = SCALAR_NAME[s]
                refs.append(f"({cstr(nm)}, Some {cstr(m)}, TRefLeaf {coq_nat(reg.leaves[key])})")
                # ... and the reference built for the UNWRAPPED form of a NewType / alias over the leaf carries the
                # wrapper's module (never evaluated by typelib; the core harness identifies it by its name)
                refs.append(f"({cstr(nm)}, Some {cstr(self.mod)}, TRefLeaf {coq_nat(reg.leaves[key])})")
                univ.append(f"(GScalar {s})")
        for key, (nm, m) in LEAF_REF.items():
            if key in reg.leaves:
                refs.append(f"({cstr(nm)}, Some {cstr(m)}, TRefLeaf {coq_nat(reg.leaves[key])})")
                refs.append(f"({cstr(nm)}, Some {cstr(self.mod)}, TRefLeaf {coq_nat(reg.leaves[key])})")
        if "Fraction" in self.leafmap:
            univ.append("(GScalar SFraction)")
        seenw = set()
        for d in descs:
            if d[0] in ("newtype", "alias", "aliasstr"):
                nm = {"newtype": "NT", "alias": "AL", "aliasstr": "AS"}[d[0]] + str(d[1])
                if nm in seenw:
                    continue
                seenw.add(nm)
                wids.append(f"({cstr(nm)}, {coq_nat(d[1])})")
                refs.append(f"({cstr(nm)}, Some {cstr(self.mod)}, TRefTo {reg.emit_ty(d)})")
                univ.append(self.gty(d))
            elif d[0] == "name" and self.defs.get(d[1], ("?",))[0] == "alias" and d[1] not in self.string_aliases:
                nm = universe.cname(d[1])
                if nm in seenw:
                    continue
                seenw.add(nm)
                wids.append(f"({cstr(nm)}, {coq_nat(1000 + d[1])})")
                refs.append(f"({cstr(nm)}, Some {cstr(self.mod)}, TRefTo {reg.emit_ty(d)})")
                univ.append(self.gty(d))
        fids = [f"({cstr(f)}, {coq_nat(i)})" for f, i in reg.fields.items()]
        flavs, fdefs, creqs = [], [], []
        fl = {"dataclass": "FDataclass", "namedtuple": "FNamedTuple", "typeddict": "FTypedDict", "plain": "FPlain"}
        for n in classes:
            d = self.defs[n]
            flavs.append(f"({n}, {fl[d[1]]})")
            for fname, _, default in d[3]:
                if default is not None:
                    fdefs.append(f"({n}, {cstr(fname)}, {reg.enc(reg.default_value(n, fname))})")
            if d[1] == "typeddict" and d[2] != "total=False":
                creqs.append(f"({n}, {coq_list([coq_nat(reg.fid(f)) for f, _, _ in d[3]], 'nat')})")
        sids = [f"({s}, {coq_nat(i)})" for s, i in self.sids.items()]
        lits = [f"({k}, {coq_nat(i)})" for k, i in self.lits.items()]
        term = ("(mk_naming\n    %s\n    %s\n    %s\n    %s\n    %s\n    %s\n    %s\n    %s\n    %s\n    %s)" % (
            coq_list(refs, "(Graph.str * option Graph.str * ty)"), coq_list(wids, "(Graph.str * nat)"),
            coq_list(fids, "(Graph.str * nat)"), coq_list(flavs, "(nat * flavour)"),
            coq_list(fdefs, "(nat * Graph.str * pv)"), coq_list(creqs, "(nat * list nat)"),
            coq_list(sids, "(scalar * nat)"), coq_nat(reg.leaves["Any"]), coq_list(lits, "(nat * nat)"),
            coq_list(self.ordered, "gen")))
        return term, coq_list(univ, "gty")

    # -- an observed TypeNode -> Graph.node term --
    def node_gty(self, py, of_wrapper=False) -> str:
        if py.__class__ is typing.ForwardRef:
            d = self.reg.desc_of(py)
            if d is not None and d[0] == "lref" and self.standins.get(d[1]) in SCALAR_NAME:
                # Graph.v knows this leaf class under the stand-in's name: the reference is identified by the leaf
                # it names, its text is not compared (counted: standin_reference_nodes)
                nm, m = SCALAR_NAME[self.standins[d[1]]]
                self.standin_refs += 1
                if of_wrapper:      # unwrapped form of a NewType / alias over the leaf: the wrapper's module
                    m = self.mod
                return f"(GRef {cstr(nm)} (Some {cstr(m)}))"
            return f"(GRef {cstr(py.__forward_arg__)} {coq_ostr(py.__forward_module__)})"
        d = self.reg.desc_of(py)
        if d is None:
            raise Outside("observed annotation without description")
        return self.gty(d)

    def coq_node(self, n) -> str:
        t = self.node_gty(n.type)
        dt = self.reg.desc_of(n.type) if n.type.__class__ is typing.ForwardRef else None
        u = self.node_gty(n.unwrapped, of_wrapper=dt is not None and dt[0] in ("wref", "wrapref"))
        return ("{| Graph.ntype := %s; Graph.nunw := %s; nvar := %s; Graph.ncyc := %s; nfor := %s |}" % (
            t, u, coq_ostr(n.var), coq_bool(bool(n.cyclic)), t))


def observe_orders(g, view):
    """every (description, python type, nodes) the core harness filed an order for: the roots and, recursively,
    whatever a deferred node resolves to (same walk as Group.collect_orders)"""
    from typelib import graph
    from typelib.py import refs
    out, seen = [], set()
    todo = [(g.roots[ri], g.pytys[ri]) for ri in range(len(g.roots))]
    depth = 0
    while todo and depth < 400:
        depth += 1
        d, py = todo.pop(0)
        if isinstance(py, str) or py.__class__ is typing.ForwardRef:
            if d is not None and d[0] == "ref":
                d, py = ("name", d[1]), getattr(g.mod, universe.cname(d[1]), None)
            else:
                nm = (py if isinstance(py, str) else py.__forward_arg__).split(".")[-1]
                py = getattr(g.mod, nm, None)
                d = g.reg.desc_of(py) if py is not None else None
        if d is None:
            d = g.reg.desc_of(py)
        if d is None or py is None:
            out.append((d, py, None, "no description"))
            continue
        if d[0] == "ref":
            d = ("name", d[1])
        try:
            key = g.reg.emit_ty(d)
        except Exception:
            out.append((d, py, None, "no core annotation"))
            continue
        if key in seen:
            continue
        seen.add(key)
        if key not in g.orders["u"]:
            out.append((d, py, None, "the core harness filed no order"))
            continue
        impl.clear_caches()
        try:
            with warnings.catch_warnings():
                warnings.simplefilter("ignore")
                nodes = list(graph.static_order(py))
        except BaseException as e:  # noqa: BLE001
            out.append((d, py, None, f"static_order raised {type(e).__name__}"))
            continue
        out.append((d, py, nodes, key))
        for n in nodes:
            if n.cyclic:
                try:
                    tgt = refs.evaluate(n.type)
                except BaseException:  # noqa: BLE001
                    continue
                todo.append((None, tgt))
    return out


def bridge_obligations(run, groups, tag, per_file=8):
    cov = {"groups": len(groups), "groups_with_covered_orders": 0, "orders_seen": 0, "orders_covered": 0,
           "orders_outside": 0, "outside_reasons": {}, "nodes_covered": 0, "cyclic_nodes_covered": 0,
           "reference_nodes_covered": 0, "standin_reference_nodes": 0, "names_layer_applies": 0, "standin_leaves": {}, "spelling_standins": 0,
           "failing": 0}
    entries = []          # (group index, description repr, key)
    modules = []          # Coq text per group
    for gi, g in enumerate(groups):
        try:
            view = GroupView(g)
        except Exception as e:  # noqa: BLE001
            cov["outside_reasons"]["group: " + type(e).__name__] = cov["outside_reasons"].get("group: " + type(e).__name__, 0) + 1
            continue
        cases = []
        classes_needed, descs_needed = [], []
        for d, py, nodes, info in observe_orders(g, view):
            cov["orders_seen"] += 1
            try:
                if nodes is None:
                    raise Outside(info)
                reach = view.reachable(d)
                root = view.gty(d)
                for s in reach:
                    view.gty(s)
                view.check_unambiguous(reach)
                before = view.standin_refs
                obs = [view.coq_node(n) for n in nodes]
                cov["standin_reference_nodes"] += (view.standin_refs - before) // 2
            except Outside as e:
                r = str(e)
                cov["orders_outside"] += 1
                cov["outside_reasons"][r] = cov["outside_reasons"].get(r, 0) + 1
                continue
            for s in reach:
                if s[0] == "name" and view.defs.get(s[1], ("?",))[0] == "class" and s[1] not in classes_needed:
                    classes_needed.append(s[1])
                descs_needed.append(s)
            for s in reach:
                if s[0] == "leaf" and s[1] in view.standins:
                    cov["standin_leaves"][s[1]] = cov["standin_leaves"].get(s[1], 0) + 1
                if s[0] == "seq" and s[2] not in SEQ_EXACT or s[0] == "map" and s[2] not in MAP_EXACT:
                    cov["spelling_standins"] += 1
            cases.append((d, root, info, obs, g.orders["u"][info], len(nodes)))
        if not cases:
            continue
        try:
            naming, univ = view.coq_naming(sorted(classes_needed), descs_needed)
            envt = view.coq_env(sorted(classes_needed))
        except Outside as e:
            r = "group: " + str(e)
            cov["orders_outside"] += len(cases)
            cov["outside_reasons"][r] = cov["outside_reasons"].get(r, 0) + len(cases)
            continue
        cov["groups_with_covered_orders"] += 1
        nm = f"B{gi}"
        items = []
        for d, root, key, obs, ns, nn in cases:
            items.append("{| bc_root := %s; bc_key := %s;\n     bc_obs := %s;\n     bc_ns := %s |}" % (
                root, key, coq_list(obs, "Graph.node"), ns))
            entries.append((gi, repr(d), nm, g))
            cov["orders_covered"] += 1
            cov["nodes_covered"] += nn
        any_id = coq_nat(g.reg.leaves["Any"])
        modules.append((nm, len(cases), (
            f"Module {nm}.\n"
            f"Definition E : Graph.env := {envt}.\n"
            f"Definition coreE : env := {g.reg.emit_env()}.\n"
            f"Definition N : naming := {naming}.\n"
            f"Definition univ : list gty := {univ}.\n"
            f"Definition noop (s : nat) : bool := Nat.eqb s {any_id}.\n"
            f"Definition cases : list bcase :=\n  {coq_list(items, 'bcase')}.\n"
            f"Definition res := map (check_case N E coreE noop) cases.\n"
            f"Definition names := map (names_case N E univ) cases.\n"
            f"Definition cyc := flat_map (cyc_count E) cases.\n"
            f"End {nm}.\n")))
    # one coqc call per shard
    files, order = {}, []
    for fi in range(0, len(modules), per_file):
        chunk = modules[fi:fi + per_file]
        text = HEADER + "".join(m[2] for m in chunk)
        for m in chunk:
            text += (f"Eval vm_compute in {m[0]}.res.\nEval vm_compute in {m[0]}.names.\n"
                     f"Eval vm_compute in {m[0]}.cyc.\n")
        fname = f"cases_bridge_{tag}_{fi // per_file}.v"
        files[fname] = text
        order.append((fname, chunk))
    results = run.coq_eval_many(files, timeout=900) if files else {}
    failing = {name: [] for _, name in CLAUSES}
    compiled = True
    pos = 0
    for fname, chunk in order:
        res = results.get(fname)
        if res is None or len(res) != 3 * len(chunk):
            compiled = False
            run.oblige(f"evaluate:{fname}", False, "bridge tie file did not compile")
            pos += sum(m[1] for m in chunk)
            continue
        for mi, m in enumerate(chunk):
            codes = lib.parse_nat_list(res[3 * mi])
            names = lib.parse_nat_list(res[3 * mi + 1])
            cyc = lib.parse_nat_list(res[3 * mi + 2])
            cov["names_layer_applies"] += sum(names)
            cov["cyclic_nodes_covered"] += sum(cyc[0::2])
            cov["reference_nodes_covered"] += sum(cyc[1::2])
            for ci, code in enumerate(codes):
                gi, drepr, _, g = entries[pos + ci]
                if code:
                    cov["failing"] += 1
                    bad = [name for w, name in CLAUSES if code & w]
                    if cov["failing"] == 13:
                        print(f"BRIDGE-TIE {tag}: ... (further failing roots are only counted)", flush=True)
                    if cov["failing"] <= 12:
                        print(f"BRIDGE-TIE {tag}: module {g.env['module']} root {drepr[:160]}: failing clause(s): "
                              + ", ".join(bad), flush=True)
                    for b in bad:
                        failing[b].append(f"{g.env['module']}:{drepr[:120]}")
            pos += m[1]
    for _, name in CLAUSES:
        run.oblige(f"bridge:{name} on every translated observed order ({CLAUSE_TEXT[name]})",
                   compiled and not failing[name],
                   "; ".join(failing[name][:4]) if failing[name] else ("" if compiled else "a tie file did not compile"))
    run.oblige("bridge:coverage (some observed order lies in the translated fragment)",
               cov["orders_covered"] > 0 or not groups, f"{cov['orders_covered']} of {cov['orders_seen']}")
    prev = run.extra_cov.get("bridge_tie")
    if isinstance(prev, dict) and "tags" in prev:
        prev["tags"][tag] = cov
    else:
        run.extra_cov["bridge_tie"] = {"tags": {tag: cov}}
    run.log(f"bridge tie [{tag}]: {cov['orders_covered']} of {cov['orders_seen']} observed orders covered "
            f"({cov['nodes_covered']} nodes, {cov['cyclic_nodes_covered']} deferred, "
            f"{cov['reference_nodes_covered']} reference nodes; names layer applies to {cov['names_layer_applies']}), "
            f"{cov['orders_outside']} outside, {cov['failing']} failing")
    return cov
