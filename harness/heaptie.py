"""Object identity (WP-R): ties the heap model (Model/Heap.v: hmar / hunm on a heap of objects with identity) to /repo.

`obligations(run)` does, on every run,

  1. *theorems*: Props/C06Heap.v is re-compiled in the build dir (Print Assumptions captured, one obligation per theorem):
     refinement (the object returned denotes Core.mar / Core.unm's value), frame (no existing object is written), freshness
     inside fresh_ty with its refuted boundary (Any members, bare list / dict are shallow), separation of the results of a
     call history, C13's copies / pass-through.
  2. *correspondence* `identity`: synthesised modules of the core harness (universe / coregen / coremodel.Group) and, per
     (annotation T, value): marshal(v, t=T) on valid v; unmarshal(T, .) on the valid v, on its wire form and on the JSON text
     of the wire form.  Every call is made TWICE in a row on the very same input object (caches cleared before the first call
     only).  Observed with id():
        - for every container position of the first result (pre-order, exactly the positions of universe.Registry.enc;
          members of sets are not visited; the empty tuple / frozenset are interpreter singletons and skipped): is it one of
          the input's containers (which one, by pre-order index) or a new object;
        - the same for the second result, against the input's containers followed by the first result's new ones;
        - the input re-encoded after both calls (deep snapshot).
     Coq evaluates (vm_compute) hmar / hunm on the heap `alloc_pv [] v`, threads the heap through the second call, and
     computes the same vectors from locations (HeapEq.hcase_code); mismatching case indexes and a bit code (1 outcome/value,
     2 sharing of the first result, 4 sharing of the second result, 8 input not unchanged) are computed inside Coq.
     The value-level runtime (leaf tables) is filled by coremodel.Mirror as in every core correspondence; WHERE a leaf result
     lives is the harness' reading of the leaf routines, independent of any observation: no-op routines (Any, bytes) hand back
     the input (PInput); IterableMarshaller / MappingMarshaller (bare list / dict) build a new container over the same
     members (PShallow); CastUnmarshaller of a bare list / dict returns an instance as it is (PInput), re-wraps another
     container (PShallow) and builds new objects from text (PFresh); scalars are PFresh (their identity is not observed).
     Also decided inside Coq per group: env_fresh for the name set handed over, place_tbl_fresh (the hypotheses of
     C06H_fresh / C12H_results_separate on this run's tables) and the theorem's conclusion read on the OBSERVED vectors
     (inside fresh_ty every position of both results is a new object).

Wire into C06 (marshal clause "shares no mutable container with v and leaves v unmodified"), C12 ("never shared with another
call's result, inputs never mutated"), C13 ("same object or equal copy").  COQ_TARGETS must be added to the caller's.
"""
from __future__ import annotations

import collections
import copy
import json
import os
import random
import re
import sys
import warnings

import coregen
import coremodel
import coreprop
import impl
import lib
import universe
from lib import coq_bool, coq_list, coq_nat, coq_pair

COQ_TARGETS = ["theories/Model/Heap.vo", "theories/Model/HeapEq.vo", "theories/Proofs/HeapLemmas.vo",
               "theories/Props/C06Heap.vo"]
THEOREMS = [
    "C06H_marshal_refines", "C13H_unmarshal_refines", "C06H_wire_transfers",
    "C06H_marshal_frame", "C12H_unmarshal_frame", "C12H_inputs_never_mutated",
    "C06H_fresh", "C12H_unmarshal_fresh", "C06H_fresh_fully_annotated", "C06H_place_alloc_laws",
    "C06H_tables_laws", "C06H_env_fresh_check_sound",
    "C06H_fresh_refuted_any_member", "C06H_fresh_refuted_bare_list", "C06H_fresh_full_refuted",
    "C12H_results_separate", "C12H_separate_refuted_any_member",
    "C13H_composite_is_copy", "C06H_composite_is_new", "C13H_leaf_same_object",
]
EXAMPLES = ["C06H_refines_nonvacuous", "C06H_frame_nonvacuous", "C06H_fresh_nonvacuous", "C12H_separate_nonvacuous",
            "C13H_positions_nonvacuous"]
PROPS = [("Props/C06Heap.v", THEOREMS)]
FUEL = coremodel.FUEL
PASS_THROUGH = ("Any", "list", "dict", "bytes")
TEXT = (str, bytes, bytearray, memoryview)
HEADER = ("From Coq Require Import List Bool. Import ListNotations.\n"
          "Require Import TL.Model.Core TL.Model.CoreTables TL.Model.Heap TL.Model.HeapEq.\n")
BITS = ((1, "outcome / value"), (2, "sharing of the first result with the input"),
        (4, "sharing of the second result with the input / the first result"), (8, "input not unchanged"))


# ----------------------------------------------------------------------------------
# where leaf results live: the harness' reading of the leaf routines (never an observation)
# ----------------------------------------------------------------------------------

def place_m(reg, name, x) -> str:
    if name in ("Any", "bytes"):
        return "PInput"             # NoOpMarshaller
    if name in ("list", "dict"):
        return "PShallow"           # IterableMarshaller: star-unpacking into a new list; MappingMarshaller likewise
    return "PFresh"


def place_u(reg, name, x):
    """-> place, or None when the object returned is outside what the model describes"""
    if name == "Any":
        return "PInput"             # NoOpUnmarshaller
    if name in ("list", "dict"):    # CastUnmarshaller: load, isinstance short-circuit, else origin(decoded)
        if isinstance(x, list if name == "list" else dict):
            return "PInput"
        if isinstance(x, TEXT):
            return "PFresh"
        kind = reg.kind_of(x)[0]
        if kind in ("seq", "dict", "named"):
            # list(decoded) is a new list over the members (the keys of a dict); dict(pairs) re-groups the members of the
            # pairs: no shape of the model
            return "PShallow" if name == "list" else None
        return "PFresh"
    return "PFresh"


class MirrorH(coremodel.Mirror):
    """the shared mirror, recording where each leaf call's result lives"""

    def __init__(self, reg, suppressed):
        super().__init__(reg, suppressed)
        self.pm, self.pu = {}, {}
        self.outside = False

    def leaf_m(self, name, x):
        if name in PASS_THROUGH:
            self.pm[(self.reg.leaves[name], self.reg.enc(x))] = place_m(self.reg, name, x)
        return super().leaf_m(name, x)

    def leaf_u(self, name, x):
        if name in PASS_THROUGH:
            p = place_u(self.reg, name, x)
            if p is None:
                self.outside = True
                p = "PFresh"
            self.pu[(self.reg.leaves[name], self.reg.enc(x))] = p
        return super().leaf_u(name, x)


# ----------------------------------------------------------------------------------
# container positions (the traversal of HeapEq.conts on Python objects)
# ----------------------------------------------------------------------------------

def containers(reg, obj, out=None, depth=0):
    out = [] if out is None else out
    if depth > FUEL:
        return out
    k = reg.kind_of(obj)
    if k[0] == "seq":
        if not (k[1] in ("KTuple", "KFrozenset") and len(obj) == 0):
            out.append(obj)
        if k[1] in ("KSet", "KFrozenset"):
            return out
        for x in obj:
            containers(reg, x, out, depth + 1)
    elif k[0] == "dict":
        out.append(obj)
        for a, b in obj.items():
            containers(reg, a, out, depth + 1)
            containers(reg, b, out, depth + 1)
    elif k[0] == "obj":
        out.append(obj)
        for f, _, _ in reg.env["defs"][k[1]][3]:
            if hasattr(obj, f):
                containers(reg, getattr(obj, f), out, depth + 1)
    elif k[0] == "named":
        if len(obj):
            out.append(obj)
        for x in obj:
            containers(reg, x, out, depth + 1)
    return out


def share_vec(base_ids, conts):
    return [base_ids.get(id(c), 0) for c in conts]


def fully_fresh(d, env, seen=None):
    """no pass-through leaf anywhere: the Python reading of fresh_ty with fl = everything but Any / list / dict / bytes"""
    seen = set() if seen is None else seen
    k = d[0]
    if k == "leaf":
        return d[1] not in PASS_THROUGH and d[1] not in universe.EXOTIC
    if k == "none":
        return True
    if k == "tvar":
        return fully_fresh(universe.TVARS[d[1]], env, seen)
    if k == "seq":
        return fully_fresh(d[3], env, seen)
    if k == "map":
        return fully_fresh(d[3], env, seen) and fully_fresh(d[4], env, seen)
    if k in ("tuple", "union"):
        return all(fully_fresh(t, env, seen) for t in d[2])
    if k in ("name", "ref", "aliasstr"):
        n = d[1] if k != "aliasstr" else d[2]
        if n in seen:
            return True
        seen.add(n)
        df = env["defs"][n]
        if df[0] == "alias":
            return fully_fresh(df[2] if isinstance(df[1], str) else df[1], env, seen)
        return all(fully_fresh(t, env, seen) for _, t, _ in df[3])
    if k in ("newtype", "alias"):
        return fully_fresh(d[2], env, seen)
    if k in ("final", "classvar", "wrapref"):
        return fully_fresh(d[1], env, seen)
    raise ValueError(d)


# ----------------------------------------------------------------------------------
# groups
# ----------------------------------------------------------------------------------

def L(name):
    return ("leaf", name)


def identity_roots(rng, env, classes):
    lst = lambda t: ("seq", "KList", "list[{}]", t)                               # noqa: E731
    dct = lambda t: ("map", "KDict", "dict[{}, {}]", L("str"), t)                  # noqa: E731
    roots = [
        lst(L("Any")), dct(L("Any")), L("list"), L("dict"), L("Any"),
        lst(lst(L("int"))), dct(lst(L("str"))), lst(L("list")), dct(L("dict")),
        ("tuple", "tuple[{}]", [lst(L("int")), dct(lst(L("str"))), L("Any")]),
        ("union", "Optional", [lst(L("int")), ("none",)]),
        ("union", "Union", [lst(L("int")), dct(L("int"))]),
        ("union", "Union", [("none",), lst(L("Any"))]),
        ("seq", "KDeque", "collections.deque[{}]", lst(L("int"))),
        ("seq", "KTuple", "tuple[{}, ...]", lst(L("date"))),
        ("seq", "KSet", "set[{}]", ("seq", "KTuple", "tuple[{}, ...]", L("int"))),
        ("seq", "KList", "typing.Sequence[{}]", dct(L("Decimal"))),
        ("map", "KOrderedDict", "collections.OrderedDict[{}, {}]", L("str"), lst(L("float"))),
        ("map", "KDict", "typing.Mapping[{}, {}]", L("int"), L("list")),
    ]
    for n in classes[:2]:
        roots.append(lst(("name", n)))
        roots.append(dct(("union", "Optional", [("name", n), ("none",)])))
    return rng.sample(roots, min(len(roots), rng.randint(8, 11)))


class GroupH(coremodel.Group):
    def __init__(self, env, roots, sup):
        super().__init__(env, roots, sup)
        self.mirror = MirrorH(self.reg, sup["u"])
        self.hcases = []       # (dir, root index, enc input, enc observed, description)
        self.skipped = collections.Counter()

    def call(self, direction, ri, x):
        from typelib import marshals, unmarshals
        t = self.pytys[ri]
        try:
            with warnings.catch_warnings():
                warnings.simplefilter("ignore")
                if isinstance(t, str):
                    r = self.mod._verif_um(t, x, 0) if direction == "u" else self.mod._verif_m(t, x, 0)
                elif direction == "u":
                    r = unmarshals.unmarshal(t, x)
                else:
                    r = marshals.marshal(x, t=t)
            return ("ok", r)
        except RecursionError:
            return ("raise", "ERecursion")
        except BaseException as e:          # noqa: BLE001
            return ("raise", impl.exc_kind(e))

    def add_identity(self, direction, ri, x):
        """two calls in a row on the same input object; the identity observation; then the mirror fills the tables"""
        reg = self.reg
        inc = containers(reg, x)
        if len({id(c) for c in inc}) != len(inc):
            self.skipped["input with one container at two positions"] += 1
            return None
        enc_in = reg.enc(x)
        rep_in = repr(x)[:300]
        impl.clear_caches()
        o1 = self.call(direction, ri, x)
        o2 = self.call(direction, ri, x) if o1[0] == "ok" else None
        enc_after = reg.enc(x)
        desc = {"dir": direction, "type": repr(self.pytys[ri]), "input": rep_in,
                "first": (repr(o1[1])[:300] if o1[0] == "ok" else o1[1])}
        if o1[0] == "ok" and o2[0] != "ok":
            desc["second"] = o2[1]
            desc["differs_in"] = ["second call on the same input raised"]
            self.hcases.append((direction, ri, None, None, desc))
            return o1
        if o1[0] == "ok":
            base = {id(c): i + 1 for i, c in enumerate(inc)}
            c1 = containers(reg, o1[1])
            v1 = share_vec(base, c1)
            for c in c1:
                if id(c) not in base:
                    base[id(c)] = len(base) + 1
            v2 = share_vec(base, containers(reg, o2[1]))
            desc["sharing_first"], desc["sharing_second"] = v1, v2
            desc["input_after"] = "unchanged" if enc_after == enc_in else repr(x)[:300]
            obs = "(ObsOk %s %s %s %s %s)" % (reg.enc(o1[1]), coq_list([coq_nat(i) for i in v1], "nat"), reg.enc(o2[1]),
                                             coq_list([coq_nat(i) for i in v2], "nat"), enc_after)
        else:
            desc["input_after"] = "unchanged" if enc_after == enc_in else repr(x)[:300]
            obs = f"(ObsRaise {enc_after})"
        # runtime tables (value level) + where leaf results live, through the mirror, on an equal input
        self.mirror.outside = False
        ncases = len(self.cases)
        self.add(direction, ri, x)
        del self.cases[ncases:]
        if self.mirror.outside:
            self.skipped["dict(pairs) under a bare dict annotation"] += 1
            return o1
        self.hcases.append((direction, ri, enc_in, obs, desc))
        return o1

    def emit_h(self, name):
        t = self.mirror.t
        reg = self.reg
        sup = coq_list(self.sup["u"], "exn")
        names = [n for n, d in self.env["defs"].items() if d[0] in ("class", "alias")]
        gnames = [n for n in names if fully_fresh(("name", n), self.env)]
        fl = [i for nm, i in reg.leaves.items() if nm not in PASS_THROUGH and nm not in universe.EXOTIC]
        ptbl = lambda d: coq_list([f"({coq_nat(s)}, {e}, {p})" for (s, e), p in d.items()], "(nat * pv * place)")  # noqa: E731
        dm = coq_list([coq_pair(coq_nat(reg.leaves[n]), p) for n, p in
                       (("Any", "PInput"), ("bytes", "PInput"), ("list", "PShallow"), ("dict", "PShallow"))], "(nat * place)")
        du = coq_list([coq_pair(coq_nat(reg.leaves["Any"]), "PInput")], "(nat * place)")
        cases = coq_list([f"({coq_bool(d == 'u')}, {reg.emit_ty(self.roots[ri])}, {ei}, {eo})"
                          for d, ri, ei, eo, _ in self.hcases if ei is not None], "hcase").replace("; (", ";\n   (")
        return (
            f"Module {name}.\n"
            f"Definition E : env := {reg.emit_env()}.\n"
            f"Definition rt : runtime := mk_runtime\n  {coremodel.emit_leaf_tbl(t.lu)}\n  {coremodel.emit_leaf_tbl(t.lm)}\n"
            f"  {coremodel.emit_tbl(t.nu, '(pv * res pv)')}\n  {coremodel.emit_tbl(t.ld, '(pv * res pv)')}\n"
            f"  {coremodel.emit_tbl(t.vs, '(pv * res (list pv))')}\n  {coremodel.emit_tbl(t.its, '(pv * res (list (pv * pv)))')}\n"
            f"  {coremodel.emit_tbl(t.ups, '(pv * res (pv * pv))')}\n"
            f"  {coremodel.emit_tbl(t.pl, '(pv * bool)')}\n"
            f"  {coq_list([coq_pair(coq_nat(i), v) for i, v in t.ix.items()], '(nat * pv)')}\n"
            f"  {coq_list([coq_nat(n) for n in self.unhashable_classes()], 'nat')}\n"
            f"  {coq_list([coq_pair(coq_nat(a), coq_nat(b)) for a, b in self.atom_eq_pairs()], '(nat * nat)')}\n"
            f"  {reg.enc(None)}\n  {sup}.\n"
            f"Definition pm := {ptbl(self.mirror.pm)}.\nDefinition pu := {ptbl(self.mirror.pu)}.\n"
            f"Definition dm := {dm}.\nDefinition du := {du}.\n"
            f"Definition hr : hruntime := mk_hruntime pm pu dm du.\n"
            f"Definition fl := hmem_nat {coq_list([coq_nat(i) for i in fl], 'nat')}.\n"
            f"Definition G := hmem_nat {coq_list([coq_nat(i) for i in gnames], 'nat')}.\n"
            f"Definition cases : list hcase :=\n  {cases}.\n"
            f"Definition bad := hbad rt hr E {FUEL} cases.\n"
            f"Definition codes := hbad_codes rt hr E {FUEL} cases.\n"
            f"Definition hyps := env_fresh_b E fl G {coq_list([coq_nat(i) for i in names], 'nat')} && "
            f"place_tbl_fresh fl pm dm && place_tbl_fresh fl pu du && "
            f"match none rt with PAtom _ => true | _ => false end.\n"
            f"Definition inside := inside_count fl G cases.\n"
            f"Definition obs_fresh := mismatches (observed_fresh_ok fl G) cases.\n"
            f"End {name}.\n"
        )


def generate(run, n_groups, values_per_root=2, seed_offset=0):
    rng = random.Random(run.seed * 1000 + 4711 + seed_offset)
    sup = coreprop.suppressed()
    groups = []
    dist = collections.Counter()
    for gi in range(n_groups):
        env = coreprop.make_env(rng, gi, cyclic_every=3, depth=2)
        classes = [n for n, d in env["defs"].items() if d[0] in ("class", "alias")]
        roots = [("name", n) for n in classes] + [coregen.gen_ty(rng, env, 2) for _ in range(2)] + \
            identity_roots(rng, env, classes)
        g = GroupH(env, roots, sup)
        for ri, r in enumerate(roots):
            for _ in range(values_per_root):
                try:
                    v = coregen.gen_value(rng, r, env, g.mod, depth=3)
                except RecursionError:
                    continue
                with warnings.catch_warnings():
                    warnings.simplefilter("ignore")
                    o = g.add_identity("m", ri, v)
                    dist["marshal valid"] += 1
                    g.add_identity("u", ri, copy.deepcopy(v))
                    dist["unmarshal valid (C13)"] += 1
                    if o is not None and o[0] == "ok":
                        wire = o[1]
                        g.add_identity("u", ri, copy.deepcopy(wire))
                        dist["unmarshal wire"] += 1
                        if coregen.jsonable(wire) and rng.random() < 0.5:
                            g.add_identity("u", ri, json.dumps(wire))
                            dist["unmarshal json text"] += 1
        groups.append(g)
    return groups, dist


def evaluate(run, groups, tag, per_file=8):
    files, order = {}, []
    for fi in range(0, len(groups), per_file):
        chunk = groups[fi:fi + per_file]
        text = HEADER
        names = []
        for gi, g in enumerate(chunk):
            nm = f"G{fi + gi}"
            text += g.emit_h(nm)
            names.append(nm)
        for nm in names:
            text += (f"Eval vm_compute in {nm}.bad.\nEval vm_compute in {nm}.codes.\nEval vm_compute in {nm}.hyps.\n"
                     f"Eval vm_compute in {nm}.inside.\nEval vm_compute in {nm}.obs_fresh.\n")
        fname = f"cases_{tag}_{fi // per_file}.v"
        files[fname] = text
        order.append((fname, chunk))
    results = run.coq_eval_many(files, timeout=900)
    bad, hyps_bad, obs_bad, inside = [], [], [], 0
    for fname, chunk in order:
        res = results[fname]
        if res is None or len(res) != 5 * len(chunk):
            run.oblige(f"evaluate:{fname}", False, "heap model evaluation did not compile")
            for g in chunk:
                bad += [(g, i, 1) for i in range(len([c for c in g.hcases if c[2] is not None]))]
            continue
        for gi, g in enumerate(chunk):
            idx = lib.parse_nat_list(res[5 * gi])
            codes = lib.parse_nat_list(res[5 * gi + 1])
            bad += [(g, i, c) for i, c in zip(idx, codes)]
            if "true" not in res[5 * gi + 2]:
                hyps_bad.append(g.env["module"])
            inside += int(re.sub(r"%nat", "", res[5 * gi + 3]).strip())
            obs_bad += [(g, i) for i in lib.parse_nat_list(res[5 * gi + 4])]
    return bad, hyps_bad, obs_bad, inside


def identity_stream(run, n_groups=None, tag="identity", seed_offset=0):
    n_groups = n_groups if n_groups is not None else run.budget(24, 160)
    groups, dist = generate(run, n_groups, seed_offset=seed_offset)
    try:
        bad, hyps_bad, obs_bad, inside = evaluate(run, groups, tag)
        mism, by_bit = [], collections.Counter()
        for g in groups:                      # failures decided on the Python side: the second call raised
            for c in g.hcases:
                if c[2] is None:
                    mism.append(c[4])
                    by_bit["second call raised"] += 1
        for g, i, code in bad:
            evald = [c for c in g.hcases if c[2] is not None]
            d = dict(evald[i][4])
            d["differs_in"] = [w for b, w in BITS if code & b]
            for b, w in BITS:
                if code & b:
                    by_bit[w] += 1
            mism.append(d)
        ncases = sum(len(g.hcases) for g in groups)
        distinct = len({(g.env["module"], c[0], c[1], c[2]) for g in groups for c in g.hcases})
        skipped = collections.Counter()
        for g in groups:
            skipped.update(g.skipped)
        shared = sum(1 for g in groups for c in g.hcases if any(c[4].get("sharing_first", [])))
        dist = dict(dist)
        dist.update({"groups": len(groups), "fuel": FUEL, "inside_fresh_ty": inside, "outside_fresh_ty": ncases - inside,
                     "first_result_shares_a_container_with_the_input": shared,
                     "observed_raise": sum(1 for g in groups for c in g.hcases if c[3] and c[3].startswith("(ObsRaise")),
                     "skipped": dict(skipped), "mismatch_kinds": dict(by_bit)})
        run.record_corr(tag, ncases, mism, distinct, dist)
        run.oblige("identity:env_fresh / place_tbl_fresh / None is an atom hold for the tables handed to the model "
                   "(hypotheses of C06H_fresh, C12H_results_separate)", not hyps_bad, ", ".join(hyps_bad[:4]))
        evs = lambda g: [c for c in g.hcases if c[2] is not None]                  # noqa: E731
        run.oblige("identity:inside fresh_ty every container position of both observed results is a new object "
                   "(conclusion of C06H_fresh / C12H_results_separate read on the observations)", not obs_bad,
                   "; ".join(json.dumps(evs(g)[i][4], default=str)[:200] for g, i in obs_bad[:2]))
        run.oblige("identity:the stream reaches both sides of the boundary (cases inside fresh_ty, and results that share a "
                   "container with the input outside it)", inside > 0 and shared > 0 and ncases - inside > 0,
                   f"inside {inside}, outside {ncases - inside}, sharing {shared}")
        if groups and groups[0].hcases:
            run.samples.append(groups[0].hcases[0][4])
        return mism
    finally:
        coreprop.close(groups)


def sample_leaf_same(run):
    """C13H_leaf_same_object's premise for scalars (place PInput): the unmarshal routine of a leaf type hands a valid
    instance of exactly that class back AS THE SAME OBJECT (isinstance short-circuits, `val in self.values`).  Identity
    of immutable scalars is not part of the `identity` stream; it is sampled here on every run."""
    import enum
    import typing
    from typelib import unmarshals

    class Colour(enum.Enum):
        RED = 1
        BLUE = "b"

    pool = []
    for key, vals in coregen.LEAF_VALUES.items():
        t = universe.LEAVES[key][1]
        if t is None:
            continue
        for v in vals:
            if key == "Any" or type(v) is t:
                pool.append((key, t, copy.deepcopy(v)))
    pool += [("enum", Colour, Colour.RED), ("enum", Colour, Colour.BLUE), ("Literal", typing.Literal[1, "a", None], 1),
             ("Literal", typing.Literal[1, "a", None], "a"), ("Literal", typing.Literal[1, "a", None], None),
             ("NoneType", type(None), None)]
    bad = []
    for key, t, v in pool:
        impl.clear_caches()
        try:
            with warnings.catch_warnings():
                warnings.simplefilter("ignore")
                r = unmarshals.unmarshal(t, v)
        except BaseException as e:          # noqa: BLE001
            bad.append(f"{key}: unmarshal({t!r}, {v!r}) raised {e!r}")
            continue
        if r is not v:
            bad.append(f"{key}: unmarshal({t!r}, {v!r}) returned {'an equal copy' if r == v else repr(r)}, not the object")
    impl.clear_caches()
    run.laws["leaf_same_object"] = run.laws.get("leaf_same_object", 0) + len(pool)
    run.oblige("identity:a leaf unmarshaller hands a valid instance of its exact class back as the same object "
               f"({len(pool)} sampled: every scalar leaf of the universe, Any, bare list / dict, enum, Literal, None)",
               not bad, "; ".join(bad[:3]))


def obligations(run, props=True, stream=True, n_groups=None, seed_offset=0):
    """props: re-check Props/C06Heap.v on this run (about 12 s); stream: the `identity` correspondence (quick 24 modules /
    about 2 300 cases / 15 s, thorough 160 modules / about 15 000 cases / 70 s) and the sampled leaf law; seed_offset lets
    several properties draw different modules from one VERIF_SEED."""
    if props:
        run.check_props("Props/C06Heap.v", THEOREMS)
        src = open(os.path.join(lib.THEORIES, "Props", "C06Heap.v")).read()
        missing = [e for e in EXAMPLES if not re.search(r"Example\s+%s\b" % e, src)]
        run.oblige("heap:non-vacuity Examples stated (refinement, frame, freshness, separation, C13 positions)",
                   not missing, "missing: " + ", ".join(missing))
    if stream:
        identity_stream(run, n_groups, seed_offset=seed_offset)
        sample_leaf_same(run)
    run.assumptions += [
        "heap model: object identity is modelled by Model/Heap.v (locations, append-only heap); hmar / hunm re-state the "
        "__call__ bodies of the composite routines and say which object each step returns; tied per run by the `identity` "
        "stream (id() of every container position of two consecutive results, deep snapshot of the input)",
        "heap model: where a LEAF result lives is the hruntime (laws AllocLaws, FreshLaws; proved for the table-driven "
        "allocation place_hr: C06H_place_alloc_laws); the tables are the harness' reading of NoOp / Iterable / Mapping / "
        "Cast routines; identity of scalars (immutable) is not observed",
        "heap model: objects that come out of a scalar (parsed text: strload deep-copies its memo; characters; enumerate's "
        "ints), field-name strs and field defaults are allocated new; a mutable default of a NamedTuple / plain class and "
        "atoms that wrap live containers (mappingproxy) are outside the model",
    ]
