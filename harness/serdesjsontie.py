"""Per-run tie of the C14 runtime instance on the concrete JSON reader (coq/theories/Model/SerdesJson.v).

`obligations(run)` (to be called from `props/c14.py`):

* re-checks `Props/C14Json.v` (Print Assumptions captured on this run);
* stream `serdes-json`: `typelib.serdes.load(carrier)` on /repo vs `Serdes.load (serdes_rt strict ...)` evaluated in Coq
  (vm_compute) -- i.e. C14's model of decode / strload with its JSON decoder and UTF-8 codec replaced by `Json.json_read_strict`
  / `Json.parse_text` / `Json.utf8_dec` (orjson configured; `std_loads` when compat.json is the standard module) -- on the texts
  of the JSON reader stream (emitted by both backends, whitespace-padded, byte-mutated, the malformed pool) in all five
  carriers (str, bytes, bytearray, read-only and writable memoryview).  Whenever the reader accepts, load must return exactly
  that value; when it rejects, load must return what `ast.literal_eval` gives for the decoded text (observed separately and
  handed to the model as a table) or the text itself, or raise UnicodeDecodeError where the bytes are not UTF-8: never a JSON
  reading of non-JSON text.  Floats are compared as "a float" (serdes.load shows no literal).
"""
from __future__ import annotations

import ast
import collections
import json
import warnings

import jsontie
import jsonbackend  # noqa: F401 - VERIF_JSON_BACKEND switch, before typelib is imported
import lib

PROPS = [("Props/C14Json.v", ["C14Json_runtime_laws", "C14Json_carriers", "C14Json_load_json", "C14Json_load_wire",
                              "C14Json_load_rejected", "C14Json_loads_dumps", "C14Json_json_text",
                              "C14Json_rawjson_orjson_same", "C14Json_refuted_rawjson_lenient"])]
COQ_TARGETS = ["theories/Model/SerdesJson.vo", "theories/Props/C14Json.vo"]

HEADER = ("From Coq Require Import List ZArith NArith Bool. Import ListNotations.\n"
          "Require Import TL.Model.Serdes TL.Model.SerdesEq TL.Model.SerdesJson.\n")


def nl(vals) -> str:
    vals = list(vals)
    return "[" + ";".join(f"{v}%N" for v in vals) + "]" if vals else "(@nil N)"


def enc_pv(x) -> str:
    """Python value -> Coq term of type Serdes.pv (what the serdes layer can show)"""
    t = type(x)
    if x is None:
        return "PNone"
    if t is bool:
        return "(PBool true)" if x else "(PBool false)"
    if t is int:
        return f"(PInt ({x})%Z)"
    if t is float:
        return "(PFloatS 3%N)"
    if t is str:
        return f"(PText CStr {nl(ord(c) for c in x)})"
    if t is bytes:
        return f"(PText CBytes {nl(x)})"
    if t is list:
        return "(PList [" + ";".join(enc_pv(e) for e in x) + "])"
    if t is tuple:
        return "(PTuple [" + ";".join(enc_pv(e) for e in x) + "])"
    if t is dict:
        return "(PDict [" + ";".join(f"({enc_pv(k)},{enc_pv(v)})" for k, v in x.items()) + "])"
    if t in (set, frozenset):
        return "(POther 1%N)"
    return "(POther 2%N)"


def kind(ex) -> str:
    for cls, k in ((UnicodeDecodeError, "EUnicode"), (ValueError, "EValue"), (TypeError, "EType"), (SyntaxError, "ESyntax"),
                   (AttributeError, "EAttribute"), (RecursionError, "ERecursion"), (MemoryError, "EMemory")):
        if isinstance(ex, cls):
            return k
    return "EOther"


def res_term(f) -> tuple[str, str]:
    try:
        with warnings.catch_warnings():
            warnings.simplefilter("ignore")
            r = f()
    except Exception as ex:          # noqa: BLE001 - every kind is an observation
        return f"(Raise {kind(ex)})", f"raises {type(ex).__name__}"
    return f"(Ok {enc_pv(r)})", repr(r)[:200]


def texts(run, dist):
    rng = run.rng
    d2 = collections.Counter()
    ws = jsontie.wire_values(run, run.budget(120, 600), run.budget(40, 200), d2)
    bes, js, is_orjson = jsontie.backends()
    emitted = []
    for w in ws:
        for name, code, dumps, tok in bes:
            try:
                emitted.append(dumps(w))
            except Exception:        # noqa: BLE001 - outside the encoder's domain
                pass
    out, seen = [], set()

    def add(b, k):
        b = bytes(b)
        if b not in seen and len(b) <= 600:
            seen.add(b)
            out.append((b, k))
            dist["input:" + k] += 1

    for b in jsontie.MALFORMED:
        add(b, "pool")
    base = list(dict.fromkeys(emitted))
    for b in rng.sample(base, min(len(base), run.budget(150, 900))):
        add(b, "emitted")
    for b in rng.sample(base, min(len(base), run.budget(80, 400))):
        add(jsontie.pad_ws(rng, b), "emitted+whitespace")
    small = [b for b in base if len(b) <= 200] or base
    for _ in range(run.budget(250, 2000)):
        add(jsontie.mutate(rng, rng.choice(small if rng.random() < 0.8 else jsontie.MALFORMED)), "mutated")
    return out, is_orjson


def big_int_or_skip(b, is_orjson) -> str | None:
    """texts whose reading depends on what is outside the model"""
    if is_orjson:
        try:
            v = json.loads(b, parse_float=jsontie.FloatTok, parse_constant=jsontie.FloatTok)
        except (ValueError, RecursionError):
            return None
        if any(type(x) is int and not (jsontie.I64_MIN <= x <= jsontie.U64_MAX) for x in jsontie.walk(v)):
            return "orjson reads a 64-bit-overflowing integer as a float"
        for x in jsontie.walk(v):
            if type(x) is jsontie.FloatTok:
                try:
                    if float(x.s) in (float("inf"), float("-inf")):
                        return "orjson rejects a float literal that overflows"
                except ValueError:
                    pass
        return None
    if not isinstance(b, str) and json.detect_encoding(b) not in ("utf-8", "utf-8-sig"):
        return "json.detect_encoding picks UTF-16/32"
    return None


class _Stub:
    """what the collectors need of a Run, in a child process"""

    def __init__(self, tier, seed):
        import random
        self.tier, self.seed, self.rng = tier, seed, random.Random(seed)

    def budget(self, quick, thorough):
        return thorough if self.tier == "thorough" else quick


def collect(run):
    """run serdes.load on every (text, carrier) under the backend of THIS process -> (terms, descs, dist, is_orjson)"""
    import impl
    from typelib import serdes
    dist = collections.Counter()
    tx, is_orjson = texts(run, dist)
    strict = "true" if is_orjson else "false"
    terms, descs = [], []
    for b, k in tx:
        carriers = [("CBytes", b, lambda: b), ("CBytearray", b, lambda: bytearray(b)), ("CMemviewRO", b, lambda: memoryview(b)),
                    ("CMemviewRW", b, lambda: memoryview(bytearray(b)))]
        try:
            s = b.decode("utf-8", "surrogatepass")
            carriers.append(("CStr", [ord(c) for c in s], lambda: s))
        except UnicodeDecodeError:
            s = None
        for ck, payload, mk in carriers:
            try:
                text = s if ck == "CStr" else b.decode("utf-8")
            except UnicodeDecodeError:
                text = None
            # since C14-strload-decode-first.diff the decoder only ever sees the decoded text
            why = big_int_or_skip(text, is_orjson) if text is not None else None
            if why:
                dist["skipped: " + why] += 1
                continue
            # what ast.literal_eval answers on the decoded text (the abstract part of the runtime, as a table)
            if text is not None:
                lit, _ = res_term(lambda: ast.literal_eval(text))
            else:
                lit = "(Raise EUnmodelled)"          # never asked: decode raises first
            impl.clear_caches()
            obs, shown = res_term(lambda: serdes.load(mk()))
            dist["carrier:" + ck] += 1
            dist["load " + ("raises" if obs.startswith("(Raise") else "returns")] += 1
            terms.append(f"({strict}, {ck}, {nl(payload)}, {lit}, {obs})")
            descs.append({"carrier": ck, "input": repr(b)[:300], "kind": k, "literal_eval": lit[:120], "serdes.load": shown})
    return terms, descs, dict(dist), is_orjson


def evaluate(run, layer, terms, descs, dist, is_orjson):
    per = 300
    shards = {}
    tag = "sj" if layer == "serdes-json" else "sjb"
    for i in range(0, len(terms), per):
        shards[f"cases_{tag}_{i // per:03d}.v"] = (HEADER + "Definition cases : list sjcase :=\n [ " + ";\n  ".join(terms[i:i + per]) +
                                                  " ].\nEval vm_compute in sj_mismatches cases.\nEval vm_compute in sj_accepted cases.\n")
    res = run.coq_eval_many(shards, timeout=900)
    bad, accepted = [], 0
    for name in sorted(shards):
        i = int(name[-5:-2]) * per
        r = res[name]
        if r is None or len(r) < 2:
            run.oblige(f"evaluate:{name}", False, "model evaluation did not compile")
            bad += list(range(i, min(i + per, len(terms))))
            continue
        bad += [i + j for j in lib.parse_nat_list(r[0])]
        accepted += int(r[1].replace("%nat", "").strip())
    run.record_corr(layer, len(terms), [descs[i] for i in bad], accepted,
                    dict(dist) | {"backend": "orjson (strict reader)" if is_orjson else "json (lenient reader)",
                                  "rule": "one case = (text, carrier): serdes.load on the code under test vs Serdes.load on the runtime whose JSON "
                                          "decoder / UTF-8 codec are Model/Json.v's, ast.literal_eval from a per-case table; value or exception "
                                          "kind; non-trivial = the model's JSON reader accepted the decoded text"})


def obligations(run, both: bool | None = None):
    """`both`: also run the stream under the OTHER backend in a child process (default: thorough tier, or VERIF_JSON_BOTH=1)"""
    import os
    import subprocess
    import sys
    for rel, thms in PROPS:
        if os.path.exists(os.path.join(lib.THEORIES, rel)):
            run.check_props(rel, thms)
        else:
            run.oblige(f"props:{rel} exists", False, "file missing")
    terms, descs, dist, is_orjson = collect(run)
    evaluate(run, "serdes-json", terms, descs, dist, is_orjson)
    if both is None:
        both = run.tier == "thorough" or os.environ.get("VERIF_JSON_BOTH") == "1"
    if both and is_orjson:
        # the fallback backend (orjson not importable): same stream in a child process with VERIF_JSON_BACKEND=stdlib
        env = dict(os.environ, VERIF_JSON_BACKEND="stdlib")
        p = subprocess.run([sys.executable, os.path.abspath(__file__), "--collect", run.tier, str(run.seed)], env=env,
                           capture_output=True, text=True, timeout=3000)
        ok = p.returncode == 0
        data = None
        if ok:
            try:
                data = json.loads(p.stdout.split("\n@@SERDESJSON@@\n", 1)[1])
            except (IndexError, ValueError):
                ok = False
        run.oblige("tie:serdes-json stream collected under the standard json backend (VERIF_JSON_BACKEND=stdlib, child process)",
                   ok and data is not None and not data["is_orjson"], (p.stderr or p.stdout)[-400:] if not ok else "")
        if ok and data is not None:
            evaluate(run, "serdes-json[stdlib backend]", data["terms"], data["descs"], data["dist"], data["is_orjson"])
    elif both:
        run.notes.append("serdes-json: orjson is not importable here, the stream ran under the standard json backend only")
    run.assumptions += [
        "C14/json: Props/C14Json.v proves Serdes.RuntimeLaws (but for ast.literal_eval's documented exception kinds) for the runtime "
        "built from Model/Json.v under BOTH backends (orjson's strict reader, json.loads' lenient one): strload hands the decoder text "
        "only (C14-strload-decode-first.diff); repr and the float conversion stay abstract; the code before that repair is refuted for "
        "the json.loads backend (C14Json_refuted_rawjson_lenient: UTF-8 signature in bytes) and proved unchanged for orjson",
    ]


if __name__ == "__main__":
    import sys
    if len(sys.argv) == 4 and sys.argv[1] == "--collect":
        stub = _Stub(sys.argv[2], int(sys.argv[3]))
        t, d, ds, io = collect(stub)
        print("\n@@SERDESJSON@@\n" + json.dumps({"terms": t, "descs": d, "dist": ds, "is_orjson": io}))
