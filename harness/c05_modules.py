"""C05, round 4: equal class names in DIFFERENT MODULES combined with REVISITS (cycles / diamonds) in one type graph.

The property names the region ("equal class names in different modules, or one type reachable through several
paths"); the streams had each half on its own: `cross_module` (two modules, nothing revisited on both sides) and the
random / diamond environments (revisits, one module).  A type that is met more than once in one walk of
graph.get_type_graph is deferred BY NAME (ForwardRef(qualname, module=...)); whatever interns, caches or keys such a
reference without the module confuses two classes only when both are deferred in the same walk.

One group = one class environment spread over 2 or 3 synthesised modules + a main module:
  * every module defines classes under the SAME Python names (Node, Item, Leaf, Part, and NodePeer ...), with the same
    field names but different field types (value: int / str / Decimal, when: date / str / datetime) and rotating flavours;
  * each (module, name) class has one of the REVISIT SHAPES: self-reference through Optional / list / dict, mutual
    recursion with a same-named peer class, diamond (the root mentions it twice), or met once (control);
  * the main module binds every class as N<id> (`from sub import Node as N3`), so that descriptions, the registry
    (class object -> id) and the Coq model (classes by id) are module-exact: the model cannot confuse the two Nodes;
  * roots put one class of each module into ONE graph: a holder class in the main module, a holder class defined in
    the last module (next to its own Node), a fixed tuple, a list of tuples with the modules in reverse order, a
    mapping to the union of the same-named classes.
Enumeration: every ordered pair of revisit shapes (6 x 6, both revisited / only one / none) in the quick tier, triples
over three modules, every root form for every pair in the thorough tier.

`coremodel.Group` synthesises one module per group; MGroup keeps its constructor and swaps the two functions it
calls (`materialise`, `Registry`) for the multi-module versions while it runs (coremodel.py itself is not edited).
"""
from __future__ import annotations

import contextlib
import copy
import datetime
import decimal
import itertools
import json
import re
import typing

import coregen
import coremodel
import coreprop
import impl
import universe
from universe import cname

PYNAMES = ["Node", "Item", "Leaf", "Part"]
SHAPES = ["self-opt", "self-list", "self-dict", "mutual", "diamond", "once"]
VALUE_T = ["int", "str", "Decimal"]
WHEN_T = ["date", "str", "datetime"]
FLAVOURS = ["dataclass", "plain", "namedtuple", "typeddict"]
ROOT_FORMS = ["holder-main", "holder-in-last", "tuple", "list-of-reversed-tuple", "dict-of-union"]
L = lambda k: ("leaf", k)
OPT = lambda t: ("union", "Optional", [t, ("none",)])
LIST = lambda t: ("seq", "KList", "list[{}]", t)
DICT = lambda t: ("map", "KDict", "dict[{}, {}]", L("str"), t)


# ----------------------------------------------------------------------------------
# description of one module set
# ----------------------------------------------------------------------------------

def make_spec(gi, shapes_per_slot, forms_per_slot, nmod, flavour_shift=0):
    """shapes_per_slot[s] = tuple of nmod revisit shapes (module j's class named PYNAMES[s]).
    -> spec dict: env (all classes, ids), placement {id: module index | 'main'}, pyname {id: name}, roots, meta"""
    defs, placement, pyname = {}, {}, {}
    ids = itertools.count(0)
    entry = {}                      # (slot, j) -> annotation by which a root reaches the class
    for s, shapes in enumerate(shapes_per_slot):
        for j in range(nmod):
            c = next(ids)
            fl = FLAVOURS[(gi + s + j + flavour_shift) % 4]
            fields = [("value", L(VALUE_T[j]), None), ("when", L(WHEN_T[(j + s) % 3]), None)]
            sh = shapes[j]
            me = ("name", c)
            if sh == "self-opt":
                fields.append(("next", OPT(me), "None" if fl != "typeddict" else None))
            elif sh == "self-list":
                fields.append(("kids", LIST(me), None))
            elif sh == "self-dict":
                fields.append(("kids", DICT(me), None))
            elif sh == "mutual":
                p = next(ids)
                fields.append(("peer", OPT(("name", p)), None))
                defs[p] = ("class", FLAVOURS[(gi + j) % 2], "", [("tag", L(VALUE_T[(j + 1) % 3]), None), ("back", OPT(me), None)])
                placement[p], pyname[p] = j, PYNAMES[s] + "Peer"
            defs[c] = ("class", fl, "", fields)
            placement[c], pyname[c] = j, PYNAMES[s]
            entry[(s, j)] = me if sh != "diamond" else ("tuple", "tuple[{}]", [me, LIST(me)])
    # python wants the peer defined... either order works (later names are written as strings); keep ids ascending
    defs = dict(sorted(defs.items()))
    roots, meta = [], []
    for s, shapes in enumerate(shapes_per_slot):
        es = [entry[(s, j)] for j in range(nmod)]
        for form in forms_per_slot[s]:
            if form == "dict-of-union" and any(e[0] != "name" for e in es):
                form = "tuple"
            if form in ("holder-main", "holder-in-last"):
                h = next(ids)
                defs[h] = ("class", "dataclass", "", [(f"m{j}", es[j], None) for j in range(nmod)])
                placement[h] = "main" if form == "holder-main" else nmod - 1      # next to the last module's own classes
                pyname[h] = f"Holder{s}"
                r = ("name", h)
            elif form == "tuple":
                r = ("tuple", "tuple[{}]", list(es))
            elif form == "list-of-reversed-tuple":
                r = LIST(("tuple", "tuple[{}]", list(reversed(es))))
            else:
                r = DICT(("union", "Union", list(es)))
            roots.append(r)
            meta.append({"slot": PYNAMES[s], "shapes": list(shapes), "form": form,
                         "both_revisited": sum(1 for x in shapes if x != "once") >= 2})
    return {"env": {"module": None, "defs": defs}, "placement": placement, "pyname": pyname, "roots": roots,
            "meta": meta, "nmod": nmod}


# ----------------------------------------------------------------------------------
# materialisation over several modules
# ----------------------------------------------------------------------------------

def _materialise(spec, main_name):
    """-> (main module, python types of the roots, source text of all modules); main binds every class as N<id>"""
    env, placement, pyname, roots = spec["env"], spec["placement"], spec["pyname"], spec["roots"]
    nmod = spec["nmod"]
    universe.canonicalise_unions(env, roots)
    for f in getattr(typing, "_cleanups", ()):
        f()
    subnames = [f"{main_name}_p{j}" for j in range(nmod)]
    where = lambda n: subnames[placement[n]] if placement[n] != "main" else main_name
    texts = []
    for j in range(nmod):
        mine = {n: d for n, d in env["defs"].items() if placement.get(n) == j}
        src = universe.module_source({"module": subnames[j], "defs": mine}, [])

        def ren(m, j=j):
            n = int(m.group(1))
            if n not in pyname:
                return m.group(0)
            return pyname[n] if placement[n] == j else f"{where(n)}.{pyname[n]}"
        src = re.sub(r"\bN(\d+)\b", ren, src)
        imports = "".join(f"import {subnames[k]}\n" for k in range(j))     # a module may name classes of earlier modules
        src = imports + src
        impl.new_module(subnames[j], src)
        texts.append(f"# ---- module {subnames[j]}\n{src}")
    mine = {n: d for n, d in env["defs"].items() if placement.get(n, "main") == "main"}
    src = universe.module_source({"module": main_name, "defs": mine}, roots)
    binds = "".join(f"import {s}\n" for s in subnames)
    binds += "".join(f"from {where(n)} import {pyname[n]} as {cname(n)}\n"
                     for n, d in env["defs"].items() if d[0] == "class" and placement[n] != "main")
    assert src.startswith(universe.PRELUDE)
    src = universe.PRELUDE + binds + src[len(universe.PRELUDE):]
    mod = impl.new_module(main_name, src)
    texts.append(f"# ---- module {main_name}\n{src}")
    tys = [eval(universe.src_ty(r, env), mod.__dict__) for r in roots]
    return mod, tys, "\n".join(texts), subnames


class MRegistry(universe.Registry):
    """module-exact reverse lookup: a ForwardRef(name, module=M) of the observed graph is the class bound to that
    name IN M -- never "the class called name" (the stock registry has one module and reads the id off N<id>)"""

    by_name: dict = {}

    def desc_of(self, py):
        if isinstance(py, typing.ForwardRef):
            arg, mod = py.__forward_arg__, getattr(py, "__forward_module__", None)
            if "." in arg and arg.rsplit(".", 1)[0] in self.modules:
                mod, arg = arg.rsplit(".", 1)
            n = self.by_name.get((mod, arg))
            if n is not None:
                return ("ref", n, "fwd")
        return super().desc_of(py)


class MGroup(coremodel.Group):
    def __init__(self, spec, suppressed):
        self.spec = spec = copy.deepcopy(spec)
        main = spec["env"]["module"] = spec["env"]["module"] or coregen.new_module_name("mm")
        box = {}

        def materialise(env, roots):
            spec["env"], spec["roots"] = env, roots            # the private copies Group.__init__ made
            mod, tys, src, subs = _materialise(spec, main)
            box["subs"] = subs
            return mod, tys, src

        def registry(env, mod):
            reg = MRegistry(env, mod)
            reg.modules = set(box["subs"]) | {main}
            reg.by_name = {}
            for n, d in env["defs"].items():
                if d[0] == "class":
                    pl = spec["placement"][n]
                    m = main if pl == "main" else box["subs"][pl]
                    reg.by_name[(m, spec["pyname"][n] if pl != "main" else cname(n))] = n
                    reg.by_name[(main, cname(n))] = n
            return reg

        with _swapped(coremodel, materialise=materialise, Registry=registry):
            super().__init__(spec["env"], spec["roots"], suppressed)
        self.submodules = box["subs"]
        self.meta = spec["meta"]

    def close(self):
        super().close()
        for s in self.submodules:
            impl.drop_module(s)


@contextlib.contextmanager
def _swapped(module, **names):
    old = {k: getattr(module, k) for k in names}
    try:
        for k, v in names.items():
            setattr(module, k, v)
        yield
    finally:
        for k, v in old.items():
            setattr(module, k, v)


# ----------------------------------------------------------------------------------
# values: a valid instance AND a plain source of the same structure, with every revisit actually taken
# ----------------------------------------------------------------------------------

class Builder:
    def __init__(self, g):
        self.g = g
        self.k = itertools.count(1)

    def leaf(self, key):
        i = next(self.k)
        if key == "int":
            return i, str(i)
        if key == "str":
            return f"s{i}", 100 + i
        if key == "Decimal":
            return decimal.Decimal(f"{i}.50"), f"{i}.25"
        if key == "date":
            return datetime.date(2020, 1, 1 + i % 27), f"2021-02-{1 + i % 27:02d}"
        if key == "datetime":
            return (datetime.datetime(2020, 1, 2, 3, 4, i % 60, tzinfo=datetime.timezone.utc),
                    f"2021-02-03T04:05:{i % 60:02d}+00:00")
        raise ValueError(key)

    def build(self, t, budget):
        k = t[0]
        if k == "leaf":
            return self.leaf(t[1])
        if k == "none":
            return None, None
        if k == "seq":
            items = [self.build(t[3], budget - i) for i in range(2 if budget > 0 else 0)]
            return [a for a, _ in items], [b for _, b in items]
        if k == "map":
            items = [(f"k{i}", self.build(t[4], budget - i)) for i in range(2 if budget > 0 else 0)]
            return {key: a for key, (a, _) in items}, {key: b for key, (_, b) in items}
        if k == "tuple":
            items = [self.build(x, budget) for x in t[2]]
            return tuple(a for a, _ in items), [b for _, b in items]
        if k == "union":
            ms = [m for m in t[2] if m != ("none",)]
            if ("none",) in t[2] and budget <= 0:
                return None, None
            return self.build(ms[next(self.k) % len(ms)], budget)
        if k == "name":
            d = self.g.env["defs"][t[1]]
            cls = getattr(self.g.mod, cname(t[1]))
            kw, src = {}, {}
            for fn, ft, _ in d[3]:
                kw[fn], src[fn] = self.build(ft, budget - 1)
            return cls(**kw), src
        raise ValueError(t)


def pool(value, src, wire):
    out = [("valid", value), ("plain-source", src)]
    if coregen.jsonable(src):
        out.append(("json", json.dumps(src)))
    if isinstance(src, dict) and src:
        out.append(("pairs", [(k, v) for k, v in src.items()]))
    if wire is not None:
        out.append(("wire", wire))
    return out


# ----------------------------------------------------------------------------------
# the enumeration
# ----------------------------------------------------------------------------------

def specs(run):
    thorough = run.tier == "thorough"
    pairs = [(a, b) for a in SHAPES for b in SHAPES]            # 36 ordered pairs: both / one / none revisited
    out, gi = [], 0
    nslots = len(PYNAMES)
    forms_all = ROOT_FORMS
    for i in range(0, len(pairs), nslots):
        chunk = pairs[i:i + nslots]
        if thorough:
            forms = [list(forms_all) for _ in chunk]
        else:
            forms = [[forms_all[(gi + s) % 2], forms_all[2 + (gi + s) % 3]] for s in range(len(chunk))]
        out.append(make_spec(gi, chunk, forms, 2))
        gi += 1
    # three modules: all revisited in rotating shapes / exactly one not
    rev = [s for s in SHAPES if s != "once"]
    triples = [(rev[i % 5], rev[(i + 1) % 5], rev[(i + 3) % 5]) for i in range(5)] + \
              [("once", "self-opt", "mutual"), ("self-list", "once", "diamond"), ("diamond", "self-dict", "once")]
    for i in range(0, len(triples), nslots):
        chunk = triples[i:i + nslots]
        forms = [list(forms_all) if thorough else [forms_all[(gi + s) % 2], forms_all[2 + (gi + s + 1) % 3]]
                 for s in range(len(chunk))]
        out.append(make_spec(gi, chunk, forms, 3, flavour_shift=1))
        gi += 1
    if thorough:                       # the pairs once more with the flavours rotated
        for i in range(0, len(pairs), nslots):
            chunk = pairs[i:i + nslots]
            out.append(make_spec(gi, chunk, [[forms_all[(gi + s) % 5]] for s in range(len(chunk))], 2, flavour_shift=2))
            gi += 1
    return out


def generate(run):
    """-> (groups, records, dist); records are coreprop.Record (value, wire, inputs) like the random stream's"""
    sup = coreprop.suppressed()
    groups, records = [], []
    dist = {"module_sets": 0, "modules": 0, "roots": 0, "roots_with_two_or_more_same_named_classes_revisited": 0,
            "shape_tuples": set(), "cases": 0, "forms": {}}
    for spec in specs(run):
        g = MGroup(spec, sup)
        groups.append(g)
        dist["module_sets"] += 1
        dist["modules"] += spec["nmod"] + 1
        for ri, r in enumerate(g.roots):
            m = g.meta[ri]
            dist["roots"] += 1
            dist["roots_with_two_or_more_same_named_classes_revisited"] += m["both_revisited"]
            dist["shape_tuples"].add(tuple(m["shapes"]))
            dist["forms"][m["form"]] = dist["forms"].get(m["form"], 0) + 1
            b = Builder(g)
            for budget in ((3, 2) if run.tier == "thorough" else (3,)):
                value, src = b.build(r, budget)
                rec = coreprop.Record(g, ri, value)
                rec.wire = g.add("m", ri, value)
                rec.case_index["m"] = len(g.cases) - 1
                for tag, x in pool(value, src, rec.wire[1] if rec.wire[0] == "ok" else None):
                    rec.inputs.append((tag, x, g.add("u", ri, x)))
                records.append(rec)
        dist["cases"] += len(g.cases)
    dist["shape_tuples"] = len(dist["shape_tuples"])
    return groups, records, dist


def rebuild(payload_spec, suffix="_replay"):
    """a spec as written into a replay file -> MGroup"""
    def tup(x):
        if isinstance(x, list):
            return tuple(tup(y) for y in x) if (x and isinstance(x[0], str)) else [tup(y) for y in x]
        return x
    key = lambda k: int(k) if isinstance(k, str) and k.isdigit() else k
    spec = {"env": {"module": payload_spec["env"]["module"].split(suffix)[0] + suffix,
                    "defs": {key(k): tup(v) for k, v in payload_spec["env"]["defs"].items()}},
            "placement": {key(k): v for k, v in payload_spec["placement"].items()},
            "pyname": {key(k): v for k, v in payload_spec["pyname"].items()},
            "roots": [tup(r) for r in payload_spec["roots"]], "meta": payload_spec.get("meta") or [{}] * len(payload_spec["roots"]),
            "nmod": payload_spec["nmod"]}
    return MGroup(spec, coreprop.suppressed())


def spec_json(g, roots=None):
    s = g.spec
    return {"env": {"module": s["env"]["module"], "defs": {str(k): v for k, v in s["env"]["defs"].items()}},
            "placement": {str(k): v for k, v in s["placement"].items()},
            "pyname": {str(k): v for k, v in s["pyname"].items()},
            "roots": roots if roots is not None else s["roots"], "nmod": s["nmod"]}
