"""Shared driver for the properties that live on the core value model (Model/Core.v):
C01 C03 C05 C06 C07 C11 C13 C15.

`generate(run, ...)` draws groups (one synthesised module each: enums, classes, aliases + root annotations),
runs the implementation on marshal / unmarshal cases, collects the runtime tables through the Python mirror,
and returns the open groups together with per-case records so that a property's own oracle can re-use the
very same (type, value, input) triples.  `correspond_core(run, groups, tag)` evaluates the Coq model on them.
"""
from __future__ import annotations

import json
import random

import coregen
import coremodel
import impl

_SUP = None


def suppressed():
    global _SUP
    if _SUP is None:
        _SUP = coremodel.measure_suppressed()
    return _SUP


class Record:
    """one generated (group, root, valid value) with everything observed for it"""
    __slots__ = ("group", "ri", "tdesc", "pytype", "value", "wire", "inputs", "case_index")

    def __init__(self, group, ri, value):
        self.group, self.ri, self.value = group, ri, value
        self.tdesc = group.roots[ri]
        self.pytype = group.pytys[ri]
        self.wire = None          # ('ok', wire) | ('raise', kind)
        self.inputs = []          # (tag, input object, ('ok', result) | ('raise', kind))
        self.case_index = {}


def make_env(rng, gi, cyclic_every=3, ncls=None, depth=2):
    return coregen.gen_env(rng, ncls=ncls if ncls is not None else rng.randint(1, 3),
                           cyclic=(cyclic_every and gi % cyclic_every == cyclic_every - 1), depth=depth)


def generate(run, n_groups, seed_offset=0, values_per_root=3, extra_roots=3, cyclic_every=3, depth=2,
             env_fn=None, roots_fn=None, with_pool=True, value_depth=3):
    rng = random.Random(run.seed * 1000 + seed_offset)
    sup = suppressed()
    groups, records = [], []
    for gi in range(n_groups):
        env = env_fn(rng, gi) if env_fn else make_env(rng, gi, cyclic_every, depth=depth)
        classes = [n for n, d in env["defs"].items() if d[0] in ("class", "alias")]
        if roots_fn:
            roots = roots_fn(rng, env, classes)
        else:
            roots = [("name", n) for n in classes] + [coregen.gen_ty(rng, env, depth) for _ in range(extra_roots)]
        g = coremodel.Group(env, roots, sup)
        for ri, r in enumerate(roots):
            for _ in range(values_per_root):
                try:
                    v = coregen.gen_value(rng, r, env, g.mod, depth=value_depth)
                except RecursionError:
                    continue
                rec = Record(g, ri, v)
                rec.wire = g.add("m", ri, v)
                rec.case_index["m"] = len(g.cases) - 1
                if with_pool:
                    wire = rec.wire[1] if rec.wire[0] == "ok" else None
                    for tag, x in coregen.input_pool(rng, v, wire):
                        obs = g.add("u", ri, x)
                        rec.inputs.append((tag, x, obs))
                records.append(rec)
        groups.append(g)
    return groups, records


def correspond_core(run, groups, tag, layer="core-unm-mar", strict=False):
    bad = coremodel.evaluate_groups(run, groups, tag, strict=strict)
    ncases = sum(len(g.cases) for g in groups)
    distinct = len({(g.env["module"], c[0], c[1], c[2]) for g in groups for c in g.cases})
    raised = sum(1 for g in groups for c in g.cases if "Raise" in c[3])
    dist = {"groups": len(groups), "marshal_cases": sum(1 for g in groups for c in g.cases if c[0] == "m"),
            "unmarshal_cases": sum(1 for g in groups for c in g.cases if c[0] == "u"),
            "observed_raise": raised, "observed_ok": ncases - raised}
    run.record_corr(layer, ncases, [g.cases[i][4] for g, i in bad], distinct, dist)
    if groups and groups[0].cases:
        run.samples.append(groups[0].cases[0][4])
    return bad


def close(groups):
    for g in groups:
        g.close()


def same(a, b) -> bool:
    """deep equality with the same runtime class at every position"""
    if type(a) is not type(b):
        return False
    if isinstance(a, dict):
        # keys with their classes too: {1: x} and {True: x} are == but not the same value
        return len(a) == len(b) and all(same(ka, kb) and same(a[ka], b[kb]) for ka, kb in zip(a.keys(), b.keys()))
    if isinstance(a, (list, tuple)) or type(a).__name__ == "deque":
        return len(a) == len(b) and all(same(x, y) for x, y in zip(a, b))
    if isinstance(a, (set, frozenset)):
        return len(a) == len(b) and all(any(same(x, y) for y in b) for x in a)
    import dataclasses
    if dataclasses.is_dataclass(a) and not isinstance(a, type):
        return all(same(getattr(a, f.name), getattr(b, f.name)) for f in dataclasses.fields(a))
    if hasattr(a, "__dict__") and type(a).__module__.startswith("verif_core"):
        return vars(a).keys() == vars(b).keys() and all(same(vars(a)[k], vars(b)[k]) for k in vars(a))
    import datetime
    if isinstance(a, (datetime.datetime, datetime.time)):
        return a == b and a.utcoffset() == b.utcoffset()
    return a == b
