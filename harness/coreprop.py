"""Shared driver for the properties that live on the core value model (Model/Core.v):
C01 C03 C05 C06 C07 C11 C13 C15.

`generate(run, ...)` draws groups (one synthesised module each: enums, classes, aliases + root annotations),
runs the implementation on marshal / unmarshal cases, collects the runtime tables through the Python mirror,
and returns the open groups together with per-case records so that a property's own oracle can re-use the
very same (type, value, input) triples.  `correspond_core(run, groups, tag)` evaluates the Coq model on them.
"""
from __future__ import annotations

import json
import random

import coregen
import coremodel
import impl

_SUP = None


def suppressed():
    global _SUP
    if _SUP is None:
        _SUP = coremodel.measure_suppressed()
    return _SUP


class Record:
    """one generated (group, root, valid value) with everything observed for it"""
    __slots__ = ("group", "ri", "tdesc", "pytype", "value", "wire", "inputs", "case_index")

    def __init__(self, group, ri, value):
        self.group, self.ri, self.value = group, ri, value
        self.tdesc = group.roots[ri]
        self.pytype = group.pytys[ri]
        self.wire = None          # ('ok', wire) | ('raise', kind)
        self.inputs = []          # (tag, input object, ('ok', result) | ('raise', kind))
        self.case_index = {}


def make_env(rng, gi, cyclic_every=3, ncls=None, depth=2):
    return coregen.gen_env(rng, ncls=ncls if ncls is not None else rng.randint(1, 3),
                           cyclic=(cyclic_every and gi % cyclic_every == cyclic_every - 1), depth=depth)


# ----------------------------------------------------------------------------------
# stratum "hash-order": set / frozenset / dict-key positions whose member converts to an UNHASHABLE value
# (list[int], dict[str, int], a non-frozen dataclass with eq).  The code hands a generator to set / frozenset / dict,
# so the element (key) is hashed as soon as it is produced: an unhashable result is a TypeError BEFORE a later member
# is converted.  Inputs: (a) every member converts, (b) a LATER member fails with ValueError (the corner where
# "convert every member, then hash" reports the ValueError and the code the TypeError), (c) an EARLIER member fails,
# (s) the value of the same pair fails (key, value, THEN the key is hashed).  Both directions.
# ----------------------------------------------------------------------------------
HASH_ORDER = True


def hash_order_group(run, rng, sup):
    import collections
    import json as _json
    LI = ("seq", "KList", "list[{}]", ("leaf", "int"))
    DI = ("map", "KDict", "dict[{}, {}]", ("leaf", "str"), ("leaf", "int"))
    INT = ("leaf", "int")
    env = {"module": coregen.new_module_name("h"), "defs": {
        0: ("class", "dataclass", "", [("a", INT, None)]),                  # eq without frozen: __hash__ is None
        1: ("class", "dataclass", "frozen=True", [("a", INT, None)]),      # hashable instances; marshals to a dict
    }}
    set_sp = rng.choice(["set[{}]", "typing.Set[{}]", "typing.AbstractSet[{}]"])
    fs_sp = rng.choice(["frozenset[{}]", "typing.FrozenSet[{}]"])
    d_sp = rng.choice(["dict[{}, {}]", "typing.Dict[{}, {}]", "typing.Mapping[{}, {}]"])
    u_roots = [("seq", "KSet", set_sp, LI), ("seq", "KFrozenset", fs_sp, LI), ("seq", "KSet", "set[{}]", DI),
               ("seq", "KFrozenset", "frozenset[{}]", ("name", 0)),
               ("map", "KDict", d_sp, LI, INT), ("map", "KOrderedDict", "collections.OrderedDict[{}, {}]", ("name", 0), INT),
               ("map", "KDict", "dict[{}, {}]", DI, LI)]
    m_roots = [("map", "KDict", d_sp, ("seq", "KTuple", "tuple[{}, ...]", INT), INT),
               ("map", "KDict", "dict[{}, {}]", ("name", 1), INT),
               ("map", "KOrderedDict", "typing.OrderedDict[{}, {}]", ("seq", "KFrozenset", "frozenset[{}]", INT), INT)]
    g = coremodel.Group(env, u_roots + m_roots, sup)
    g.stratum = "hash-order"
    g.strict_kinds = True      # the corner IS the exception kind (TypeError of the hash vs the later member's ValueError)
    i1, i2, i3 = rng.sample(range(1, 50), 3)

    def member(t, i, bad=False):          # a wire member converting to an unhashable value / failing with ValueError
        v = "x" if bad else i
        return [v] if t == LI else {"k": v} if t == DI else {"a": v}

    def put(direction, ri, x, sub):
        g.add(direction, ri, x)
        g.cases[-1][4]["stratum"] = "hash-order:" + sub

    for ri, r in enumerate(u_roots):
        if r[0] == "seq":
            t = r[3]
            a, b, c = member(t, i1), member(t, i2), member(t, i3)
            bad = member(t, 0, True)
            put("u", ri, [], "empty")
            put("u", ri, [a, b], "a")
            put("u", ri, [a, bad], "b")
            put("u", ri, [a, b, bad, c], "b")
            put("u", ri, _json.dumps([a, bad]), "b")
            put("u", ri, (a, bad), "b")
            put("u", ri, [bad, a], "c")
        else:
            kt, vt = r[3], r[4]
            k1, k2, kbad = member(kt, i1), member(kt, i2), member(kt, 0, True)
            v1, v2, vbad = (i1, i2, "x") if vt == INT else (member(vt, i1), member(vt, i2), member(vt, 0, True))
            put("u", ri, [], "empty")
            put("u", ri, [[k1, v1], [k2, v2]], "a")
            put("u", ri, [[k1, v1], [k2, vbad]], "b")
            put("u", ri, [[k1, v1], [kbad, v2]], "b")
            put("u", ri, _json.dumps([[k1, v1], [k2, vbad]]), "b")
            put("u", ri, [[kbad, v1], [k1, v2]], "c")
            put("u", ri, [[k1, vbad]], "s")
    C1 = getattr(g.mod, coregen.cname(1))
    for j, r in enumerate(m_roots):
        ri = len(u_roots) + j
        kt = r[3]
        mk = ((lambda v: (v,)) if kt[0] == "seq" and kt[1] == "KTuple" else
              (lambda v: frozenset([v])) if kt[0] == "seq" else (lambda v: C1(a=v)))
        D = collections.OrderedDict if r[1] == "KOrderedDict" else dict
        k1, k2, kbad = mk(i1), mk(i2), mk("x")
        put("m", ri, D(), "empty")
        put("m", ri, D([(k1, i1), (k2, i2)]), "a")
        put("m", ri, D([(k1, i1), (k2, "x")]), "b")
        put("m", ri, D([(k1, i1), (kbad, i2)]), "b")
        put("m", ri, D([(k1, i1), (k2, i2), (mk(i3), "x")]), "b")
        put("m", ri, D([(kbad, i1), (k1, i2)]), "c")
        put("m", ri, D([(k1, "x")]), "s")
    return g


def hash_order_dist(groups):
    out = {}
    for g in groups:
        if getattr(g, "stratum", None) == "hash-order":
            for c in g.cases:
                key = "hash_order_" + c[4].get("stratum", "hash-order:?").split(":")[1] + "_" + c[0]
                out[key] = out.get(key, 0) + 1
                if "EType" in c[3]:
                    out["hash_order_observed_TypeError"] = out.get("hash_order_observed_TypeError", 0) + 1
    if out:
        out["hash_order_cases"] = sum(v for k, v in out.items() if k != "hash_order_observed_TypeError")
    return out


def generate(run, n_groups, seed_offset=0, values_per_root=3, extra_roots=3, cyclic_every=3, depth=2,
             env_fn=None, roots_fn=None, with_pool=True, value_depth=3, hash_order=None):
    rng = random.Random(run.seed * 1000 + seed_offset)
    sup = suppressed()
    groups, records = [], []
    for gi in range(n_groups):
        env = env_fn(rng, gi) if env_fn else make_env(rng, gi, cyclic_every, depth=depth)
        classes = [n for n, d in env["defs"].items() if d[0] in ("class", "alias")]
        if roots_fn:
            roots = roots_fn(rng, env, classes)
        else:
            roots = [("name", n) for n in classes] + [coregen.gen_ty(rng, env, depth) for _ in range(extra_roots)]
        g = coremodel.Group(env, roots, sup)
        for ri, r in enumerate(roots):
            for _ in range(values_per_root):
                try:
                    v = coregen.gen_value(rng, r, env, g.mod, depth=value_depth)
                except RecursionError:
                    continue
                rec = Record(g, ri, v)
                rec.wire = g.add("m", ri, v)
                rec.case_index["m"] = len(g.cases) - 1
                if with_pool:
                    wire = rec.wire[1] if rec.wire[0] == "ok" else None
                    for tag, x in coregen.input_pool(rng, v, wire):
                        obs = g.add("u", ri, x)
                        rec.inputs.append((tag, x, obs))
                records.append(rec)
        groups.append(g)
    if (HASH_ORDER if hash_order is None else hash_order) and with_pool and n_groups:
        # no Record: the properties' own oracles work on valid values; these groups carry correspondence cases only
        groups.append(hash_order_group(run, random.Random(run.seed * 1000 + seed_offset + 77), sup))
    return groups, records


def correspond_core(run, groups, tag, layer="core-unm-mar", strict=False):
    bad = coremodel.evaluate_groups(run, groups, tag, strict=strict)
    ncases = sum(len(g.cases) for g in groups)
    distinct = len({(g.env["module"], c[0], c[1], c[2]) for g in groups for c in g.cases})
    raised = sum(1 for g in groups for c in g.cases if "Raise" in c[3])
    dist = {"groups": len(groups), "marshal_cases": sum(1 for g in groups for c in g.cases if c[0] == "m"),
            "unmarshal_cases": sum(1 for g in groups for c in g.cases if c[0] == "u"),
            "observed_raise": raised, "observed_ok": ncases - raised}
    dist.update(hash_order_dist(groups))
    run.record_corr(layer, ncases, [g.cases[i][4] for g, i in bad], distinct, dist)
    if groups and groups[0].cases:
        run.samples.append(groups[0].cases[0][4])
    return bad


def close(groups):
    for g in groups:
        g.close()


def same(a, b) -> bool:
    """deep equality with the same runtime class at every position"""
    if type(a) is not type(b):
        return False
    if isinstance(a, dict):
        # keys with their classes too: {1: x} and {True: x} are == but not the same value
        return len(a) == len(b) and all(same(ka, kb) and same(a[ka], b[kb]) for ka, kb in zip(a.keys(), b.keys()))
    if isinstance(a, (list, tuple)) or type(a).__name__ == "deque":
        return len(a) == len(b) and all(same(x, y) for x, y in zip(a, b))
    if isinstance(a, (set, frozenset)):
        return len(a) == len(b) and all(any(same(x, y) for y in b) for x in a)
    import dataclasses
    if dataclasses.is_dataclass(a) and not isinstance(a, type):
        return all(same(getattr(a, f.name), getattr(b, f.name)) for f in dataclasses.fields(a))
    if hasattr(a, "__dict__") and type(a).__module__.startswith("verif_core"):
        return vars(a).keys() == vars(b).keys() and all(same(vars(a)[k], vars(b)[k]) for k in vars(a))
    import datetime
    if isinstance(a, (datetime.datetime, datetime.time)):
        return a == b and a.utcoffset() == b.utcoffset()
    return a == b
