"""Per-run tie of the Python-literal model (coq/theories/Model/PyLiteral.v) to the interpreter and to serdes.strload.

`obligations(run)` is meant to be called from `props/c14.py` (prove or correspond).  On every run it

* re-checks the theorem file `PROPS` (Print Assumptions captured on this run);
* reflect: reads `str.isprintable` of every code point from 0x7f from the interpreter into `GenPrintable.v`
  (the ranges of non-printable code points) -- the only table the writer model consults;
* `literal-writer`: `PyLiteral.py_repr` (vm_compute, with that table) against `repr(v)` for generated values -- every
  escape class, both quote styles, non-printable / unassigned / private-use / astral characters, lone surrogates,
  big ints, floats (as the token repr prints), nested and empty containers, one-tuples, sets (in iteration order),
  dicts with non-str keys -- and, on each value inside the guard, the conclusion of the round-trip theorem; the float
  law "repr of a finite float is a JSON number with a fraction or an exponent" is decided on every float generated;
* `literal-reader`: `PyLiteral.literal_read` against `ast.literal_eval` on the emitted language, whitespace /
  newline / trailing-comma / bare-tuple variants, character-level mutations and a pool of malformed or exotic texts:
  accept / reject must agree and so must the value.  Texts CPython accepts through a feature outside the modelled
  subset (comments, continuation lines, string prefixes, triple quotes, implicit concatenation, \\N{..}, `_` / radix /
  imaginary numbers, `...`, repeated keys) are counted per feature and skipped -- never silently;
* `strload-literal`: `serdes.strload` on each text in the five carriers (str; bytes, bytearray, memoryview of bytes,
  memoryview of bytearray -- the four bytes-like ones must give equal results) against the model's composition
  "JSON decoder first, then the literal reader on the decoded text, then the text itself" built from `Json.parse_text` /
  `json_read_gen` and `literal_read`; invalid UTF-8 included (the call raises).

Floats: the model carries a float as its literal text; an observed float is sent as its `repr`.  A case agrees "exactly"
when the tokens are equal and "up to the float token" otherwise (e.g. the text `1.50`): both counts are reported, only
a disagreement beyond the token is a mismatch (the float conversion is outside the model).
"""
from __future__ import annotations

import ast
import collections
import io
import json
import os
import random
import tokenize
import warnings

import lib

PROPS = [
    ("Props/C14Literal.v", ["C14Literal_read_repr", "C14Literal_repr_injective", "C14Literal_repr_source_ok",
                            "C14Literal_json_agrees_on_repr", "C14Literal_strload_repr", "C14Literal_strload_repr_bytes", "C14Literal_not_json",
                            "C14Literal_full_refuted", "C14Literal_refuted_float_inf", "C14Literal_refuted_float_token",
                            "C14Literal_refuted_unhashable", "C14Literal_refuted_codepoint", "C14Literal_refuted_pr_law",
                            "C14Literal_general_agreement_refuted_slash", "C14Literal_general_agreement_refuted_pair"]),
]
COQ_TARGETS = ["theories/Model/PyLiteralEq.vo", "theories/Props/C14Literal.vo"]

HEADER = ("From Coq Require Import List ZArith NArith Bool. Import ListNotations.\n"
          "Require Import TL.Model.Json TL.Model.JsonEq TL.Model.PyLiteral TL.Model.PyLiteralEq.\n"
          "Require Import TLRun.GenPrintable.\nOpen Scope N_scope.\n")


# ----------------------------------------------------------------------------------
# values -> Coq
# ----------------------------------------------------------------------------------

def cps(s) -> str:
    vals = [ord(c) for c in s] if isinstance(s, str) else list(s)
    return "[" + ";".join(str(v) for v in vals) + "]" if vals else "[]"


def enc_pyv(x) -> str:
    """Python value -> Coq term of type pyv (floats as their repr, sets in iteration order)"""
    t = type(x)
    if x is None:
        return "YNone"
    if t is bool:
        return "(YBool true)" if x else "(YBool false)"
    if t is int:
        return f"(YInt ({x})%Z)"
    if t is float:
        return f"(YFloat {cps(repr(x))})"
    if t is str:
        return f"(YStr {cps(x)})"
    if t is list:
        return "(YList [" + ";".join(enc_pyv(e) for e in x) + "])"
    if t is tuple:
        return "(YTuple [" + ";".join(enc_pyv(e) for e in x) + "])"
    if t in (set, frozenset):
        return "(YSet [" + ";".join(enc_pyv(e) for e in x) + "])"
    if t is dict:
        return "(YDict [" + ";".join(f"({enc_pyv(k)},{enc_pyv(v)})" for k, v in x.items()) + "])"
    raise TypeError(f"not a modelled value: {x!r}")


def modelled(x) -> bool:
    t = type(x)
    if x is None or t in (bool, int, float, str):
        return True
    if t in (list, tuple, set, frozenset):
        return all(modelled(e) for e in x)
    if t is dict:
        return all(modelled(k) and modelled(v) for k, v in x.items())
    return False


def walk(x):
    yield x
    if type(x) in (list, tuple, set, frozenset):
        for e in x:
            yield from walk(e)
    elif type(x) is dict:
        for k, e in x.items():
            yield from walk(k)
            yield from walk(e)


def finite(x) -> bool:
    return all(not (type(f) is float and (f != f or f in (float("inf"), float("-inf")))) for f in walk(x))


def np_ranges():
    """maximal ranges (inclusive) of code points from 0x7f for which str.isprintable is false"""
    rs, start = [], None
    for c in range(127, 0x110001):
        np = c < 0x110000 and not chr(c).isprintable()
        if np and start is None:
            start = c
        if not np and start is not None:
            rs.append((start, c - 1))
            start = None
    return rs


# ----------------------------------------------------------------------------------
# generators
# ----------------------------------------------------------------------------------

CHAR_CLASSES = {
    "apostrophe": ["'"], "double-quote": ['"'], "backslash": ["\\"], "tab-nl-cr": ["\t", "\n", "\r"],
    "control": [chr(c) for c in range(32) if c not in (9, 10, 13)], "del": ["\x7f"],
    "ascii": list("aZ09 ~!#[]{}():,uxN"), "c1-control": ["\x80", "\x85", "\x9f"], "nbsp-shy": ["\xa0", "\xad"],
    "latin1": ["\xa1", "\xe9", "\xff"], "bmp-printable": ["\u0100", "\u07ff", "\u0800", "\u4e2d", "\ud7ff", "\ufffd"],
    "bmp-nonprintable": ["\u0378", "\u2028", "\u2029", "\u200b", "\u3000", "\ue000", "\ufeff", "\ufffe", "\uffff", "\u061c"],
    "astral-printable": ["\U00010000", "\U0001F600", "\U0002a6d6"],
    "astral-nonprintable": ["\U000e0001", "\U000f0000", "\U0010ffff", "\U0001fffe", "\U00030000" if not "\U00030000".isprintable() else "\U000e0fff"],
    "lone-surrogate": ["\ud800", "\udbff", "\udc00", "\udfff"],
}
INTS = [0, 1, -1, 9, 10, 255, -2**31, 2**53, 2**63 - 1, 2**63, -2**63, 2**64, 10**30, -10**40, 2**200, -2**300]
FLOATS = [0.0, -0.0, 1.5, -2.25, 0.1, 1e16, 1e-7, 1e22, 5e-324, 1.7976931348623157e308, 123456789012345678.0, 1e15, 1e21,
          3.141592653589793, -1e-300, 2.5e-5, 1e-5, 0.0001, 1e100]
NONFINITE = [float("inf"), float("-inf"), float("nan")]


def gen_str(rng: random.Random, dist) -> str:
    n = rng.choice([0, 1, 1, 2, 3, 5, 8, 16])
    out = []
    for _ in range(n):
        k = rng.choice(list(CHAR_CLASSES))
        dist["char:" + k] += 1
        out.append(rng.choice(CHAR_CLASSES[k]))
    if rng.random() < 0.1:
        out.append(chr(rng.randrange(0x110000)))
        dist["char:random code point"] += 1
    return "".join(out)


def gen_atom(rng: random.Random, dist, key=False):
    k = rng.choice(["none", "bool", "int", "int", "str", "str", "str", "float", "bigint"])
    dist["atom:" + k] += 1
    if k == "none":
        return None
    if k == "bool":
        return rng.random() < 0.5
    if k == "int":
        return rng.choice(INTS) if rng.random() < 0.4 else rng.randint(-10**6, 10**6)
    if k == "bigint":
        return rng.randint(-2**90, 2**90)
    if k == "float":
        r = rng.random()
        if r < 0.05 and not key:
            dist["atom:non-finite float"] += 1
            return rng.choice(NONFINITE)
        return rng.choice(FLOATS) if r < 0.6 else rng.uniform(-1e6, 1e6) * 10 ** rng.randint(-20, 20)
    return gen_str(rng, dist)


def gen_key(rng: random.Random, depth: int, dist):
    if depth > 0 and rng.random() < 0.25:
        n = rng.choice([0, 1, 2, 3])
        dist["key:tuple%d" % n] += 1
        return tuple(gen_key(rng, depth - 1, dist) for _ in range(n))
    return gen_atom(rng, dist, key=True)


def gen_value(rng: random.Random, depth: int, dist):
    if depth <= 0 or rng.random() < 0.3:
        return gen_atom(rng, dist)
    k = rng.choice(["list", "list", "tuple", "tuple", "dict", "dict", "set"])
    if k == "list":
        n = rng.choice([0, 1, 2, 3, 6])
        dist["list:%d" % min(n, 3)] += 1
        return [gen_value(rng, depth - 1, dist) for _ in range(n)]
    if k == "tuple":
        n = rng.choice([0, 1, 1, 2, 3, 5])
        dist["tuple:%d" % min(n, 3)] += 1
        return tuple(gen_value(rng, depth - 1, dist) for _ in range(n))
    if k == "dict":
        n = rng.choice([0, 1, 2, 4])
        dist["dict:%d" % min(n, 3)] += 1
        d = {}
        for _ in range(n):
            d[gen_key(rng, depth - 1, dist)] = gen_value(rng, depth - 1, dist)
        return d
    n = rng.choice([0, 1, 2, 4])
    dist["set:%d" % min(n, 3)] += 1
    return {gen_key(rng, depth - 1, dist) for _ in range(n)}


def deep(rng: random.Random, n: int):
    x = rng.choice([0, "x", [], {}, (), None])
    for _ in range(n):
        r = rng.random()
        x = [x] if r < 0.3 else (x,) if r < 0.6 else {rng.choice(["k", 1, (), None]): x} if r < 0.9 else (x, 0)
    return x


def values(run, n_random: int, dist) -> list:
    rng = run.rng
    vs = []
    for k, chars in CHAR_CLASSES.items():
        vs.append("".join(chars))
        vs.append("'" + "".join(chars))
        vs.append('"' + "".join(chars) + "'")
        vs.append({"".join(chars): list(chars)})
    vs += [INTS, FLOATS, NONFINITE, [], {}, (), set(), [[]], [{}], ((),), (1,), ([],), {"": {}}, "", "'", '"', "'\"", "it's", 'say "hi"',
           [None, True, False], {1: 2, (1, 2): 3, None: 4, "k": 5, 1.5: 6, (): 7, True is False: 8}, {3}, {1, 2, 3}, {"a", (1, "b")},
           frozenset({2}), {(): ()}, ("a",), (1, 2), ((1,),), [(1,), (2, 3)], deep(rng, 30), deep(rng, 120)]
    for _ in range(n_random):
        vs.append(gen_value(rng, rng.choice([1, 2, 3, 4]), dist))
    return [v for v in vs if type(v) is not frozenset]


# ----------------------------------------------------------------------------------
# Coq evaluation
# ----------------------------------------------------------------------------------

def eval_shards(run, tag: str, ctype: str, okfns: list[str], terms: list[str], per: int = 250):
    """-> (one sorted list of mismatching indexes per okfn, ok flag)"""
    shards = {}
    for s in range(0, len(terms), per):
        body = ";\n  ".join(terms[s:s + per])
        shards[f"cases_{tag}_{s // per:03d}.v"] = (HEADER + f"Definition cases : list {ctype} :=\n [ {body} ].\n" +
                                                   "".join(f"Eval vm_compute in mismatches {f} cases.\n" for f in okfns))
    res = run.coq_eval_many(shards, timeout=900)
    bad, ok = [[] for _ in okfns], True
    for name in sorted(shards):
        s = int(name[-5:-2]) * per
        r = res[name]
        if r is None or len(r) < len(okfns):
            run.oblige(f"evaluate:{name}", False, "model evaluation did not compile")
            ok = False
            for b in bad:
                b += list(range(s, min(s + per, len(terms))))
            continue
        for b, out in zip(bad, r):
            b += [s + j for j in lib.parse_nat_list(out)]
    return bad, ok


# ----------------------------------------------------------------------------------
# literal-writer
# ----------------------------------------------------------------------------------

def writer_stream(run, vs, dist):
    terms, descs, emitted = [], [], []
    for v in vs:
        text = repr(v)
        fin = finite(v)
        dist["writer:" + ("all floats finite" if fin else "has inf / nan (outside the guard)")] += 1
        terms.append(f"({'true' if fin else 'false'}, {enc_pyv(v)}, {cps(text)})")
        descs.append({"value": text[:300], "repr code points": len(text)})
        emitted.append((text, v))
    bad, _ = eval_shards(run, "litw", "(bool * pyv * list N)",
                         ["(fun c => let '(fin, w, obs) := c in wcase_ok np_table (w, obs) && (negb fin || floats_ok w))"], terms)
    run.record_corr("literal-writer", len(terms), [descs[i] for i in bad[0]], len(terms),
                    {k: v for k, v in dist.items() if k.startswith(("writer:", "char:", "atom:", "key:", "list:", "tuple:", "dict:", "set:"))}
                    | {"rule": "one case = one value: py_repr (pr_of np_table) w = repr(w) code point by code point; on values inside pyv_ok also "
                               "literal_read (py_repr w) = Some w (an instance of C14Literal_read_repr); every finite float's repr satisfies float_tok_ok"})
    return emitted


# ----------------------------------------------------------------------------------
# literal-reader
# ----------------------------------------------------------------------------------

def features(text: str) -> set:
    """features outside the modelled subset in a text ast.literal_eval ACCEPTS (tokenize view of the same tokenizer)"""
    f = set()
    src = text.lstrip(" \t").replace("\r\n", "\n").replace("\r", "\n")
    try:
        toks = list(tokenize.generate_tokens(io.StringIO(src).readline))
    except Exception as e:        # accepted by the parser but not by tokenize: reported as its own class
        return {"tokenize-failed:" + type(e).__name__}
    prev = None
    for tk in toks:
        if tk.type == tokenize.COMMENT:
            f.add("comment")
        elif tk.type == tokenize.STRING:
            s = tk.string
            if s[0] not in "'\"":
                f.add("string-prefix")
            body = s.lstrip("rRbBuUfF")
            if body[:3] in ("'''", '"""'):
                f.add("triple-quote")
            if "\\N{" in s:
                f.add("named-escape")
            if prev is not None and prev.type == tokenize.STRING:
                f.add("implicit-concatenation")
        elif tk.type == tokenize.NUMBER:
            s = tk.string.lower()
            if "_" in s:
                f.add("underscore-number")
            if s[:2] in ("0x", "0o", "0b"):
                f.add("radix-number")
            if s.endswith("j"):
                f.add("imaginary")
        elif tk.type == tokenize.OP and tk.string == "...":
            f.add("ellipsis")
        elif tk.type == getattr(tokenize, "FSTRING_START", -1):
            f.add("f-string")
        if tk.type not in (tokenize.NL, tokenize.NEWLINE, tokenize.COMMENT, tokenize.INDENT, tokenize.DEDENT):
            prev = tk
    for ln, line in enumerate(src.split("\n"), 1):
        if line.endswith("\\") and not any(tk.type == tokenize.STRING and tk.start[0] <= ln < tk.end[0] for tk in toks):
            f.add("line-continuation")
    return f


def has_dups(text: str) -> bool:
    """a dict / set display whose evaluation merges entries (Python's == on keys is outside the model)"""
    try:
        tree = ast.parse(text.lstrip(" \t"), mode="eval")
    except Exception:
        return False
    for n in ast.walk(tree):
        try:
            if isinstance(n, ast.Dict) and len(ast.literal_eval(n)) != len(n.keys):
                return True
            if isinstance(n, ast.Set) and len(ast.literal_eval(n)) != len(n.elts):
                return True
        except Exception:
            pass
    return False


def observe(text: str):
    """ast.literal_eval -> ('ok', value) | ('reject', kind) | ('skip', why)"""
    with warnings.catch_warnings():
        warnings.simplefilter("ignore")
        try:
            v = ast.literal_eval(text)
        except (RecursionError, MemoryError) as e:
            return ("skip", "resource limit: " + type(e).__name__)
        except (ValueError, TypeError, SyntaxError) as e:
            if "Exceeds the limit" in str(e):
                return ("skip", "int digit limit")
            return ("reject", type(e).__name__)
        f = features(text)
        if f:
            return ("skip", "outside the subset: " + "+".join(sorted(f)))
        if not modelled(v):
            return ("skip", "outside the subset: complex / bytes / Ellipsis value")
        if has_dups(text):
            return ("skip", "outside the subset: repeated key or element")
    return ("ok", v)


POOL = list("'\"\\,:[](){}01-+.eE_ \n\t\r#jxN") + ["\x0c", "\x00", "\x0b", "\xa0", "\\x", "\\u", "\\U", "\\N{", "None", "True", "False", "set()",
                                                  "\\\n", "0x", "''", " ,", ", ", "\ud800", "\xe9", "\\0", "\\7", "\\/", "null", "true", "\u2028",
                                                  "\\ud83d\\ude00", "1e5", ".5", "5.", "00", "-(", "(1)", "\r\n"]


def mutate(rng: random.Random, t: str) -> str:
    b = list(t)
    for _ in range(rng.choice([1, 1, 1, 2, 3])):
        op = rng.choice(["del", "ins", "rep", "trunc", "dup", "swap"])
        if not b:
            op = "ins"
        i = rng.randrange(len(b) + 1)
        if op == "del" and i < len(b):
            del b[i]
        elif op == "ins":
            b[i:i] = list(rng.choice(POOL))
        elif op == "rep" and i < len(b):
            b[i:i + 1] = list(rng.choice(POOL))
        elif op == "trunc":
            del b[i:]
        elif op == "dup" and i < len(b):
            j = min(len(b), i + rng.randint(1, 6))
            b[i:i] = b[i:j]
        elif op == "swap" and i + 1 < len(b):
            b[i], b[i + 1] = b[i + 1], b[i]
    return "".join(b)


def pad_ws(rng: random.Random, t: str) -> str:
    """blanks and newlines at token boundaries found by a trivial scan (outside strings), trailing commas, and
    blank lines / blanks around the whole"""
    out, instr, esc = [], None, False
    for c in t:
        if instr:
            out.append(c)
            if esc:
                esc = False
            elif c == "\\":
                esc = True
            elif c == instr:
                instr = None
            continue
        if c in "])}" and out and out[-1] not in "[({, \n\t" and rng.random() < 0.15:
            out.append(",")
        if c in "[](){},:" and rng.random() < 0.4:
            out.append(rng.choice([" ", "\t", "\n", "\x0c", "\r", "\r\n", "  "]))
        out.append(c)
        if c in "'\"":
            instr = c
        elif c in "[({,:" and rng.random() < 0.4:
            out.append(rng.choice([" ", "\t", "\n", "\x0c", "\r"]))
    return rng.choice(["", "", " ", "\t ", "\n", "\n\n", " \n", "\x0c", "\n ", "\r\n"]) + "".join(out) + \
        rng.choice(["", "", " ", "\n", " \n ", "\n\n", "\x0c", "\n\x0c", " \n\t\n", "\r", "\n \x0c"])


MALFORMED = [
    "", " ", "\n", "set()", "set ( )", "set(\n)", "set", "set(1)", "{1}", "{}", "()", "(1)", "(1,)", "1,", "1,2", "1,2,", "1 , 2", ",", "(,)", "[,]", "[1,]",
    "[1,,]", "{1:2,}", "{1,}", "{1:2,3}", "{1,2:3}", "-1", "- 1", "-(1)", "-((1))", "-( 1 )", "-(\n1)", "-(-1)", "--1", "+1", "+-1", "-True", "-1.5", "+1.5", "-0", "-0.0",
    "1+2j", "1+2", "1j", "-1j", " 1", "\t1", "\n1", "\n 1", "\n\n1", "\x0c1", "\x0c 1", " \x0c1", "\n \x0c1", "1 ", "1\n", "1\n ", "1\n  \n", "1\n\n",
    "1 \n \n ", "1\n2", "1\x0c", "\r1", "1\r", "1\r\n", "\r\n1", "1\r2", "1\n \x0c", "1\n\x0c ", "(1\n)", "(\n1)", "-\n1", "(-\n1)", "[1,\n2]", "[1,\r2]",
    "[1, # c\n 2]", "1 # c", "1#", "#\n1", "(1\\\n)", "1\\\n", "\\\n1", "'a' 'b'", "'a''b'", "('a'\n'b')", "'''a'''", "''''", "''", '""', "u'a'", "r'a'",
    "b'a'", "f'a'", "'\\q'", "'\\x4'", "'\\x41'", "'\\xAf'", "'\\u004'", "'\\u0041'", "'\\U00110000'", "'\\U0010ffff'", "'\\U0010FFFF'", "'\\N{BULLET}'", "'\\N'",
    "'\\101'", "'\\1'", "'\\18'", "'\\400'", "'\\777'", "'\\8'", "'\\0'", "'\\00'", "'\\0000'", "'\\\n'", "'a\\\nb'", "'\\\r\n'", "'\\\r'", "'a\nb'", "'a\rb'", "'a\x00b'",
    "'\x01'", "'\x0c'", "'\x7f'", "'\ud800'", "'\\ud800'", "'\\ud83d\\ude00'", '"\\ud83d\\ude00"', '"\\/"', "'\\/'", "'\\a\\b\\f\\n\\r\\t\\v'", "'\\''", '"\\""', "'\"'", '"\'"',
    "'\xa0'", "\xa01", "1\xa0", "\x0b1", "\x1f1", "\x001", "1\x00", "\ufeff1", "1\ufeff", "\u20281", "01", "00", "0", "000", "0_0", "1_0", "1__0", "1_", "_1",
    "0x10", "0o7", "0b1", "09", "09.", "09.5", "012.5", "01e5", "00.0", "1.", ".5", ".", "1e5", "1E5", "1e+5", "1e", "1e+", "1.e5", "1.5e-3", "1.5.5", "1a",
    "1if", "1 if 1 else 2", "1or", "1.real", "1 .real", "1..real", "None", "True", "False", "none", "Nonex", "None1", "inf", "nan", "-inf", "...", "Ellipsis",
    "[1, *[2]]", "{**{}}", "{1: 2, **{}}", "(*[1],)", "{[1]: 2}", "{[1]}", "{(1, [2]): 3}", "{{}: 1}", "{{1}}", "{(1, {2}): 3}", "{1: 2, 1: 3}",
    "{1: 'a', True: 'b', 1.0: 'c'}", "{1, True, 1.0}", "{(): 1}", "[1 2]", "[1;2]", "(1 2)", "1 2", "'a", "\"a'", "'a\"", "[", "]", "(", ")", "{", "}", "[)",
    "(())", "((),)", "[[]]", "{1:{2:3}}", "(1) , 2", "1,\n2", "(1,\n2)", "a", "x=1", "lambda: 1", "[1 for x in y]", "1 < 2", "not 1", "~1", "[1][0]", "'a'.b",
    "f()", "set([1])", "set(())", "frozenset()", "1_000.0", "1e1_0", "\u0661", "\uff11", "\xb2", "(1)(2)", "{1:2:3}", "{1:}", "{:1}", "{1 2}", "[1]]", "((1)",
    "-[1]", "-'a'", "-None", "+(1)", "+(+1)", "- (1)", "-(1.5)", "-(1j)", "(-1)", "((-1))", "-(1,)", "-()", "1 + 2j", "1 - 2j", "(1) + 2j", "1 + 2", "2j + 1",
    "null", "true", "false", "[null]", "[true, false]", "NaN", "Infinity", '{"a": 1}', '{"a": null}', "[1, 2]", '"it\'s"', '{"it\'s": [1.5, "x"]}', "'a': 1", "a: 1",
    "[" * 40 + "]" * 40, "(" * 40 + "1" + ")" * 40, "(" * 30 + "1," + ")" * 30, "{1:" * 25 + "2" + "}" * 25, "-" + "(" * 20 + "7" + ")" * 20, "[" * 40 + "]" * 39,
    "18446744073709551616", "-9223372036854775809", "1e400", "-1e400", "1e-400", "12345678901234567890123456789012345678901234567890",
    "1, 2", "[1, 2], [3]", "1,2,3", "'a',", "(1, 2), (3, 4)", "{'a': 1}, {'b': 2}", "1, \n", "1,\n", "1, 2\n\n", "[\n 1,\n 2,\n]\n", "{\n 'a': 1,\n}\n",
    "[1,\x0c2]", "[1\x0c]", "(1,\x0b2)", " [1, 2] ", "\n[1, 2]\n", "\t(1,)\t", "  'x'  ", " \n 'x'", "\xa0'x'", "'x'\xa0", "\u2028[1]", "[1]\u2029", "\x1c1", "1\x1c", "\x851",
]


def reader_stream(run, emitted: list, dist):
    rng = run.rng
    texts, seen = [], set()

    def add(t, kind):
        if t in seen or len(t) > 1200:
            return
        seen.add(t)
        texts.append((t, kind))

    for t in MALFORMED:
        add(t, "pool")
    base = list(dict.fromkeys(t for t, _ in emitted))
    for t in rng.sample(base, min(len(base), run.budget(350, 1500))):
        add(t, "emitted")
    for t in rng.sample(base, min(len(base), run.budget(250, 1200))):
        add(pad_ws(rng, t), "emitted+whitespace")
    for t in base:
        if t[0] == "(" and len(t) > 2 and rng.random() < 0.5:
            add(t[1:-1], "bare tuple")
            add(pad_ws(rng, t[1:-1]), "bare tuple+whitespace")
    small = [t for t in base if len(t) <= 160] or base
    for _ in range(run.budget(900, 6000)):
        add(mutate(rng, rng.choice(small if rng.random() < 0.8 else MALFORMED)), "mutated")
    terms, descs, kept = [], [], []
    stats = collections.Counter()
    for t, kind in texts:
        dist["reader-input:" + kind] += 1
        o = observe(t)
        if o[0] == "skip":
            stats["literal_eval skipped, " + o[1]] += 1
            continue
        stats["literal_eval " + ("accepts " if o[0] == "ok" else "rejects ") + kind] += 1
        terms.append(f"({cps(t)}, {'Some ' + enc_pyv(o[1]) if o[0] == 'ok' else 'None'})")
        descs.append({"input": repr(t)[:300], "kind": kind, "ast.literal_eval": repr(o[1])[:300]})
        kept.append((t, kind))
    (bad, inexact), _ = eval_shards(run, "litr", "rcase", ["rcase_ok", "rcase_exact"], terms, per=200)
    stats["agree up to a float token only (the text's token is not what repr prints)"] = len(set(inexact) - set(bad))
    dist.update(stats)
    run.record_corr("literal-reader", len(terms), [descs[i] for i in bad], sum(1 for d in descs if not d["ast.literal_eval"].endswith("Error")),
                    {k: v for k, v in dist.items() if k.startswith(("reader-input:", "literal_eval", "agree up to"))}
                    | {"rule": "one case = one text: literal_read vs ast.literal_eval (any of ValueError / TypeError / SyntaxError = rejected); accept / "
                               "reject and the value (floats by repr token, sets as sets); texts accepted through a feature outside the modelled subset "
                               "are counted under 'literal_eval skipped' with the feature"})
    return [t for t, _ in texts]


# ----------------------------------------------------------------------------------
# strload-literal
# ----------------------------------------------------------------------------------

I64_MIN, U64_MAX = -2**63, 2**64 - 1


def json_number_conversion_outside(text) -> bool:
    """orjson.loads converts numbers its own way (64-bit-overflowing ints become floats, overflowing float literals are rejected):
    the model's JSON reader keeps integers exact and floats as tokens, such texts are outside this stream"""
    try:
        v = json.loads(text, parse_float=lambda s: ("f", s), parse_constant=lambda s: ("c", s))
    except RecursionError:
        return True
    except ValueError:
        return False

    def bad(x):
        if type(x) is int:
            return not (I64_MIN <= x <= U64_MAX)
        if type(x) is tuple:
            try:
                f = float(x[1])
            except ValueError:
                return True
            return f != f or f in (float("inf"), float("-inf"))
        if type(x) is list:
            return any(bad(e) for e in x)
        if type(x) is dict:
            return any(bad(e) for e in x.values())
        return False
    return bad(v)


def mk_carriers(payload: bytes):
    return [("bytes", bytes(payload)), ("bytearray", bytearray(payload)), ("memoryview(bytes)", memoryview(bytes(payload))),
            ("memoryview(bytearray)", memoryview(bytearray(payload)))]


def same_obs(a, b) -> bool:
    """structural equality with classes (1 != True != 1.0) and float signs"""
    if type(a) is not type(b):
        return False
    if type(a) in (list, tuple):
        return len(a) == len(b) and all(same_obs(x, y) for x, y in zip(a, b))
    if type(a) is dict:
        return len(a) == len(b) and all(same_obs(k, k2) and same_obs(x, y) for (k, x), (k2, y) in zip(a.items(), b.items()))
    if type(a) in (set, frozenset):
        return len(a) == len(b) and all(any(same_obs(x, y) for y in b) for x in a)
    if type(a) is float:
        return repr(a) == repr(b)
    return a == b


INVALID_UTF8 = [b"\xff", b"[1, 2]\xff", b"'\xc3'", b"(1,)\x80", b"\xed\xa0\x80", b"'\xed\xa0\x80'", b"\xc0\x80", b"\xf4\x90\x80\x80", b"None\xfe",
                b"\xef\xbb\xbf(1, 2)", b"\xef\xbb\xbf[1]", b"\xef\xbb\xbf"]


def strload_stream(run, texts: list, dist):
    import impl
    from typelib import serdes
    from typelib.py import compat
    try:
        import orjson
    except ImportError:
        orjson = None
    strict = compat.json is orjson
    rng = run.rng
    extra = ['[1, 2]', '[1,2]', '{"a": 1}', '"it\'s"', '{"it\'s": [1.5, "x"]}', '"\\/"', '"\\ud83d\\ude00"', '"\'\\ud83d\\ude00"', "'\\ud83d\\ude00'", 'null', 'true', '[null]',
             ' [1, 2] ', '\n[1, 2]', '\n(1, 2)', '\n (1, 2)', ' (1, 2) ', '\xa0(1, 2)', '(1, 2)\xa0', '\u2028[1]', '\x1c1', '1\x1c', '\x0c1', '\x0b1', '\x851', ' 1', '1 ',
             ' None ', '\tNone', 'None\n', '\nNone', '\r\nNone', ' \n None', '1,2', '1, 2', "'a'", '"a"', "a", "", " ", "-1", "- 1", "-(1)", "1.0", "1e5", "1E5", ".5", "5.",
             '{"a": 1, "a": 2}', "{'a': 1}", "{1: 2}", "{1, 2}", "set()", "()", "(1,)", "[(1, 2)]", "[1, (2,)]", '["a", \'b\']', "[None]", "[True]", "[1, None]",
             '"\\u00e9"', "'\\xe9'", '"\\x41"', "'\\u0041'", '"\\b\\f"', "'\\a\\v'", '"\\t"', '"\t"', "'\t'", '"\x7f"', "'\x01'", '"\x01"', "1_0", "0x10", "1j", "'a' 'b'"]
    pool, seen = [], set()
    for t in extra + rng.sample(texts, min(len(texts), run.budget(900, 4000))):
        if t not in seen:
            seen.add(t)
            pool.append(t)
    for w in rng.sample(texts, min(len(texts), run.budget(150, 600))):        # JSON forms of JSON-able emitted values
        try:
            v = ast.literal_eval(w)
            for t in (json.dumps(v), json.dumps(v, separators=(",", ":")), json.dumps(v, ensure_ascii=False)):
                if t not in seen:
                    seen.add(t)
                    pool.append(t)
                    dist["strload-input:json.dumps form"] += 1
        except Exception:
            pass
    terms, descs = [], []
    stats = collections.Counter()

    def call(x):
        impl.clear_caches()
        try:
            return ("ok", serdes.strload(x))
        except UnicodeDecodeError:
            return ("unicode",)
        except Exception as ex:
            return ("raised", type(ex).__name__)

    def emit(bin_, payload, o, desc):
        if o[0] == "unicode":
            obs = "None"
        elif o[0] == "raised":
            obs = "Some (LText [0;0;0])"      # never what the model says: reported
        elif type(o[1]) is str and not bin_ and o[1] == desc["text"]:
            obs = f"Some (LText {cps(o[1])})"
        elif type(o[1]) is str and bin_ and o[1] == desc.get("decoded"):
            obs = f"Some (LText {cps(o[1])})"
        elif modelled(o[1]):
            obs = f"Some (LVal {enc_pyv(o[1])})"
        else:
            obs = "Some (LText [0;0;0])"
        terms.append(f"({'true' if strict else 'false'}, {'true' if bin_ else 'false'}, {cps(payload)}, {obs})")
        descs.append(desc | {"serdes.strload": repr(o[1:])[:300]})

    for t in pool:
        lo = observe(t)
        jn = json_number_conversion_outside(t)
        try:
            compat.json.loads(t)
            json_accepts = True
        except Exception:
            json_accepts = False
        if jn:
            stats["strload skipped: the JSON decoder's own number conversion (64-bit overflow / float overflow)"] += 1
            continue
        if lo[0] == "skip" and not json_accepts:
            stats["strload skipped: literal_eval " + lo[1]] += 1
            continue
        if any(0xD800 <= ord(c) < 0xE000 for c in t):
            # a str with a lone surrogate has no bytes form
            o = call(t)
            stats["strload str carrier only (lone surrogate in the text)"] += 1
            emit(False, t, o, {"text": t, "carrier": "str"})
            continue
        o = call(t)
        stats["strload:" + ("JSON" if json_accepts else "literal" if lo[0] == "ok" else "plain text")] += 1
        emit(False, t, o, {"text": t, "carrier": "str"})
        b = t.encode("utf-8")
        obs_b = [(name, call(c)) for name, c in mk_carriers(b)]
        ob = obs_b[0][1]
        for name, oc in obs_b[1:]:
            if oc[0] != ob[0] or (oc[0] == "ok" and not same_obs(oc[1], ob[1])):
                ob = ("raised", f"carriers disagree: bytes -> {ob!r:.100}, {name} -> {oc!r:.100}")
                break
        emit(True, b, ob, {"text": t, "decoded": t, "carrier": "bytes / bytearray / memoryview x2"})
    for b in INVALID_UTF8:
        obs_b = [(name, call(c)) for name, c in mk_carriers(b)]
        ob = obs_b[0][1]
        for name, oc in obs_b[1:]:
            if oc[0] != ob[0] or (oc[0] == "ok" and not same_obs(oc[1], ob[1])):
                ob = ("raised", f"carriers disagree: {name}")
                break
        stats["strload:bytes that are not UTF-8 (or carry a signature)"] += 1
        try:
            dec = b.decode("utf-8")
        except UnicodeDecodeError:
            dec = None
        emit(True, b, ob, {"text": repr(b), "decoded": dec, "carrier": "bytes / bytearray / memoryview x2"})
    for d in descs:
        d["text"] = repr(d["text"])[:300]
        d.pop("decoded", None)
    (bad, inexact), _ = eval_shards(run, "lits", "scase", ["scase_ok", "scase_exact"], terms, per=200)
    stats["agree up to a float token only"] = len(set(inexact) - set(bad))
    dist.update(stats)
    run.record_corr("strload-literal", len(terms), [descs[i] for i in bad], sum(1 for t in terms if "Some (LVal" in t),
                    {k: v for k, v in dist.items() if k.startswith(("strload", "agree up to"))}
                    | {"configured JSON decoder is RFC-strict (orjson)": strict,
                       "rule": "one case = (text, str carrier) or (bytes, the four bytes-like carriers, which must agree among themselves): "
                               "serdes.strload vs strload_text / strload_bytes = JSON reader first (parse_text / json_read_gen), then literal_read on the "
                               "decoded text, then the text itself; UnicodeDecodeError = None"})


# ----------------------------------------------------------------------------------
# entry point
# ----------------------------------------------------------------------------------

def obligations(run):
    for rel, thms in PROPS:
        if os.path.exists(os.path.join(lib.THEORIES, rel)):
            run.check_props(rel, thms)
        else:
            run.oblige(f"props:{rel} exists", False, "file missing")
    rs = np_ranges()
    text = ("From Coq Require Import List NArith. Import ListNotations. Open Scope N_scope.\n"
            "(* str.isprintable is false exactly on these ranges of code points from 0x7f (inclusive), read from the interpreter *)\n"
            "Definition np_table : list (N * N) :=\n [" + ";\n  ".join(f"({a},{b})" for a, b in rs) + "].\n")
    ok = run.compile_dyn("GenPrintable.v", text=text)
    run.oblige("reflect:str.isprintable read from the interpreter (non-printable ranges from 0x7f)", ok and len(rs) > 100 and rs[0][0] == 127,
               f"{len(rs)} ranges")
    probe = [1, (2,), (), {}, {1: "a", (1, 2): [None, True]}, {3}, set(), 1.5, "it's", 'q"', "\x7f\xad\u2028\U000e0001\ud800"]
    run.oblige("reflect:repr writes the modelled form (separators, one-tuple comma, set(), quote rule, escapes)",
               repr(probe) == "[1, (2,), (), {}, {1: 'a', (1, 2): [None, True]}, {3}, set(), 1.5, \"it's\", 'q\"', "
                              "'\\x7f\\xad\\u2028\\U000e0001\\ud800']", repr(probe))
    if not ok:
        return
    dist = collections.Counter()
    with warnings.catch_warnings():
        warnings.simplefilter("ignore")         # SyntaxWarning: invalid escape sequence, from the parser on mutated texts
        vs = values(run, run.budget(500, 2500), dist)
        emitted = writer_stream(run, vs, dist)
        texts = reader_stream(run, emitted, dist)
        strload_stream(run, texts, dist)
    run.assumptions += [
        "C14/literal: Props/C14Literal.v proves literal_read (py_repr w) = Some w, and that the JSON reader (asked first by strload) either rejects "
        "repr text or reads the same value, for the character-level model Model/PyLiteral.v; assumed: the float <-> shortest-repr conversion (a float "
        "is its literal text; law sampled: repr of a finite float is a JSON number with a fraction or exponent), str.isprintable (table re-read per run; "
        "law: printable implies Unicode scalar value, true of pr_of by construction); outside the reader's subset (counted per run, never compared): "
        "comments, continuation lines, string prefixes, triple quotes, implicit concatenation, \\N{..}, '_' / radix / imaginary numbers, Ellipsis, "
        "bytes literals, repeated keys, the parser's recursion / memory / 4300-digit limits, orjson's own number conversion",
    ]
