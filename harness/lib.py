"""Core of the check pipeline (DESIGN.md section 2).

One `Run` object per `./check Cxx --tier T` invocation.  Property modules
(harness/props/cxx.py) use its helpers to

  * build the table-independent Coq theories (make, under flock),
  * compile per-run Coq files (regenerated tables, property theorems, cases_*.v)
    in build/Cxx/<tier>/ under a shell timeout,
  * evaluate the model with vm_compute and parse the printed result,
  * record proof obligations, correspondence results, oracle searches,
  * replay known findings, report violations, write evidence.
"""
from __future__ import annotations

import fcntl
import json
import os
import random
import re
import shutil
import subprocess
import sys
import time
import traceback

VERIF = os.path.dirname(os.path.dirname(os.path.abspath(__file__)))
REPO = os.environ.get("TYPELIB_REPO") or "/repo"
COQ = os.path.join(VERIF, "coq")
THEORIES = os.path.join(COQ, "theories")
DYN = os.path.join(COQ, "dyn")
PY = "/venv/bin/python"
GUARD = "TYPELIB_VERIF"

FORBIDDEN = re.compile(
    r"\b(Admitted|admit|Axiom|Axioms|Parameter|Parameters|Conjecture|Conjectures|"
    r"Admit Obligations|Unset Guard Checking|bypass_check|Unset Positivity Checking|"
    r"Unset Universe Checking|type-in-type|impredicative-set)\b"
)
# stdlib axioms that may appear under Print Assumptions (named in DESIGN section 8)
ALLOWED_AXIOMS: set[str] = set()

TRUSTED_BASE = [
    "Coq 8.16.1 kernel (coqc) incl. its VM (vm_compute); no native_compute",
    "no axioms: Print Assumptions of every property theorem must say 'Closed under the global context'",
    "harness/reflect*.py + per-property reflect(): print live typelib tables as Coq definitions",
    "correspondence harness: runs hand-written Gallina model (vm_compute) and /repo implementation on the same generated inputs",
    "interpreter/third-party behaviour (CPython 3.12, pendulum, orjson, graphlib) enters theorems only as explicit hypotheses/section variables",
]


def env_for_impl() -> dict:
    e = dict(os.environ)
    e["PYTHONPATH"] = os.path.join(REPO, "src")
    e["PYTHONHASHSEED"] = "0"
    e[GUARD] = "1"
    e["PIP_NO_INDEX"] = "1"
    return e


def sh(cmd, timeout, cwd=None, env=None, input=None):
    """Run a command under a hard timeout; returns (rc, stdout, stderr)."""
    try:
        p = subprocess.run(
            cmd, cwd=cwd, env=env, input=input, capture_output=True, text=True, timeout=timeout
        )
        return p.returncode, p.stdout, p.stderr
    except subprocess.TimeoutExpired as e:
        out = e.stdout.decode() if isinstance(e.stdout, bytes) else (e.stdout or "")
        err = e.stderr.decode() if isinstance(e.stderr, bytes) else (e.stderr or "")
        return 124, out, err + f"\nTIMEOUT after {timeout}s"


# ----------------------------------------------------------------------------------
# Coq term emission helpers
# ----------------------------------------------------------------------------------

def coq_bool(b) -> str:
    return "true" if b else "false"


def coq_nat(n: int) -> str:
    assert 0 <= n < 5000, n
    return f"{n}%nat"


def coq_Z(z: int) -> str:
    return f"({z})%Z"


def coq_N(n: int) -> str:
    assert n >= 0
    return f"{n}%N"


def coq_list(items, ty=None) -> str:
    items = list(items)
    if not items:
        return f"(@nil {ty})" if ty else "[]"
    return "[" + "; ".join(items) + "]"


def coq_opt(x, ty=None) -> str:
    if x is None:
        return f"(@None {ty})" if ty else "None"
    return f"(Some {x})"


def coq_pair(a, b) -> str:
    return f"({a}, {b})"


def coq_string(s: str) -> str:
    """Coq string literal for an ASCII-printable Python str (others must go through codepoints)."""
    assert all(32 <= ord(c) < 127 for c in s), s
    return '"' + s.replace('"', '""') + '"%string'


def coq_codepoints(s) -> str:
    """list N of code points (str) or byte values (bytes)."""
    vals = [ord(c) for c in s] if isinstance(s, str) else list(s)
    return coq_list([f"{v}%N" for v in vals], "N")


# ----------------------------------------------------------------------------------
# Parsing of `Eval vm_compute in ...` output
# ----------------------------------------------------------------------------------

_EVAL_RE = re.compile(r"^\s*=\s*(.*?)\n\s*:\s", re.S | re.M)


def parse_evals(out: str) -> list[str]:
    """Split coqc stdout into the values printed by successive Eval commands."""
    res = []
    # each result starts with a line beginning with '     = ' and ends with '     : type'
    chunks = re.split(r"(?m)^\s{5}= ", out)
    for ch in chunks[1:]:
        m = re.search(r"(?m)^\s{5}: ", ch)
        body = ch[: m.start()] if m else ch
        res.append(" ".join(body.split()))
    return res


def parse_nat_list(s: str) -> list[int]:
    s = s.strip()
    if s in ("[]", "nil"):
        return []
    assert s.startswith("[") and s.endswith("]"), s
    return [int(x.strip().replace("%nat", "")) for x in s[1:-1].split(";") if x.strip()]


def parse_sexp(s: str):
    """Parse the S-expression strings that model-side `show` functions print."""
    toks = re.findall(r'\(|\)|"(?:[^"\\]|\\.)*"|[^\s()]+', s)
    pos = 0

    def rd():
        nonlocal pos
        t = toks[pos]
        pos += 1
        if t == "(":
            l = []
            while toks[pos] != ")":
                l.append(rd())
            pos += 1
            return l
        return t

    out = []
    while pos < len(toks):
        out.append(rd())
    return out


# ----------------------------------------------------------------------------------
# The run
# ----------------------------------------------------------------------------------

def require_closure(vfiles: list[str]) -> list[str]:
    """Files (relative to coq/) in the TL.* Require-closure of the given .v files."""
    seen, todo = [], list(vfiles)
    while todo:
        f = todo.pop()
        if f in seen:
            continue
        seen.append(f)
        txt = open(os.path.join(COQ, f)).read()
        txt = re.sub(r"\(\*.*?\*\)", " ", txt, flags=re.S)
        # a sentence ends at a dot followed by white space; dots inside qualified names are not
        for m in re.finditer(r"(From\s+(\S+)\s+)?Require\s+(?:Import\s+|Export\s+)?(.*?)\.(?=\s|$)", txt, flags=re.S):
            prefix = m.group(2)
            for name in m.group(3).split():
                if name.startswith("TL."):
                    rel = "theories/" + name[3:].replace(".", "/") + ".v"
                elif prefix == "TL":
                    rel = "theories/" + name.replace(".", "/") + ".v"
                else:
                    continue
                if os.path.exists(os.path.join(COQ, rel)):
                    todo.append(rel)
    return sorted(seen)


class Violation(Exception):
    pass


class Run:
    def __init__(self, prop: str, tier: str, seed: int):
        self.prop = prop
        self.tier = tier
        self.seed = seed
        self.rng = random.Random(seed)
        self.t0 = time.time()
        self.build = os.path.join(VERIF, "build", prop, tier)
        self.replays = os.path.join(VERIF, "replays")
        self.obligations: list[dict] = []
        self.corr: dict[str, dict] = {}
        self.search_stats: dict = {}
        self.known_printed: list[str] = []
        self.violations: list[dict] = []
        self.assumptions: list[str] = []
        self.samples: list = []
        self.notes: list[str] = []
        self.extra_cov: dict = {}
        self.level = "proof"
        self.checker_cmds: list[str] = []
        self.laws: dict[str, int] = {}

    # -- housekeeping -------------------------------------------------------------
    def prepare(self):
        shutil.rmtree(self.build, ignore_errors=True)
        os.makedirs(self.build, exist_ok=True)
        os.makedirs(self.replays, exist_ok=True)
        for f in os.listdir(self.replays):
            if f.startswith(f"{self.prop}-{self.tier}-"):
                os.unlink(os.path.join(self.replays, f))

    def log(self, *a):
        print(f"[{self.prop} {time.time() - self.t0:6.1f}s]", *a, flush=True)

    def budget(self, quick, thorough):
        return thorough if self.tier == "thorough" else quick

    # -- Coq ----------------------------------------------------------------------
    def lint(self):
        """Fail closed on forbidden vernacular anywhere in the development."""
        bad = []
        for root in (THEORIES, DYN):
            for dp, _, fs in os.walk(root):
                for f in fs:
                    if not f.endswith(".v"):
                        continue
                    p = os.path.join(dp, f)
                    txt = open(p).read()
                    # strip comments (non-nested is enough: we never nest forbidden words in code)
                    code = re.sub(r"\(\*.*?\*\)", " ", txt, flags=re.S)
                    for m in FORBIDDEN.finditer(code):
                        bad.append(f"{os.path.relpath(p, VERIF)}: {m.group(0)}")
        self.oblige("lint:no-axioms-no-admits", not bad, "; ".join(bad[:5]))
        return not bad

    def base_make(self, targets=()):
        """(Re)build the table-independent theories this property needs (the Require-closure of its
        COQ_TARGETS; all of the development when empty); no-op when up to date.  Full .vo build, never
        -vos/-vok.  A property-specific project file keeps another property's broken file out of the way."""
        os.makedirs(COQ, exist_ok=True)
        if not targets:
            rc, out, err = sh(["bash", os.path.join(VERIF, "setup.sh")], timeout=1800, cwd=VERIF)   # locks itself
        lock = open(os.path.join(COQ, ".lock"), "w")
        fcntl.flock(lock, fcntl.LOCK_EX)
        try:
            if targets:
                files = require_closure([t[:-1] if t.endswith(".vo") else t for t in targets])
                proj = os.path.join(COQ, f"_CoqProject.{self.prop}")
                body = "-Q theories TL\n" + "\n".join(files) + "\n"
                if not os.path.exists(proj) or open(proj).read() != body or not os.path.exists(os.path.join(COQ, f"Makefile.{self.prop}")):
                    open(proj, "w").write(body)
                    sh(["coq_makefile", "-f", f"_CoqProject.{self.prop}", "-o", f"Makefile.{self.prop}"], timeout=60, cwd=COQ)
                rc, out, err = sh(["make", "-f", f"Makefile.{self.prop}", "-j16"] + list(targets), timeout=1800, cwd=COQ)
        finally:
            fcntl.flock(lock, fcntl.LOCK_UN)
            lock.close()
        ok = rc == 0 and all(os.path.exists(os.path.join(COQ, t)) for t in targets)
        detail = ""
        if not ok:
            m = re.findall(r'File "([^"]+)", line (\d+).*?\n(Error:.*?)(?:\n\n|\Z)', out + err, flags=re.S)
            detail = "; ".join(f"{os.path.basename(a)}:{b} {c[:200]}" for a, b, c in m[:3]) or (out + err)[-600:]
        self.oblige("build:table-independent theories (make %s)" % " ".join(targets), ok, detail)
        self.checker_cmds.append("cd coq && coq_makefile -f _CoqProject -o Makefile && make -j16 " + " ".join(targets))
        return ok

    def coqc(self, path: str, timeout: int = 300, extra_q: list[tuple[str, str]] = ()):
        """Compile one file located in the build dir.  Returns (ok, stdout, err)."""
        cmd = ["coqc", "-q", "-Q", THEORIES, "TL", "-Q", self.build, "TLRun"]
        for d, n in extra_q:
            cmd += ["-Q", d, n]
        cmd.append(path)
        # the limits passed by the callers are sized for an idle machine (x3-x10 of the measured time); a timeout is
        # reported as a broken obligation, so on a loaded machine (other checks running in parallel) it would be a
        # false alarm: scale generously -- the limit only has to stop a diverging evaluation
        timeout = max(int(timeout * float(os.environ.get("VERIF_TIMEOUT_SCALE", "3"))), 900)
        rc, out, err = sh(cmd, timeout=timeout, cwd=self.build)
        return rc == 0, out, err

    def compile_dyn(self, name: str, src: str | None = None, text: str | None = None,
                    theorems: list[str] = (), timeout: int = 300) -> bool:
        """Copy (or write) a per-run Coq file into the build dir, compile it, and record one
        obligation per named theorem (plus the file itself), checking Print Assumptions output."""
        dst = os.path.join(self.build, name)
        if text is None:
            text = open(src).read()
        open(dst, "w").write(text)
        ok, out, err = self.coqc(dst, timeout=timeout)
        self.checker_cmds.append(f"coqc -Q coq/theories TL -Q build/{self.prop}/{self.tier} TLRun {name}")
        detail = ""
        if not ok:
            m = re.search(r'line (\d+), characters.*?\n(Error:.*)', err, flags=re.S)
            detail = (f"{name}:{m.group(1)} {m.group(2)[:400]}" if m else err[-600:])
            # which theorem is the failing line in?
            if m:
                ln = int(m.group(1))
                lines = text.split("\n")[:ln]
                for l in reversed(lines):
                    mm = re.match(r"\s*(Theorem|Lemma|Example|Definition|Corollary)\s+(\w+)", l)
                    if mm:
                        detail = f"[{mm.group(2)}] " + detail
                        break
        self.oblige(f"compile:{name}", ok, detail)
        closed = out.count("Closed under the global context")
        axioms = re.findall(r"(?m)^Axioms:\n((?:.+\n)+)", out)
        if ok:
            for t in theorems:
                self.oblige(f"theorem:{t}", True, "")
            bad_ax = []
            for block in axioms:
                for l in block.split("\n"):
                    mm = re.match(r"^(\S+)\s*:", l)
                    if mm and mm.group(1) not in ALLOWED_AXIOMS:
                        bad_ax.append(mm.group(1))
            self.oblige(f"assumptions:{name} closed ({closed} theorems)", not bad_ax and (closed >= len(theorems)),
                        "axioms: " + ", ".join(bad_ax) if bad_ax else ("" if closed >= len(theorems) else f"only {closed} Print Assumptions lines for {len(theorems)} theorems"))
        else:
            for t in theorems:
                self.oblige(f"theorem:{t}", False, "file does not compile: " + detail[:200])
        return ok

    def check_props(self, relpath: str, theorems: list[str], timeout: int = 600) -> bool:
        """Re-compile a table-independent Props file (coq/theories/Props/Cxx.v) in the build dir so that
        its Print Assumptions output is captured on this run; one obligation per theorem."""
        src = os.path.join(THEORIES, relpath)
        name = "Run_" + os.path.basename(relpath)
        text = open(src).read()
        missing = [t for t in theorems if not re.search(r"(Theorem|Lemma|Corollary)\s+%s\b" % re.escape(t), text)]
        self.oblige(f"props:{relpath} states all claimed theorems", not missing, "missing: " + ", ".join(missing))
        return self.compile_dyn(name, text=text, theorems=theorems, timeout=timeout)

    def coq_eval(self, name: str, text: str, timeout: int = 600) -> list[str] | None:
        dst = os.path.join(self.build, name)
        open(dst, "w").write(text)
        ok, out, err = self.coqc(dst, timeout=timeout)
        if not ok:
            self.notes.append(f"coq_eval {name} failed: {err[-500:]}")
            return None
        return parse_evals(out)

    def coq_eval_many(self, files: dict[str, str], timeout: int = 600, par: int = 12) -> dict[str, list[str] | None]:
        """Evaluate several case files in parallel."""
        from concurrent.futures import ThreadPoolExecutor
        res = {}

        def one(item):
            n, t = item
            return n, self.coq_eval(n, t, timeout)

        with ThreadPoolExecutor(max_workers=par) as ex:
            for n, r in ex.map(one, files.items()):
                res[n] = r
        return res

    # -- book-keeping -------------------------------------------------------------
    def oblige(self, name: str, ok: bool, detail: str = ""):
        self.obligations.append({"name": name, "ok": bool(ok), "detail": detail})
        if not ok:
            self.log(f"OBLIGATION FAILED: {name}: {detail[:300]}")

    def record_corr(self, layer: str, cases: int, mismatches: list, nontrivial: int | None = None,
                    dist: dict | None = None):
        self.corr[layer] = {"cases": cases, "mismatches": len(mismatches),
                            "nontrivial": nontrivial if nontrivial is not None else cases,
                            "first_mismatches": mismatches[:5], "distribution": dist or {}}
        if mismatches:
            self.log(f"CORRESPONDENCE BROKEN in {layer}: {len(mismatches)} of {cases}; first: {json.dumps(mismatches[0], default=str)[:400]}")

    def broken(self) -> list[str]:
        b = [o["name"] for o in self.obligations if not o["ok"]]
        b += [f"correspondence:{k}" for k, v in self.corr.items() if v["mismatches"]]
        return b

    # -- known findings -----------------------------------------------------------
    def findings(self):
        p = os.path.join(VERIF, "known_findings.json")
        if not os.path.exists(p):
            return []
        return [f for f in json.load(open(p)).get("open", []) if f["property"] == self.prop]

    def known(self, entry):
        line = f"KNOWN-FINDING: property={self.prop} {entry['id']}: {entry['what']}"
        if line not in self.known_printed:
            self.known_printed.append(line)
            print(line, flush=True)

    # -- reporting ----------------------------------------------------------------
    def violation(self, payload: dict, found_input: bool = True):
        idx = len(self.violations)
        path = os.path.join("replays", f"{self.prop}-{self.tier}-{idx}.json")
        payload = dict(payload)
        payload.setdefault("property", self.prop)
        payload["failing_input_found"] = found_input
        payload.setdefault("replay_cmd", f"./check {self.prop} --replay {path}")
        with open(os.path.join(VERIF, path), "w") as f:
            json.dump(payload, f, indent=1, default=str)
        self.violations.append({"path": path, "found": found_input})
        tail = "" if found_input else " no-failing-input-found"
        print(f"VIOLATION property={self.prop} replay={path}{tail}", flush=True)

    def prune(self):
        """Disk is limited: drop compiled artefacts and the large generated case files of this run (the replays,
        the evidence and the small generated tables stay)."""
        if os.environ.get("VERIF_KEEP_BUILD"):
            return
        for dp, _, fs in os.walk(self.build):
            for f in fs:
                p = os.path.join(dp, f)
                try:
                    if f.endswith((".vo", ".vok", ".vos", ".glob", ".aux")) or os.path.getsize(p) > 2_000_000:
                        os.remove(p)
                except OSError:
                    pass

    def write_evidence(self):
        obl = len(self.obligations)
        dis = sum(1 for o in self.obligations if o["ok"])
        evals = sum(v["cases"] for v in self.corr.values()) + sum(
            v.get("evaluations", 0) for v in self.search_stats.values())
        nontriv = sum(v["nontrivial"] for v in self.corr.values()) + sum(
            v.get("distinct_nontrivial", 0) for v in self.search_stats.values())
        cov = {
            "obligations": max(obl, 1),
            "discharged": dis,
            "checker_cmd": " && ".join(dict.fromkeys(self.checker_cmds)) or "coqc",
            "trusted_base": TRUSTED_BASE + self.assumptions,
            "obligation_list": self.obligations,
            "correspondence": self.corr,
            "oracle_search": self.search_stats,
            "evaluations": evals,
            "distinct_nontrivial": nontriv,
            "rule": "correspondence cases are generated from VERIF_SEED by the property's generator; a case is "
                    "non-trivial when it is distinct (by its canonical encoding) and exercises the modelled logic "
                    "(per-layer rule in coverage.correspondence.*.distribution)",
            "samples": self.samples[:8] or [o["name"] for o in self.obligations[:5]],
            "runtime_laws_sampled": self.laws,
            "known_findings_reproduced": self.known_printed,
            "notes": self.notes,
        }
        cov.update(self.extra_cov)
        ev = {
            "property_id": self.prop,
            "tier": self.tier,
            "seed": self.seed,
            "level": self.level,
            "coverage": cov,
            "assumptions": TRUSTED_BASE + self.assumptions,
            "wall_s": round(time.time() - self.t0, 2),
            "violations": len(self.violations),
        }
        ev["repo"] = REPO
        if os.path.realpath(REPO) != "/repo":
            # a run against another checkout (TYPELIB_REPO: seeded mutations, scratch worktrees) says nothing
            # about /repo: its evidence stays with the build output
            with open(os.path.join(self.build, "evidence.json"), "w") as f:
                json.dump(ev, f, indent=1, default=str)
            return
        os.makedirs(os.path.join(VERIF, "evidence"), exist_ok=True)
        os.makedirs(os.path.join(VERIF, "evidence", "tiers"), exist_ok=True)
        for name in (f"{self.prop}.json", os.path.join("tiers", f"{self.prop}.{self.tier}.json")):
            with open(os.path.join(VERIF, "evidence", name), "w") as f:
                json.dump(ev, f, indent=1, default=str)


# ----------------------------------------------------------------------------------
# implementation-side subprocess helper
# ----------------------------------------------------------------------------------

def run_impl(script: str, payload, timeout: int = 600):
    """Run harness/<script> with the implementation's interpreter, JSON in/out."""
    rc, out, err = sh([PY, os.path.join(VERIF, "harness", script)], timeout=timeout,
                      cwd=VERIF, env=env_for_impl(), input=json.dumps(payload))
    if rc != 0:
        raise RuntimeError(f"{script} failed rc={rc}: {err[-2000:]}")
    # last line is the JSON result (conda warning lines etc. may precede)
    for line in reversed(out.strip().split("\n")):
        line = line.strip()
        if line.startswith("{") or line.startswith("["):
            return json.loads(line)
    raise RuntimeError(f"{script}: no JSON in output: {out[-500:]} {err[-500:]}")


def run_tie(run: "Run", tie, **kw):
    """Run one bridge / translator tie (harness/<name>tie.py: obligations(run, ...)) inside a check.  A tie that
    crashes is a failed obligation of this run, never a silent skip."""
    name = getattr(tie, "__name__", str(tie))
    t0 = time.time()
    try:
        tie.obligations(run, **kw)
    except Exception:
        tb = traceback.format_exc()
        run.log(f"TIE {name} crashed\n" + tb)
        run.oblige(f"tie:{name} ran to completion", False, tb[-1200:])
    run.notes.append(f"tie {name}: {time.time() - t0:.1f}s")


def main(argv=None):
    import argparse
    import importlib

    ap = argparse.ArgumentParser()
    ap.add_argument("prop")
    ap.add_argument("--tier", default=os.environ.get("VERIF_TIER", "quick"), choices=["quick", "thorough"])
    ap.add_argument("--seed", type=int, default=int(os.environ.get("VERIF_SEED", "20260929")))
    ap.add_argument("--replay", default=None)
    a = ap.parse_args(argv)
    os.chdir(VERIF)
    sys.path.insert(0, os.path.join(VERIF, "harness"))
    mod = importlib.import_module(f"props.{a.prop.lower()}")
    if a.replay:
        payload = json.load(open(a.replay))
        if payload.get("kind") == "warm-history":
            import coremodel
            import coreprop
            r = coremodel.replay_warm(payload, coreprop.same)
        elif payload.get("kind") == "serdesast":
            import serdesasttie
            r = serdesasttie.replay(payload)
        else:
            r = mod.replay(payload)
        print(json.dumps(r, indent=1, default=str))
        return 1 if r.get("fails") else 0
    run = Run(a.prop, a.tier, a.seed)
    run.prepare()
    try:
        drive(run, mod)
    except Exception:
        tb = traceback.format_exc()
        run.log("INTERNAL ERROR\n" + tb)
        run.oblige("harness:ran to completion", False, tb[-1500:])
        run.violation({"kind": "harness-error", "trace": tb,
                       "broken": run.broken()}, found_input=False)
    run.write_evidence()
    run.prune()
    corr = ", ".join("%s:%d/%d" % (k, v["cases"], v["mismatches"]) for k, v in run.corr.items())
    run.log("done: obligations %d/%d, corr {%s}, violations %d" % (
        sum(o["ok"] for o in run.obligations), len(run.obligations), corr, len(run.violations)))
    return 1 if run.violations else 0


def drive(run: Run, mod):
    """The six steps of DESIGN section 2."""
    run.lint()
    if run.base_make(getattr(mod, "COQ_TARGETS", ())):
        mod.prove(run)          # reflect + compile per-run proof files
        mod.correspond(run)     # model vs implementation
    # known findings: replay each on the implementation
    entries = run.findings()
    for e in entries:
        try:
            if mod.reproduces(e):
                run.known(e)
            else:
                run.notes.append(f"known finding {e['id']} no longer reproduces")
        except Exception as ex:  # a replay that crashes is not a reproduction
            run.notes.append(f"known finding {e['id']} replay error: {ex!r}")
    # the property oracle on the implementation
    broken = run.broken()
    failures = mod.search(run, broken)      # list of dicts, each a concrete failing input
    failures = list(failures) + list(getattr(run, "tie_failures", []))      # failing inputs found by shared ties (warm replay)
    fresh = []
    for f in failures:
        hit = next((e for e in entries if mod.matches(e, f)), None)
        if hit is not None:
            run.known(hit)
        else:
            fresh.append(f)
    # report
    seen = set()
    for f in fresh:
        key = f.get("key") or json.dumps(f, sort_keys=True, default=str)
        if key in seen:
            continue
        seen.add(key)
        if len(seen) > 5:
            break
        f["broken_obligations"] = broken
        run.violation(f, found_input=True)
    if broken and not fresh:
        run.violation({"kind": "obligation-or-correspondence-broken",
                       "no_longer_checks": broken,
                       "details": [o for o in run.obligations if not o["ok"]],
                       "correspondence": {k: v for k, v in run.corr.items() if v["mismatches"]},
                       "search": run.search_stats}, found_input=False)


if __name__ == "__main__":
    sys.exit(main())
