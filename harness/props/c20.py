"""C20 -- annotation rewriting for older interpreters preserves meaning (DESIGN 7/C20).

prove:      reflect future._GENERICS + the default union name + the interpreter's view of the typing aliases
            into GenFutureGenerics.v, compile coq/dyn/C20/C20.v against it.
correspond: grammar-generated annotation strings and non-annotation expressions: the tree of
            ast.parse(future.transform(s)) must equal reparse (transform (parse s)) computed in Coq.
search:     the statement itself on the implementation (harness/c20_oracle.py), model-free.
"""
import ast
import inspect
import json
import os
import random
import typing

import c20_lang as L
import c20_oracle as O
import lib

COQ_TARGETS = ["theories/Proofs/FutureLemmas.vo", "theories/Model/FutureEq.vo", "theories/Proofs/FutureEqLemmas.vo"]
ALT_UNIONS = ["Union", "t.Union"]          # other values of the union= argument, tied on a sample
THEOREMS = ["C20_table_wf", "C20_table_documented", "C20_table_sound", "C20_meaning", "C20_no_pep604",
            "C20_fixpoint", "C20_identity", "C20_total", "C20_any_union_name", "C20_refuted_arith_operand",
            "C20_refuted_left_spine"]


# ----------------------------------------------------------------------------------
# reflect
# ----------------------------------------------------------------------------------

def _ascii_ok(s) -> bool:
    return isinstance(s, str) and all(32 <= ord(c) < 127 for c in s)


def reflect_table():
    from typelib.py import future
    problems = []
    table = getattr(future, "_GENERICS", None)
    if not isinstance(table, dict):
        return None, ["future._GENERICS is not a dict"]
    rows, origins = [], []
    for k, v in table.items():
        if not (_ascii_ok(k) and _ascii_ok(v)):
            problems.append(f"non-ASCII / non-string entry {k!r}: {v!r}")
            continue
        rows.append("(%s, %s)" % (L.cstr(k), L.cstr(v)))
        # the interpreter's view of the typing spelling (not typelib's): the origin class of the alias
        try:
            obj = eval(v, {"typing": typing, "__builtins__": {}})
            o = typing.get_origin(obj)
            oname = getattr(o, "__name__", None)
        except Exception:   # noqa: BLE001
            oname = None
        if isinstance(oname, str) and _ascii_ok(oname):
            origins.append("(%s, %s)" % (L.cstr(v), L.cstr(oname)))
    try:
        union = inspect.signature(future.transform).parameters["union"].default
        union2 = inspect.signature(future.TransformAnnotation.__init__).parameters["union"].default
    except Exception as e:   # noqa: BLE001
        return None, [f"cannot read the default union name: {e!r}"]
    if union != union2:
        problems.append(f"transform and TransformAnnotation disagree on the default union name: {union!r} / {union2!r}")
    if not _ascii_ok(union):
        problems.append(f"default union name is not an ASCII string: {union!r}")
        union = "?"
    text = ("(* generated from typelib.py.future on this run *)\n"
            "From Coq Require Import List String.\nImport ListNotations.\nLocal Open Scope string_scope.\n"
            "Definition generics : list (string * string) :=\n  %s.\n"
            "Definition union_name : string := %s.\n"
            "Definition origins : list (string * string) :=\n  %s.\n" % (
                lib.coq_list(rows, "(string * string)"), L.cstr(union), lib.coq_list(origins, "(string * string)")))
    return text, problems


def prove(run: lib.Run):
    text, problems = reflect_table()
    run.oblige("reflect:future._GENERICS and the default union name are readable as ASCII string tables",
               text is not None and not problems, "; ".join(problems))
    if text is None:
        return
    ok = run.compile_dyn("GenFutureGenerics.v", text=text)
    ok = ok and run.compile_dyn("C20.v", src=os.path.join(lib.DYN, "C20", "C20.v"), theorems=THEOREMS)
    if ok and run.tier == "thorough":
        rc, out, err = lib.sh(["coqchk", "-silent", "-o", "-Q", lib.THEORIES, "TL", "-Q", run.build, "TLRun", "TLRun.C20"],
                              timeout=900, cwd=run.build)
        txt = out + err
        clean = rc == 0 and "* Axioms: <none>" in txt and "type-in-type: <none>" in txt and \
            "unsafe (co)fixpoints: <none>" in txt and "positivity is assumed: <none>" in txt
        run.oblige("coqchk:TLRun.C20 re-checked by the standalone checker, no axioms", clean, txt[-400:] if not clean else "")
        run.checker_cmds.append("coqchk -silent -o -Q coq/theories TL -Q build/C20/thorough TLRun TLRun.C20")
    run.assumptions += [
        "C20: ast.parse / ast.unparse are the interpreter's; the model starts from the parsed tree and `reparse` "
        "(Name with a dotted id reads back as an Attribute chain, nothing else changes) is tied by the correspondence",
        "C20: nf (structural meaning) is a definition of the specification: unions flattened, table names equal to "
        "their typing spelling; that the typing spelling is the alias of the builtin is measured from the interpreter "
        "(origins table) and checked by C20_table_sound",
        "C20: evaluation of annotations (typing's own semantics) is exercised by the oracle only",
    ]


# ----------------------------------------------------------------------------------
# inputs
# ----------------------------------------------------------------------------------

def _flag(s: str) -> bool:
    try:
        return L.in_annotation_grammar(ast.parse(s, mode="eval"))
    except SyntaxError:
        return False


def gen_inputs(rng: random.Random, n_ann: int, n_non: int, maxd: int, chain_n: int, thorough: bool = False,
               n_variants: int = 150):
    """[(string, is_annotation)], distinct, corpus first; plus the feature histogram.
    Order: corpus, fixed lists, every parenthesisation of short chains, the round-3 systematic strata (unions of
    constants at every position, every pair of member kinds, the position x kind grid of the model grammar --
    flagged by L.in_annotation_grammar), n_ann / n_non strings of the seeded random grammar, and near-duplicate
    variants of a sample (the cache-key histories)."""
    g = L.Gen(rng)
    out, seen = [], set()
    strata = {}

    def add(s, a, stratum=None):
        if s not in seen:
            seen.add(s)
            try:
                ast.parse(s, mode="eval")     # transform requires valid syntax; composed non-annotation
            except SyntaxError:               # templates are occasionally not (e.g. `*a | b`)
                return False
            out.append((s, a))
            if stratum:
                strata[stratum] = strata.get(stratum, 0) + 1
            return True
        return False

    cdir = os.path.join(lib.VERIF, "corpus", "C20")
    if os.path.isdir(cdir):
        for fn in sorted(os.listdir(cdir)):
            if fn.endswith(".json"):
                for it in json.load(open(os.path.join(cdir, fn))).get("inputs", []):
                    add(it["input"], bool(it.get("annotation", True)), "corpus")
    for s in L.FIXED:
        add(s, True, "fixed")
    for s in L.NONANN_FIXED:
        add(s, False, "fixed-nonann")
    for s in L.corpus_shapes(chain_n):
        add(s, True, "chain-shapes")
    for name, fn in (("const-unions", L.const_union_inputs), ("member-kinds", L.member_kind_inputs),
                     ("grammar-grid", L.grid_inputs)):
        for s in fn(rng, thorough):
            add(s, _flag(s), name)
    depth_hist = {}
    tries = got = 0
    while got < n_ann and tries < n_ann * 4:
        tries += 1
        d = 1 + (tries % maxd)
        if add(g.ann(d), True, "random-grammar"):
            got += 1
            depth_hist[d] = depth_hist.get(d, 0) + 1
    tries = got = 0
    while got < n_non and tries < n_non * 4:
        tries += 1
        got += bool(add(g.nonann(tries % 4), False, "random-nonann"))
    # near-duplicates: the same annotation in another layout, and DIFFERENT annotations that differ only by
    # blanks / case inside a string constant (each call of the stream has all earlier calls as its history)
    withc = [(s, a) for s, a in out if ("'" in s or '"' in s)]
    base = rng.sample(withc, min(len(withc), n_variants)) + rng.sample(out, min(len(out), n_variants // 3))
    for s, a in base:
        vs = L.variants(s)
        rng.shuffle(vs)
        for v, what in vs[:3]:
            add(v, a, "variant:" + what)
    return out, {"features": g.feat, "generator_depth": depth_hist, "strata": strata,
                 "model_grammar_coverage": L.grammar_coverage(out)}


def ast_depth(tree) -> int:
    def d(n):
        return 1 + max((d(c) for c in ast.iter_child_nodes(n) if isinstance(c, ast.expr) or
                        isinstance(c, (ast.keyword, ast.comprehension, ast.arguments))), default=0)
    return d(tree.body)


# ----------------------------------------------------------------------------------
# correspondence
# ----------------------------------------------------------------------------------

HDR = ("From Coq Require Import List String.\nImport ListNotations.\nLocal Open Scope string_scope.\n"
       "Require Import TL.Model.Future TL.Model.FutureEq TLRun.GenFutureGenerics.\n")


def correspond(run: lib.Run):
    from typelib.py import future
    if not os.path.exists(os.path.join(run.build, "GenFutureGenerics.vo")):
        run.record_corr("future", 1, [{"error": "reflected table did not compile"}], 0, {})
        return
    n_ann = run.budget(3500, 40000)
    n_non = run.budget(900, 8000)
    maxd = run.budget(4, 5)
    inputs, dist = gen_inputs(run.rng, n_ann, n_non, maxd, run.budget(4, 5), thorough=run.tier == "thorough",
                              n_variants=run.budget(150, 1500))
    O.reset_state()
    O.LOG.clear()
    # histories of the memo, part 1: a slice of the strings is first transformed under ANOTHER union name; the
    # default call of the main stream below must not be answered from that entry
    alt_first = {}
    for s, is_ann in inputs[-run.budget(150, 600):]:
        try:
            alt_first[s] = O.call(s, ALT_UNIONS[1])
        except Exception as e:   # noqa: BLE001
            alt_first[s] = "raised %r" % e
    cases, coq, bad = [], [], []
    changed = 0
    ndepth = {}
    for s, is_ann in inputs:
        desc = {"input": s, "annotation": is_ann}
        cases.append(desc)
        try:
            tree = ast.parse(s, mode="eval")
        except SyntaxError as e:
            desc["error"] = "generator produced invalid syntax: %r" % e
            coq.append(None)
            continue
        dd = ast_depth(tree)
        ndepth[dd] = ndepth.get(dd, 0) + 1
        try:
            t = O.call(s)
            desc["output"] = t
            ttree = ast.parse(t, mode="eval")
        except Exception as e:   # noqa: BLE001   the model never raises on a parsed tree
            desc["error"] = "transform raised / produced unparsable text: %r" % e
            coq.append(None)
            continue
        if not L.names_are_identifiers(tree):
            desc["error"] = "parser produced a non-identifier Name"
            coq.append(None)
            continue
        changed += ast.dump(tree) != ast.dump(ttree)
        coq.append("(%s,\n   %s, %s)" % (L.to_coq(tree), L.to_coq(ttree), lib.coq_bool(is_ann)))
    # shards of <= 400 cases
    files, index = {}, {}
    ok_idx = [i for i, c in enumerate(coq) if c is not None]
    bad = [i for i, c in enumerate(coq) if c is None]
    shard = 400
    for k in range(0, len(ok_idx), shard):
        part = ok_idx[k:k + shard]
        name = "cases_future_%03d.v" % (k // shard)
        files[name] = (HDR + "Definition cases : list future_case :=\n [" +
                       ";\n  ".join(coq[i] for i in part) +
                       "].\nEval vm_compute in mismatches (future_case_strict generics union_name) cases.\n"
                       "Eval vm_compute in mismatches (future_case_ok generics union_name) cases.\n")
        index[name] = part
    # the union= argument (and the cache keyed on it): the same strings under other union names -- the corpus /
    # fixed head of the stream and an evenly spaced sample through all strata
    n_alt = run.budget(300, 1500)
    alt_sample = inputs[:n_alt // 3] + inputs[n_alt // 3::max(1, (len(inputs) - n_alt // 3) // (n_alt - n_alt // 3))][:n_alt - n_alt // 3]
    alt_cases = []
    for k, alt in enumerate(ALT_UNIONS):
        part = []
        for s, is_ann in alt_sample:
            desc = {"input": s, "annotation": is_ann, "union": alt}
            try:
                tree = ast.parse(s, mode="eval")
                t = O.call(s, alt)
                desc["output"] = t
                ttree = ast.parse(t, mode="eval")
            except Exception as e:   # noqa: BLE001
                desc["error"] = repr(e)
                alt_cases.append(desc)
                continue
            part.append((len(cases) + len(alt_cases), "(%s,\n   %s, %s)" % (L.to_coq(tree), L.to_coq(ttree), lib.coq_bool(is_ann))))
            alt_cases.append(desc)
        for j in range(0, len(part), shard):
            name = "cases_future_union%d_%03d.v" % (k, j // shard)
            files[name] = (HDR + "Definition cases : list future_case :=\n [" + ";\n  ".join(c for _, c in part[j:j + shard]) +
                           "].\nEval vm_compute in mismatches (future_case_strict generics %s) cases.\n"
                           "Eval vm_compute in mismatches (future_case_ok generics %s) cases.\n" % (L.cstr(alt), L.cstr(alt)))
            index[name] = [i for i, _ in part[j:j + shard]]
    bad += [len(cases) + i for i, d in enumerate(alt_cases) if "error" in d]
    cases += alt_cases
    # histories of the memo, part 2: transform is a function of (annotation, union): asking again, after all the
    # other calls (other strings, near-duplicates, other union names), gives the string given the first time
    first = {c["input"]: c.get("output") for c in cases if "union" not in c and "output" in c}
    rep_cases = []
    for s, is_ann in alt_sample + inputs[-run.budget(150, 600):]:
        if s not in first:
            continue
        try:
            t = O.call(s)
        except Exception as e:   # noqa: BLE001
            t = "raised %r" % e
        desc = {"input": s, "annotation": is_ann, "output": t, "first_output": first[s], "stream": "asked-again"}
        if t != first[s]:
            desc["error"] = "transform(s) changed between two calls of one process"
        rep_cases.append(desc)
    for s, t in alt_first.items():
        desc = {"input": s, "annotation": True, "union": ALT_UNIONS[1], "output": t, "stream": "other-union-first"}
        try:
            t2 = O.call(s, ALT_UNIONS[1])
        except Exception as e:   # noqa: BLE001
            t2 = "raised %r" % e
        if t2 != t:
            desc["error"] = "transform(s, union=%r) changed between two calls of one process (now %r)" % (ALT_UNIONS[1], t2)
        rep_cases.append(desc)
    bad += [len(cases) + i for i, d in enumerate(rep_cases) if "error" in d]
    cases += rep_cases
    run.log("correspondence: %d cases on the implementation, %d files for Coq" % (len(cases), len(files)))
    res = run.coq_eval_many(files, timeout=900)
    run.log("correspondence: model evaluated")
    strict = []
    for name, r in res.items():
        if r is None or len(r) < 2:
            run.oblige(f"evaluate:{name}", False, "model evaluation did not compile")
            bad += index[name]
        else:
            strict += [index[name][j] for j in lib.parse_nat_list(r[-2])]
            bad += [index[name][j] for j in lib.parse_nat_list(r[-1])]
    bad = sorted(set(bad))
    drift = sorted(set(strict) - set(bad))
    if drift:
        run.notes.append("C20: the exact tree predicted by the model differs from the implementation on %d inputs with "
                         "arithmetic operators (only totality and identity are demanded and compared there); the "
                         "_refuted_ witnesses may no longer describe the code; first: %r" % (len(drift), cases[drift[0]]))
    dist.update({"other_union_names": {a: sum(1 for c in alt_cases if c["union"] == a) for a in ALT_UNIONS},
                 "asked_again": len(rep_cases)})
    dist.update({"ast_depth": dict(sorted(ndepth.items())), "annotation": sum(1 for _, a in inputs if a),
                 "non_annotation": sum(1 for _, a in inputs if not a), "output_differs_from_input": changed,
                 "exact_tree_disagreements_outside_guard": len(drift),
                 "rule": "non-trivial = distinct string whose transformed tree differs from the input tree"})
    run.record_corr("future", len(cases), [cases[i] for i in bad], changed, dist)
    run.samples += [cases[0], cases[len(cases) // 2]]
    run._c20_mismatching = [cases[i] for i in bad]        # handed to the search
    run._c20_inputs = inputs


# ----------------------------------------------------------------------------------
# oracle search
# ----------------------------------------------------------------------------------

def failure_key(f):
    return json.dumps([f.get("clause"), f.get("input")])


def _own_findings():
    p = os.path.join(lib.VERIF, "findings.d", "C20.json")
    if os.path.exists(p):
        return json.load(open(p)).get("open", [])
    return []


def shrink(s: str, annotation: bool, clause: str, history=()) -> str:
    """structural shrinking on the source text: replace sub-expressions by `int` / hoist children while the
    same clause still fails (after the same history, from a fresh state)"""
    typed = annotation and O.evaluates_to_type(s)
    grammatical = annotation and _flag(s)

    def fails(x):
        if typed and not O.evaluates_to_type(x):      # stay inside the statement's domain while shrinking
            return False
        if grammatical and not _flag(x):
            return False
        return any(f["clause"] == clause for f in O.check_history(history, x, annotation))

    cur = s
    for _ in range(200):
        try:
            tree = ast.parse(cur, mode="eval")
        except SyntaxError:
            break
        cands = []
        for n in ast.walk(tree.body):
            if isinstance(n, ast.expr):
                seg = ast.get_source_segment(cur, n)
                if seg and seg != cur:
                    cands.append(seg)                                      # hoist a child to the root
        for n in ast.walk(tree.body):
            if isinstance(n, ast.expr) and not isinstance(n, (ast.Name, ast.Constant)):
                seg = ast.get_source_segment(cur, n)
                if seg and seg != cur and len(seg) > 3:
                    i = cur.find(seg)
                    cands.append(cur[:i] + "int" + cur[i + len(seg):])   # replace a subtree by a scalar
        cands = sorted(set(cands), key=len)
        for c in cands:
            if len(c) < len(cur):
                try:
                    ast.parse(c, mode="eval")
                except SyntaxError:
                    continue
                if fails(c):
                    cur = c
                    break
        else:
            break
    return cur


# ---- histories ------------------------------------------------------------------------------------------

def _confusable_key(s: str) -> str:
    return "".join(ch.lower() for ch in s if ch.isalnum())


def minimise_history(hist, test, deadline):
    """ddmin on a list of calls: a sublist after which `test` still holds (1-minimal unless the time is up)"""
    import time
    n = 2
    while len(hist) >= 2 and time.time() < deadline:
        size = -(-len(hist) // n)
        chunks = [hist[i:i + size] for i in range(0, len(hist), size)]
        for i, c in enumerate(chunks):
            if test(c):
                hist, n = c, 2
                break
            rest = [h for j, cc in enumerate(chunks) if j != i for h in cc]
            if len(chunks) > 2 and test(rest):
                hist, n = rest, max(n - 1, 2)
                break
        else:
            if n >= len(hist):
                break
            n = min(len(hist), 2 * n)
    return hist


def settle_history(f):
    """f failed somewhere in the long call sequence of this process.  Find what it depends on: nothing (it fails
    from a fresh state), or a minimal list of earlier calls.  Returns the failure re-observed from a fresh state
    after that history, or None when it cannot be re-observed (then it is not reported as a failing input)."""
    import time
    s, a, clause = f["input"], f["annotation"], f["clause"]

    def test(h):
        return any(x["clause"] == clause for x in O.check_history(h, s, a))

    def again(h):
        g = [x for x in O.check_history(h, s, a) if x["clause"] == clause][0]
        g["history_dependent"] = bool(h)
        return g

    given = [tuple(h) for h in f.get("history", [])]
    if test([]):
        return again([])
    if given and test(given):
        return again(minimise_history(given, test, time.time() + 20))
    prefix = list(O.LOG[:f.get("_at", len(O.LOG))])
    keys = {_confusable_key(s), _confusable_key(str(f.get("output", s)))}     # (the fixpoint clause transforms the output)
    near = [h for h in dict.fromkeys(prefix) if (_confusable_key(h[0]) in keys and h[0] != s) or
            (h[0] == s and h[1] is not None)]
    if near and test(near):
        return again(minimise_history(near, test, time.time() + 20))
    prefix = list(dict.fromkeys(prefix))
    if prefix and test(prefix):
        return again(minimise_history(prefix, test, time.time() + 30))
    return None


def history_search(rng, inputs, n_base):
    """the directed history stream: for a sample of inputs X and each near-duplicate Y of X (L.variants), the
    statement for Y after transform(X) and for X after transform(Y), each from a fresh state; and the statement for
    X (default call) after transform(X, union=<other name>)"""
    withc = [(s, a) for s, a in inputs if ("'" in s or '"' in s)]
    base = rng.sample(withc, min(len(withc), n_base)) + rng.sample(list(inputs), min(len(inputs), n_base // 3))
    fails, n, kinds = [], 0, {}
    for x, a in base:
        vs = L.variants(x)
        rng.shuffle(vs)
        for y, what in vs[:3]:
            for h, t in ((x, y), (y, x)):
                n += 1
                kinds[what] = kinds.get(what, 0) + 1
                for f in O.check_history([(h, None)], t, a):
                    f["history_kind"] = what
                    fails.append(f)
        for u in ALT_UNIONS[1:]:
            n += 1
            kinds["other-union-name"] = kinds.get("other-union-name", 0) + 1
            for f in O.check_history([(x, u)], x, a):
                f["history_kind"] = "other-union-name"
                fails.append(f)
        if len(fails) > 100:
            break
    return fails, n, kinds


def fails_in_fresh_process(payload) -> bool:
    """the replay, executed the way `./check C20 --replay` does: in a new interpreter"""
    import subprocess
    import sys
    code = ("import json,sys; sys.path.insert(0, %r); import props.c20 as P; "
            "print('FAILS=%%s' %% bool(P.replay(json.load(sys.stdin))['fails']))" % os.path.join(lib.VERIF, "harness"))
    try:
        p = subprocess.run([sys.executable, "-c", code], input=json.dumps(payload, default=str), capture_output=True,
                           text=True, timeout=120, cwd=lib.VERIF)
    except Exception:   # noqa: BLE001
        return False
    return "FAILS=True" in p.stdout


def search(run: lib.Run, broken):
    rng = random.Random(run.seed + 1)
    fails, nev, nnt, neval, nref = [], 0, 0, 0, 0
    by_clause = {}
    # (0) corpus entries that are histories, (1) the correspondence's mismatching cases first, (2) every
    # correspondence input (corpus first), (3) a fresh stream: bigger when something broke or in the thorough tier,
    # (4) the directed history stream
    cdir = os.path.join(lib.VERIF, "corpus", "C20")
    nhist = 0
    if os.path.isdir(cdir):
        for fn in sorted(os.listdir(cdir)):
            if fn.endswith(".json"):
                for it in json.load(open(os.path.join(cdir, fn))).get("inputs", []):
                    if it.get("history"):
                        nhist += 1
                        fails += O.check_history([tuple(h) for h in it["history"]], it["input"], bool(it.get("annotation", True)))
    todo = [(c["input"], c["annotation"]) for c in getattr(run, "_c20_mismatching", []) if "union" not in c]
    todo += list(getattr(run, "_c20_inputs", []))
    thorough = run.tier == "thorough"
    if not getattr(run, "_c20_inputs", None):
        todo += gen_inputs(rng, 1500, 400, 4, 4)[0]
    extra = run.budget(1500, 24000)
    if broken:
        extra = max(extra, run.budget(6000, 24000))
    fresh_inputs, fresh_dist = gen_inputs(rng, extra, extra // 4, run.budget(4, 5), 3, thorough=thorough)
    todo += fresh_inputs
    seen = set()
    for s, a in todo:
        if (s, a) in seen:
            continue
        seen.add((s, a))
        nev += 1
        if a:
            if O.evaluates(s):
                neval += 1
            elif O.evaluates_ref(s):
                nref += 1
        at = len(O.LOG)
        fs = O.check_string(s, a)
        try:
            nnt += O.has_constructs(ast.parse(s, mode="eval"))
        except SyntaxError:
            pass
        for f in fs:
            f["_at"] = at
            by_clause[f["clause"]] = by_clause.get(f["clause"], 0) + 1
        fails += fs
        if len(fails) > 300:
            break
    run.log("oracle: %d strings checked, %d failures" % (nev, len(fails)))
    hf, nh, hkinds = history_search(rng, sorted(seen), run.budget(120, 1500) * (2 if broken else 1))
    for f in hf:
        by_clause[f["clause"]] = by_clause.get(f["clause"], 0) + 1
    fails += hf
    nhist += nh
    run.log("oracle: %d history checks, %d failures" % (nh, len(hf)))
    # keep, per clause, the smallest failing inputs (history-free ones first); settle what each depends on, shrink
    best = {}

    def rank(f):
        # the most ordinary annotations first: evaluates as written, or under the reference reading without an
        # Ellipsis among the union members; then by size
        s = f["input"]
        r = 0 if O.evaluates(s) else 1 if (O.evaluates_ref(s) and "..." not in s) else 2
        return (r, len(s) + sum(len(h[0]) for h in f.get("history", [])))

    for f in sorted(fails, key=rank):
        best.setdefault(f["clause"], [])
        if len(best[f["clause"]]) < 3 and f["input"] not in [g["input"] for g in best[f["clause"]]]:
            best[f["clause"]].append(f)
    out, unsettled = [], 0
    for clause, fl in best.items():
        kept = 0
        for f in fl:
            g = settle_history(f)
            if g is None:
                unsettled += 1
                continue
            if kept >= 2:
                break
            kept += 1
            hist = [tuple(h) for h in g.get("history", [])]
            if not hist:
                small = shrink(g["input"], g["annotation"], clause)
                if small != g["input"]:
                    gg = [x for x in O.check_history([], small, g["annotation"]) if x["clause"] == clause]
                    if gg:
                        gg[0]["shrunk_from"] = g["input"]
                        gg[0]["history_dependent"] = False
                        g = gg[0]
            if "history_kind" in f:
                g["history_kind"] = f["history_kind"]
            g["fails_in_fresh_process"] = fails_in_fresh_process(g)
            g["key"] = failure_key(g)
            out.append(g)
    out.sort(key=lambda g: (not g["fails_in_fresh_process"], bool(g.get("history"))))
    # listed findings of this property that the lead has not merged into known_findings.json yet
    merged = {e["id"] for e in run.findings()}
    rest = []
    for f in out:
        hit = next((e for e in _own_findings() if e["id"] not in merged and matches(e, f)), None)
        if hit is not None and reproduces(hit):
            run.known(hit)
        else:
            rest.append(f)
    run.search_stats["oracle"] = {
        "evaluations": nev + nhist, "distinct_nontrivial": nnt, "annotation_inputs_that_evaluate": neval,
        "annotation_inputs_read_by_reference_reading": nref,
        "history_checks": nhist, "history_kinds": hkinds, "failures_not_reobserved_from_a_fresh_state": unsettled,
        "fresh_stream_strata": fresh_dist.get("strata"), "fresh_stream_grammar_coverage": fresh_dist.get("model_grammar_coverage"),
        "failures": len(fails), "failures_by_clause": by_clause,
        "rule": "every correspondence input + a fresh generator stream (same strata, other seed) + the directed "
                "history stream (near-duplicate strings / other union name transformed first, from a fresh module "
                "state); clauses: total (no exception, output parses), "
                "identity (ast.dump equal when the input has no `|` and no documented builtin generic name), and for "
                "annotation-grammar inputs: no BitOr / documented builtin Name left outside string and Literal "
                "constants, transform(transform(s)) == transform(s), eval of both sides in a namespace of dummy "
                "generic classes and typing objects gives the same structure (origins, args; unions as sets; a str "
                "argument is the ForwardRef of it; an input whose `|` the interpreter rejects is read with "
                "a | b = typing.Union[a, b]); non-trivial = input contains a construct",
    }
    if rest:
        run.samples.append({"oracle_failure": rest[0]})
    # the witnesses of the _refuted_ theorems, replayed on the implementation (outside the quantifier: arithmetic)
    run.extra_cov["refuted_witness_replays"] = refuted_replays()
    return rest


def refuted_replays():
    from typelib.py import future
    out = {}
    try:
        t = future.transform("(a | b) + c")
        out["C20_refuted_arith_operand"] = {"input": "(a | b) + c", "output": t,
                                            "reproduces": O.scan(ast.parse(t, mode="eval"))[0] > 0}
        t = future.transform("a + b | c")
        out["C20_refuted_left_spine"] = {"input": "a + b | c", "output": t,
                                         "reproduces": ast.dump(ast.parse(t, mode="eval")) ==
                                         ast.dump(ast.parse("typing.Union[a, b, c]", mode="eval"))}
    except Exception as e:   # noqa: BLE001
        out["error"] = repr(e)
    return out


# ----------------------------------------------------------------------------------
# known findings / replay
# ----------------------------------------------------------------------------------

def replay(payload):
    if "input" not in payload:
        return {"fails": False, "note": "no concrete input in this replay (broken obligation / correspondence): "
                                        "re-run ./check C20", "payload_kind": payload.get("kind")}
    hist = [tuple(h) for h in payload.get("history") or []]
    fs = O.check_history(hist, payload["input"], bool(payload.get("annotation", True)))
    if payload.get("clause"):
        fs = [f for f in fs if f["clause"] == payload["clause"]]
    return {"fails": bool(fs), "failures": fs}


def reproduces(entry):
    return replay(entry["replay"])["fails"]


def matches(entry, failure):
    m = entry.get("matches", {})
    return all(failure.get(k) == v for k, v in m.items())
