"""C20 -- annotation rewriting for older interpreters preserves meaning (DESIGN 7/C20).

prove:      reflect future._GENERICS + the default union name + the interpreter's view of the typing aliases
            into GenFutureGenerics.v, compile coq/dyn/C20/C20.v against it.
correspond: grammar-generated annotation strings and non-annotation expressions: the tree of
            ast.parse(future.transform(s)) must equal reparse (transform (parse s)) computed in Coq.
search:     the statement itself on the implementation (harness/c20_oracle.py), model-free.
"""
import ast
import inspect
import json
import os
import random
import typing

import c20_lang as L
import c20_oracle as O
import lib

COQ_TARGETS = ["theories/Proofs/FutureLemmas.vo", "theories/Model/FutureEq.vo", "theories/Proofs/FutureEqLemmas.vo"]
ALT_UNIONS = ["Union", "t.Union"]          # other values of the union= argument, tied on a sample
THEOREMS = ["C20_table_wf", "C20_table_documented", "C20_table_sound", "C20_meaning", "C20_no_pep604",
            "C20_fixpoint", "C20_identity", "C20_total", "C20_any_union_name", "C20_refuted_arith_operand",
            "C20_refuted_left_spine"]


# ----------------------------------------------------------------------------------
# reflect
# ----------------------------------------------------------------------------------

def _ascii_ok(s) -> bool:
    return isinstance(s, str) and all(32 <= ord(c) < 127 for c in s)


def reflect_table():
    from typelib.py import future
    problems = []
    table = getattr(future, "_GENERICS", None)
    if not isinstance(table, dict):
        return None, ["future._GENERICS is not a dict"]
    rows, origins = [], []
    for k, v in table.items():
        if not (_ascii_ok(k) and _ascii_ok(v)):
            problems.append(f"non-ASCII / non-string entry {k!r}: {v!r}")
            continue
        rows.append("(%s, %s)" % (L.cstr(k), L.cstr(v)))
        # the interpreter's view of the typing spelling (not typelib's): the origin class of the alias
        try:
            obj = eval(v, {"typing": typing, "__builtins__": {}})
            o = typing.get_origin(obj)
            oname = getattr(o, "__name__", None)
        except Exception:   # noqa: BLE001
            oname = None
        if isinstance(oname, str) and _ascii_ok(oname):
            origins.append("(%s, %s)" % (L.cstr(v), L.cstr(oname)))
    try:
        union = inspect.signature(future.transform).parameters["union"].default
        union2 = inspect.signature(future.TransformAnnotation.__init__).parameters["union"].default
    except Exception as e:   # noqa: BLE001
        return None, [f"cannot read the default union name: {e!r}"]
    if union != union2:
        problems.append(f"transform and TransformAnnotation disagree on the default union name: {union!r} / {union2!r}")
    if not _ascii_ok(union):
        problems.append(f"default union name is not an ASCII string: {union!r}")
        union = "?"
    text = ("(* generated from typelib.py.future on this run *)\n"
            "From Coq Require Import List String.\nImport ListNotations.\nLocal Open Scope string_scope.\n"
            "Definition generics : list (string * string) :=\n  %s.\n"
            "Definition union_name : string := %s.\n"
            "Definition origins : list (string * string) :=\n  %s.\n" % (
                lib.coq_list(rows, "(string * string)"), L.cstr(union), lib.coq_list(origins, "(string * string)")))
    return text, problems


def prove(run: lib.Run):
    text, problems = reflect_table()
    run.oblige("reflect:future._GENERICS and the default union name are readable as ASCII string tables",
               text is not None and not problems, "; ".join(problems))
    if text is None:
        return
    ok = run.compile_dyn("GenFutureGenerics.v", text=text)
    ok = ok and run.compile_dyn("C20.v", src=os.path.join(lib.DYN, "C20", "C20.v"), theorems=THEOREMS)
    if ok and run.tier == "thorough":
        rc, out, err = lib.sh(["coqchk", "-silent", "-o", "-Q", lib.THEORIES, "TL", "-Q", run.build, "TLRun", "TLRun.C20"],
                              timeout=900, cwd=run.build)
        txt = out + err
        clean = rc == 0 and "* Axioms: <none>" in txt and "type-in-type: <none>" in txt and \
            "unsafe (co)fixpoints: <none>" in txt and "positivity is assumed: <none>" in txt
        run.oblige("coqchk:TLRun.C20 re-checked by the standalone checker, no axioms", clean, txt[-400:] if not clean else "")
        run.checker_cmds.append("coqchk -silent -o -Q coq/theories TL -Q build/C20/thorough TLRun TLRun.C20")
    run.assumptions += [
        "C20: ast.parse / ast.unparse are the interpreter's; the model starts from the parsed tree and `reparse` "
        "(Name with a dotted id reads back as an Attribute chain, nothing else changes) is tied by the correspondence",
        "C20: nf (structural meaning) is a definition of the specification: unions flattened, table names equal to "
        "their typing spelling; that the typing spelling is the alias of the builtin is measured from the interpreter "
        "(origins table) and checked by C20_table_sound",
        "C20: evaluation of annotations (typing's own semantics) is exercised by the oracle only",
    ]


# ----------------------------------------------------------------------------------
# inputs
# ----------------------------------------------------------------------------------

def gen_inputs(rng: random.Random, n_ann: int, n_non: int, maxd: int, chain_n: int):
    """[(string, is_annotation)], distinct, corpus first; plus the feature histogram"""
    g = L.Gen(rng)
    out, seen = [], set()

    def add(s, a):
        if s not in seen:
            seen.add(s)
            try:
                ast.parse(s, mode="eval")     # transform requires valid syntax; composed non-annotation
            except SyntaxError:               # templates are occasionally not (e.g. `*a | b`)
                return
            out.append((s, a))

    cdir = os.path.join(lib.VERIF, "corpus", "C20")
    if os.path.isdir(cdir):
        for fn in sorted(os.listdir(cdir)):
            if fn.endswith(".json"):
                for it in json.load(open(os.path.join(cdir, fn))).get("inputs", []):
                    add(it["input"], bool(it.get("annotation", True)))
    for s in L.FIXED:
        add(s, True)
    for s in L.NONANN_FIXED:
        add(s, False)
    for s in L.corpus_shapes(chain_n):
        add(s, True)
    depth_hist = {}
    tries = 0
    while sum(1 for _, a in out if a) < n_ann and tries < n_ann * 4:
        tries += 1
        d = 1 + (tries % maxd)
        before = len(out)
        add(g.ann(d), True)
        if len(out) > before:
            depth_hist[d] = depth_hist.get(d, 0) + 1
    tries = 0
    while sum(1 for _, a in out if not a) < n_non and tries < n_non * 4:
        tries += 1
        add(g.nonann(tries % 4), False)
    return out, {"features": g.feat, "generator_depth": depth_hist}


def ast_depth(tree) -> int:
    def d(n):
        return 1 + max((d(c) for c in ast.iter_child_nodes(n) if isinstance(c, ast.expr) or
                        isinstance(c, (ast.keyword, ast.comprehension, ast.arguments))), default=0)
    return d(tree.body)


# ----------------------------------------------------------------------------------
# correspondence
# ----------------------------------------------------------------------------------

HDR = ("From Coq Require Import List String.\nImport ListNotations.\nLocal Open Scope string_scope.\n"
       "Require Import TL.Model.Future TL.Model.FutureEq TLRun.GenFutureGenerics.\n")


def correspond(run: lib.Run):
    from typelib.py import future
    if not os.path.exists(os.path.join(run.build, "GenFutureGenerics.vo")):
        run.record_corr("future", 1, [{"error": "reflected table did not compile"}], 0, {})
        return
    n_ann = run.budget(3500, 40000)
    n_non = run.budget(900, 8000)
    maxd = run.budget(4, 5)
    inputs, dist = gen_inputs(run.rng, n_ann, n_non, maxd, run.budget(4, 5))
    cases, coq, bad = [], [], []
    changed = 0
    ndepth = {}
    for s, is_ann in inputs:
        desc = {"input": s, "annotation": is_ann}
        cases.append(desc)
        try:
            tree = ast.parse(s, mode="eval")
        except SyntaxError as e:
            desc["error"] = "generator produced invalid syntax: %r" % e
            coq.append(None)
            continue
        dd = ast_depth(tree)
        ndepth[dd] = ndepth.get(dd, 0) + 1
        try:
            t = future.transform(s)
            desc["output"] = t
            ttree = ast.parse(t, mode="eval")
        except Exception as e:   # noqa: BLE001   the model never raises on a parsed tree
            desc["error"] = "transform raised / produced unparsable text: %r" % e
            coq.append(None)
            continue
        if not L.names_are_identifiers(tree):
            desc["error"] = "parser produced a non-identifier Name"
            coq.append(None)
            continue
        changed += ast.dump(tree) != ast.dump(ttree)
        coq.append("(%s,\n   %s, %s)" % (L.to_coq(tree), L.to_coq(ttree), lib.coq_bool(is_ann)))
    # shards of <= 400 cases
    files, index = {}, {}
    ok_idx = [i for i, c in enumerate(coq) if c is not None]
    bad = [i for i, c in enumerate(coq) if c is None]
    shard = 400
    for k in range(0, len(ok_idx), shard):
        part = ok_idx[k:k + shard]
        name = "cases_future_%03d.v" % (k // shard)
        files[name] = (HDR + "Definition cases : list future_case :=\n [" +
                       ";\n  ".join(coq[i] for i in part) +
                       "].\nEval vm_compute in mismatches (future_case_strict generics union_name) cases.\n"
                       "Eval vm_compute in mismatches (future_case_ok generics union_name) cases.\n")
        index[name] = part
    # the union= argument (and the cache keyed on it): the same strings under other union names
    alt_cases = []
    for k, alt in enumerate(ALT_UNIONS):
        part = []
        for s, is_ann in inputs[:run.budget(300, 1500)]:
            desc = {"input": s, "annotation": is_ann, "union": alt}
            try:
                tree = ast.parse(s, mode="eval")
                t = future.transform(s, union=alt)
                desc["output"] = t
                ttree = ast.parse(t, mode="eval")
            except Exception as e:   # noqa: BLE001
                desc["error"] = repr(e)
                alt_cases.append(desc)
                continue
            part.append((len(cases) + len(alt_cases), "(%s,\n   %s, %s)" % (L.to_coq(tree), L.to_coq(ttree), lib.coq_bool(is_ann))))
            alt_cases.append(desc)
        for j in range(0, len(part), shard):
            name = "cases_future_union%d_%03d.v" % (k, j // shard)
            files[name] = (HDR + "Definition cases : list future_case :=\n [" + ";\n  ".join(c for _, c in part[j:j + shard]) +
                           "].\nEval vm_compute in mismatches (future_case_strict generics %s) cases.\n"
                           "Eval vm_compute in mismatches (future_case_ok generics %s) cases.\n" % (L.cstr(alt), L.cstr(alt)))
            index[name] = [i for i, _ in part[j:j + shard]]
    bad += [len(cases) + i for i, d in enumerate(alt_cases) if "error" in d]
    cases += alt_cases
    res = run.coq_eval_many(files, timeout=900)
    strict = []
    for name, r in res.items():
        if r is None or len(r) < 2:
            run.oblige(f"evaluate:{name}", False, "model evaluation did not compile")
            bad += index[name]
        else:
            strict += [index[name][j] for j in lib.parse_nat_list(r[-2])]
            bad += [index[name][j] for j in lib.parse_nat_list(r[-1])]
    bad = sorted(set(bad))
    drift = sorted(set(strict) - set(bad))
    if drift:
        run.notes.append("C20: the exact tree predicted by the model differs from the implementation on %d inputs with "
                         "arithmetic operators (only totality and identity are demanded and compared there); the "
                         "_refuted_ witnesses may no longer describe the code; first: %r" % (len(drift), cases[drift[0]]))
    dist.update({"other_union_names": {a: sum(1 for c in alt_cases if c["union"] == a) for a in ALT_UNIONS}})
    dist.update({"ast_depth": dict(sorted(ndepth.items())), "annotation": sum(1 for _, a in inputs if a),
                 "non_annotation": sum(1 for _, a in inputs if not a), "output_differs_from_input": changed,
                 "exact_tree_disagreements_outside_guard": len(drift),
                 "rule": "non-trivial = distinct string whose transformed tree differs from the input tree"})
    run.record_corr("future", len(cases), [cases[i] for i in bad], changed, dist)
    run.samples += [cases[0], cases[len(cases) // 2]]
    run._c20_mismatching = [cases[i] for i in bad]        # handed to the search
    run._c20_inputs = inputs


# ----------------------------------------------------------------------------------
# oracle search
# ----------------------------------------------------------------------------------

def failure_key(f):
    return json.dumps([f.get("clause"), f.get("input")])


def _own_findings():
    p = os.path.join(lib.VERIF, "findings.d", "C20.json")
    if os.path.exists(p):
        return json.load(open(p)).get("open", [])
    return []


def shrink(s: str, annotation: bool, clause: str) -> str:
    """structural shrinking on the source text: replace sub-expressions by `int` / hoist children while the
    same clause still fails"""
    typed = annotation and O.evaluates_to_type(s)

    def fails(x):
        if typed and not O.evaluates_to_type(x):      # stay inside the statement's domain while shrinking
            return False
        return any(f["clause"] == clause for f in O.check_string(x, annotation))

    cur = s
    for _ in range(200):
        try:
            tree = ast.parse(cur, mode="eval")
        except SyntaxError:
            break
        cands = []
        for n in ast.walk(tree.body):
            if isinstance(n, ast.expr):
                seg = ast.get_source_segment(cur, n)
                if seg and seg != cur:
                    cands.append(seg)                                      # hoist a child to the root
        for n in ast.walk(tree.body):
            if isinstance(n, ast.expr) and not isinstance(n, (ast.Name, ast.Constant)):
                seg = ast.get_source_segment(cur, n)
                if seg and seg != cur and len(seg) > 3:
                    i = cur.find(seg)
                    cands.append(cur[:i] + "int" + cur[i + len(seg):])   # replace a subtree by a scalar
        cands = sorted(set(cands), key=len)
        for c in cands:
            if len(c) < len(cur):
                try:
                    ast.parse(c, mode="eval")
                except SyntaxError:
                    continue
                if fails(c):
                    cur = c
                    break
        else:
            break
    return cur


def search(run: lib.Run, broken):
    rng = random.Random(run.seed + 1)
    fails, nev, nnt, neval = [], 0, 0, 0
    by_clause = {}
    # (1) the correspondence's mismatching cases first, (2) every correspondence input (corpus first),
    # (3) a fresh stream: bigger when something broke or in the thorough tier
    todo = [(c["input"], c["annotation"]) for c in getattr(run, "_c20_mismatching", [])]
    todo += list(getattr(run, "_c20_inputs", []))
    if not getattr(run, "_c20_inputs", None):
        todo += gen_inputs(rng, 1500, 400, 4, 4)[0]
    extra = run.budget(1500, 24000)
    if broken:
        extra = max(extra, run.budget(6000, 24000))
    todo += gen_inputs(rng, extra, extra // 4, run.budget(4, 5), 3)[0]
    seen = set()
    for s, a in todo:
        if (s, a) in seen:
            continue
        seen.add((s, a))
        nev += 1
        if a:
            if O.evaluates(s):
                neval += 1
        fs = O.check_string(s, a)
        try:
            nnt += O.has_constructs(ast.parse(s, mode="eval"))
        except SyntaxError:
            pass
        for f in fs:
            by_clause[f["clause"]] = by_clause.get(f["clause"], 0) + 1
        fails += fs
        if len(fails) > 300:
            break
    # keep, per clause, the smallest failing inputs; shrink them
    best = {}
    for f in sorted(fails, key=lambda f: len(f["input"])):
        best.setdefault(f["clause"], [])
        if len(best[f["clause"]]) < 2:
            best[f["clause"]].append(f)
    out = []
    for clause, fl in best.items():
        for f in fl:
            small = shrink(f["input"], f["annotation"], clause)
            if small != f["input"]:
                g = [x for x in O.check_string(small, f["annotation"]) if x["clause"] == clause]
                if g:
                    g[0]["shrunk_from"] = f["input"]
                    f = g[0]
            f["key"] = failure_key(f)
            out.append(f)
    # listed findings of this property that the lead has not merged into known_findings.json yet
    merged = {e["id"] for e in run.findings()}
    rest = []
    for f in out:
        hit = next((e for e in _own_findings() if e["id"] not in merged and matches(e, f)), None)
        if hit is not None and reproduces(hit):
            run.known(hit)
        else:
            rest.append(f)
    run.search_stats["oracle"] = {
        "evaluations": nev, "distinct_nontrivial": nnt, "annotation_inputs_that_evaluate": neval,
        "failures": len(fails), "failures_by_clause": by_clause,
        "rule": "every correspondence input + a fresh generator stream; clauses: total (no exception, output parses), "
                "identity (ast.dump equal when the input has no `|` and no documented builtin generic name), and for "
                "annotation-grammar inputs: no BitOr / documented builtin Name left outside string and Literal "
                "constants, transform(transform(s)) == transform(s), eval of both sides in a namespace of dummy "
                "generic classes and typing objects gives the same structure (origins, args; unions as sets; a str "
                "argument is the ForwardRef of it); non-trivial = input contains a construct",
    }
    if rest:
        run.samples.append({"oracle_failure": rest[0]})
    # the witnesses of the _refuted_ theorems, replayed on the implementation (outside the quantifier: arithmetic)
    run.extra_cov["refuted_witness_replays"] = refuted_replays()
    return rest


def refuted_replays():
    from typelib.py import future
    out = {}
    try:
        t = future.transform("(a | b) + c")
        out["C20_refuted_arith_operand"] = {"input": "(a | b) + c", "output": t,
                                            "reproduces": O.scan(ast.parse(t, mode="eval"))[0] > 0}
        t = future.transform("a + b | c")
        out["C20_refuted_left_spine"] = {"input": "a + b | c", "output": t,
                                         "reproduces": ast.dump(ast.parse(t, mode="eval")) ==
                                         ast.dump(ast.parse("typing.Union[a, b, c]", mode="eval"))}
    except Exception as e:   # noqa: BLE001
        out["error"] = repr(e)
    return out


# ----------------------------------------------------------------------------------
# known findings / replay
# ----------------------------------------------------------------------------------

def replay(payload):
    if "input" not in payload:
        return {"fails": False, "note": "no concrete input in this replay (broken obligation / correspondence): "
                                        "re-run ./check C20", "payload_kind": payload.get("kind")}
    fs = O.check_string(payload["input"], bool(payload.get("annotation", True)))
    if payload.get("clause"):
        fs = [f for f in fs if f["clause"] == payload["clause"]]
    return {"fails": bool(fs), "failures": fs}


def reproduces(entry):
    return replay(entry["replay"])["fails"]


def matches(entry, failure):
    m = entry.get("matches", {})
    return all(failure.get(k) == v for k, v in m.items())
