"""C02 -- JSON wire round trip and agreement of all entry points (DESIGN 7/C02)."""
from __future__ import annotations

import collections
import glob
import json
import os
import random

import c02_families
import c02_modules
import c02_universe as U
import impl
import lib
import jsontie
import capstonetie

COQ_TARGETS = ["theories/Proofs/CodecLemmas.vo", "theories/Model/CodecEq.vo"]
COQ_TARGETS = COQ_TARGETS + [t for t in jsontie.COQ_TARGETS if t not in COQ_TARGETS]
COQ_TARGETS = COQ_TARGETS + [t for t in capstonetie.COQ_TARGETS if t not in COQ_TARGETS]
THEOREMS = ["C02_entry_points_encode", "C02_entry_points_decode", "C02_encode_default_t",
            "C02_exception_parity_encode", "C02_exception_parity_decode", "C02_bytes_verbatim",
            "C02_roundtrip", "C02_valid_json", "C02_cache_transparent", "C02_refuted_api_bytes"]


# ----------------------------------------------------------------------------------
# encoder / decoder configurations
# ----------------------------------------------------------------------------------

def std_dumps(w):
    return json.dumps(w).encode("utf-8")


def std_loads(b):
    return json.loads(b)


def tag_dumps(w):
    return b"TAG" + json.dumps(w, separators=(",", ":")).encode("utf-8")


def tag_loads(b):
    if isinstance(b, str):
        b = b.encode("utf-8")
    b = bytes(b)
    if not b.startswith(b"TAG"):
        raise ValueError("untagged")
    return json.loads(b[3:])


def user_marshaller(x):
    return ["M", 1]


def user_unmarshaller(x):
    return ("U", x)


CONFIGS = {
    "default": (None, None),            # nothing passed: compat.json.dumps / loads (orjson if importable)
    "stdlib": (std_dumps, std_loads),
    "tag": (tag_dumps, tag_loads),
    "enc-only": (tag_dumps, None),      # one side supplied, the other defaulted
    "dec-only": (None, tag_loads),
}
CONFIG_ORDER = ["default", "stdlib", "tag", "default", "stdlib", "tag", "enc-only", "dec-only"]


def backend():
    from typelib.py import compat
    return compat.json


# ----------------------------------------------------------------------------------
# observing one case on the implementation
# ----------------------------------------------------------------------------------

class Intern:
    def __init__(self):
        self.ids: dict[str, int] = {}
        self.objs: list = []

    def __call__(self, x) -> int:
        k = json.dumps(U.canon(x), default=repr)
        if k not in self.ids:
            self.ids[k] = len(self.objs)
            self.objs.append(x)
        return self.ids[k]


def call(I: Intern, f, *a, **kw):
    """-> ('ok', id) | ('raise', kind)"""
    try:
        r = f(*a, **kw)
    except Exception as e:
        return ("raise", impl.exc_kind(e))
    return ("ok", I(r))


def raw(f, *a, **kw):
    """-> ('ok', value) | ('raise', kind, text)"""
    try:
        return ("ok", f(*a, **kw))
    except Exception as e:
        return ("raise", impl.exc_kind(e), f"{type(e).__name__}: {e}"[:160])


def decode_inputs(rng: random.Random, encs: list, v, bytes_t: bool):
    """byte strings (and other carriers) fed to the decode side: what encode produced, damaged
    variants of it, other JSON documents, non-JSON bytes, the str / bytearray / memoryview carriers."""
    out = []
    good = [b for b in encs if isinstance(b, (bytes, bytearray, memoryview))]
    for b in good:
        out.append(b)
    pool = [b"", b"null", b"123", b"\"abc\"", b"[1,2", b"{\"f0\": 1}", b"[]", b"{}", b"\xff\xfe", b"TAG1", b"TAGnull",
            b"TAG\"abc\"", b"true", b"[\"a\", 1]", b"1.5", b"\"2020-01-02\"", b"TAG{\"f0\":[1]}"]
    if good:
        b = bytes(good[0])
        out.append(b[: len(b) // 2])
        out.append(b + b"x")
        try:
            out.append(b.decode("utf-8"))          # str carrier
        except UnicodeDecodeError:
            pass
        out.append(bytearray(b))
        out.append(memoryview(b))
    out += rng.sample(pool, 3)
    if rng.random() < 0.5:
        out.append(rng.choice(pool).decode("utf-8", "replace"))
    # distinct, bounded
    seen, res = set(), []
    for b in out:
        k = json.dumps(U.canon(b))
        if k not in seen:
            seen.add(k)
            res.append(b)
    keep = res[: len(good)] + rng.sample(res[len(good):], min(4, len(res) - len(good)))
    return keep


def observe(case: dict, config: str, rng: random.Random, with_user: bool = False) -> dict:
    """Run one (T, v, configuration) on the implementation: fill the tables of the four glued callables by
    calling them directly, and record what the entry points themselves return."""
    import typelib
    from typelib import marshals, unmarshals
    from typelib.py import inspection
    impl.clear_caches()
    _, T, v = U.build(case)
    e, d = CONFIGS[config]
    js = backend()
    I = Intern()
    vid = I(v)
    types = [T, type(v)]
    ekw = {} if e is None else {"encoder": e}
    dkw = {} if d is None else {"decoder": d}
    enc_f = e or js.dumps
    dec_f = d or js.loads

    # -- the entry points (observed first: the cache state is then the one a user sees)
    obs = {}
    obs["api_enc"] = raw(typelib.encode, v, t=T, **ekw)
    obs["api_enc_not"] = raw(typelib.encode, v, **ekw)
    obs["codec_enc"] = raw(lambda: typelib.codec(T, **ekw, **dkw).encode(v))
    obs["expl_enc"] = raw(lambda: enc_f(typelib.marshal(v, t=T)))
    encs = [o[1] for o in (obs["api_enc"], obs["codec_enc"], obs["expl_enc"]) if o[0] == "ok"]
    bs = decode_inputs(rng, encs, v, case["bytes_t"])
    obs["dec"] = []
    for b in bs:
        obs["dec"].append({
            "api": raw(typelib.decode, T, b, **dkw),
            "codec": raw(lambda: typelib.codec(T, **ekw, **dkw).decode(b)),
            "expl": raw(lambda: typelib.unmarshal(T, dec_f(b))),
        })

    # -- tables: the glued callables called directly
    def mk(factory, t):
        try:
            return factory(t)
        except Exception as ex:
            return ("raise", impl.exc_kind(ex))

    mar_tbl, unm_tbl = [], []
    wires = []
    for i, t in enumerate(types):
        r = mk(marshals.marshaller, t)
        if isinstance(r, tuple):
            mar_tbl.append((i, r))
            continue
        res = call(I, r, v)
        mar_tbl.append((i, ("ok", [(vid, res)])))
        if res[0] == "ok":
            wires.append(res[1])
    dumps_tbl = [(w, call(I, js.dumps, I.objs[w])) for w in dict.fromkeys(wires)]
    user_e = [(w, call(I, e, I.objs[w])) for w in dict.fromkeys(wires)] if e else []
    bids = [I(b) for b in bs]
    loads_tbl = [(bid, call(I, js.loads, b)) for bid, b in zip(bids, bs)]
    user_d = [(bid, call(I, d, b)) for bid, b in zip(bids, bs)] if d else []
    r = mk(unmarshals.unmarshaller, T)
    if isinstance(r, tuple):
        unm_tbl.append((0, r))
    else:
        xs = list(bids)
        for tb in (loads_tbl, user_d):
            xs += [res[1] for _, res in tb if res[0] == "ok"]
        unm_tbl.append((0, ("ok", [(x, call(I, r, I.objs[x])) for x in dict.fromkeys(xs)])))
    # bytes-like: for the declared T the harness's OWN description decides (a bytes-like root, however wrapped), not the
    # implementation's predicate -- otherwise the model would follow the code wherever the code mis-classifies T
    isb = [(0, bool(case.get("bytes_t"))), (1, bool(inspection.isbytestype(types[1])))]

    def o2r(o):
        return ("ok", I(o[1])) if o[0] == "ok" else ("raise", o[1])

    eidx = None if e is None else 0
    didx = None if d is None else 1
    # Projection (DESIGN 5.2): the property speaks about supported T only (c02_guard: both routines can be
    # built).  Outside it the entry points legitimately raise at different moments (codec() builds both routines
    # eagerly, decode() runs the decoder before it builds the unmarshaller), so nothing is compared there.
    supported = [not isinstance(mk(marshals.marshaller, t), tuple) and not isinstance(mk(unmarshals.unmarshaller, t), tuple)
                 for t in types]
    calls = []
    if supported[0]:
        calls += [(("ApiEnc", vid, 0, eidx), o2r(obs["api_enc"])),
                  (("CodecEnc", 0, eidx, didx, vid), o2r(obs["codec_enc"])),
                  (("ExplEnc", 0, eidx, vid), o2r(obs["expl_enc"]))]
        for bid, od in zip(bids, obs["dec"]):
            calls.append((("ApiDec", 0, bid, didx), o2r(od["api"])))
            calls.append((("CodecDec", 0, eidx, didx, bid), o2r(od["codec"])))
            calls.append((("ExplDec", 0, didx, bid), o2r(od["expl"])))
    if supported[1]:
        calls.append((("ApiEnc", vid, None, eidx), o2r(obs["api_enc_not"])))
    user_m, user_u = [], []
    if with_user:
        # codec(T, marshaller=m, unmarshaller=u, ...): the supplied objects are used as given
        cm = lambda: typelib.codec(T, marshaller=user_marshaller, unmarshaller=user_unmarshaller, **ekw, **dkw)
        wm = call(I, user_marshaller, v)
        user_m = [(vid, wm)]
        if wm[1] not in [w for w, _ in dumps_tbl]:
            dumps_tbl.append((wm[1], call(I, js.dumps, I.objs[wm[1]])))
            if e:
                user_e.append((wm[1], call(I, e, I.objs[wm[1]])))
        xs = list(bids)
        for tb in (loads_tbl, user_d):
            xs += [res[1] for _, res in tb if res[0] == "ok"]
        user_u = [(x, call(I, user_unmarshaller, I.objs[x])) for x in dict.fromkeys(xs)]
        calls.append((("CodecEncM", 0, 2, 3, eidx, didx, vid), o2r(raw(lambda: cm().encode(v)))))
        for bid, b in zip(bids, bs):
            calls.append((("CodecDecM", 0, 2, 3, eidx, didx, bid), o2r(raw(lambda: cm().decode(b)))))
    world = {"mar": mar_tbl, "unm": unm_tbl, "bytes": isb, "class": [(vid, 1)], "dumps": dumps_tbl,
             "loads": loads_tbl, "user": [user_e, user_d, user_m, user_u]}
    return {"world": world, "calls": calls, "supported": supported[0], "obs": obs, "inputs": bs, "T": T, "v": v, "nobj": len(I.objs)}


# ----------------------------------------------------------------------------------
# Coq emission
# ----------------------------------------------------------------------------------

def N(i):
    return f"{i}%N"


def emit_res(r):
    return f"Ok {N(r[1])}" if r[0] == "ok" else f"Raise {r[1]}"


def emit_tbl(t):
    return lib.coq_list([f"({N(k)}, {emit_res(r)})" for k, r in t], "(N * res N)")


def emit_mk(t):
    items = []
    for k, r in t:
        if r[0] == "ok":
            items.append(f"({N(k)}, Ok {emit_tbl(r[1])})")
        else:
            items.append(f"({N(k)}, @Raise tbl {r[1]})")
    return lib.coq_list(items, "(N * res tbl)")


def emit_optnat(i):
    return "None" if i is None else f"(Some {i}%nat)"


def emit_call(c):
    k = c[0]
    if k == "ApiEnc":
        t = "None" if c[2] is None else f"(Some {N(c[2])})"
        return f"ApiEnc {N(c[1])} {t} {emit_optnat(c[3])}"
    if k == "CodecEnc":
        return f"CodecEnc {N(c[1])} {emit_optnat(c[2])} {emit_optnat(c[3])} {N(c[4])}"
    if k == "ExplEnc":
        return f"ExplEnc {N(c[1])} {emit_optnat(c[2])} {N(c[3])}"
    if k == "ApiDec":
        return f"ApiDec {N(c[1])} {N(c[2])} {emit_optnat(c[3])}"
    if k == "CodecDec":
        return f"CodecDec {N(c[1])} {emit_optnat(c[2])} {emit_optnat(c[3])} {N(c[4])}"
    if k == "ExplDec":
        return f"ExplDec {N(c[1])} {emit_optnat(c[2])} {N(c[3])}"
    if k in ("CodecEncM", "CodecDecM"):
        return f"{k} {N(c[1])} {c[2]}%nat {c[3]}%nat {emit_optnat(c[4])} {emit_optnat(c[5])} {N(c[6])}"
    raise ValueError(c)


def emit_case(o) -> str:
    w = o["world"]
    world = ("{| w_mar := %s; w_unm := %s; w_bytes := %s; w_class := %s; w_dumps := %s; w_loads := %s; w_user := %s |}" % (
        emit_mk(w["mar"]), emit_mk(w["unm"]),
        lib.coq_list([f"({N(k)}, {lib.coq_bool(b)})" for k, b in w["bytes"]], "(N * bool)"),
        lib.coq_list([f"({N(k)}, {N(c)})" for k, c in w["class"]], "(N * N)"),
        emit_tbl(w["dumps"]), emit_tbl(w["loads"]), lib.coq_list([emit_tbl(t) for t in w["user"]], "tbl")))
    calls = lib.coq_list([f"({emit_call(c)}, {emit_res(r)})" for c, r in o["calls"]], "(call * res N)")
    return f"({world},\n   {calls})"


HEADER = ("From Coq Require Import List NArith. Import ListNotations.\n"
          "Require Import TL.Model.Codec TL.Model.CodecEq.\n")


def shard_text(observations) -> str:
    return (HEADER + "Definition cases : list case :=\n [ " + ";\n  ".join(emit_case(o) for o in observations) +
            " ].\nEval vm_compute in mismatches case_ok cases.\nEval vm_compute in misses cases.\n")


# ----------------------------------------------------------------------------------
# prove
# ----------------------------------------------------------------------------------

def prove(run: lib.Run):
    # json backend selection (py/compat.py): orjson when importable, else the standard module
    try:
        import orjson
        want = orjson
    except ImportError:
        want = json
    js = backend()
    run.oblige("reflect:compat.json is orjson when importable, else json", js is want,
               f"compat.json = {getattr(js, '__name__', js)!r}, expected {want.__name__}")
    import inspect
    import typelib
    from typelib import codecs
    # defaults of the keyword arguments, read from the live functions (the model's `dflt`)
    probs = []
    for fn, kw, exp in ((typelib.encode, "encoder", js.dumps), (typelib.decode, "decoder", js.loads),
                        (codecs.codec.__wrapped__ if hasattr(codecs.codec, "__wrapped__") else codecs.codec, "encoder", js.dumps),
                        (codecs.codec.__wrapped__ if hasattr(codecs.codec, "__wrapped__") else codecs.codec, "decoder", js.loads)):
        try:
            p = inspect.signature(fn).parameters[kw]
            if p.default is not exp:
                probs.append(f"{fn.__name__}({kw}=...) defaults to {p.default!r}")
        except (KeyError, ValueError, TypeError) as ex:
            probs.append(f"{getattr(fn, '__name__', fn)}: no keyword {kw} ({ex!r})")
    run.oblige("reflect:encoder/decoder keywords default to compat.json.dumps/loads", not probs, "; ".join(probs))
    ok = run.check_props("Props/C02.v", THEOREMS)
    if ok and run.tier == "thorough":
        cmd = ["coqchk", "-silent", "-o", "-Q", lib.THEORIES, "TL", "-Q", run.build, "TLRun", "TLRun.Run_C02"]
        rc, out, err = lib.sh(cmd, timeout=900, cwd=run.build)
        out = out + "\n" + err
        axioms = out.split("* Axioms:", 1)[1].split("*", 1)[0].strip() if "* Axioms:" in out else "?"
        run.oblige("coqchk -o TLRun.Run_C02: re-checked by the standalone checker, Axioms: <none>",
                   rc == 0 and axioms == "<none>", f"rc={rc} axioms={axioms} {err[-300:]}")
        run.checker_cmds.append("coqchk -silent -o -Q coq/theories TL -Q build/C02/thorough TLRun TLRun.Run_C02")
        run.notes.append(f"coqchk axioms: {axioms}")
    run.assumptions += [
        "C02: marshaller/unmarshaller factories and routines, isbytestype, __class__, the JSON backend and every "
        "user-supplied encoder/decoder are Section variables of the codec model (arbitrary functions that may raise); "
        "the theorems hold for all of them",
        "C02_roundtrip assumes C01 for the (T, v) at hand (unmarshal(T, marshal(v, t=T)) == v) and the wire law "
        "decoder(encoder(w)) == w on the encoder's domain; C02_valid_json assumes json.loads(encoder(w)) == w there. "
        "Both laws are sampled on every run for orjson, json and the tagging codec (runtime_laws_sampled)",
        "C02: the model of api.py is the code WITH proposed_fixes/C02-api-bytes-verbatim.diff; api_*_pinned model the pinned code "
        "and are refuted by C02_refuted_api_bytes",
        "C02: codec_cls (user subclass of Codec) and falsy user-supplied marshaller objects are not modelled",
    ]


# ----------------------------------------------------------------------------------
# correspondence
# ----------------------------------------------------------------------------------

def corpus_cases():
    out = []
    for p in sorted(glob.glob(os.path.join(lib.VERIF, "corpus", "C02", "*.json"))):
        d = json.load(open(p))
        for c in (d if isinstance(d, list) else [d]):
            c.setdefault("corpus", os.path.basename(p))
            out.append(c)
    return out


def case_stream(rng: random.Random, n: int, depth: int):
    cs = []
    for c in corpus_cases():
        cs.append((c, c.get("config", "default")))
    i = 0
    while len(cs) < n:
        c = U.gen_case(rng, depth if rng.random() < 0.8 else max(1, depth - 2))
        cs.append((c, CONFIG_ORDER[i % len(CONFIG_ORDER)]))
        i += 1
    return cs


def brief(case, config, o=None):
    d = {"texpr": case["texpr"], "vexpr": case["vexpr"], "config": config, "source": case["source"],
         "inq": case.get("inq"), "c01_safe": case.get("c01_safe"), "union": case.get("union"),
         "bytes_t": case.get("bytes_t")}
    if o is not None:
        d["observed"] = {k: (repr(x[1])[:120] if x[0] == "ok" else f"raise {x[1]} {x[2]}") for k, x in o["obs"].items()
                         if k != "dec"}
    return d


def correspond(run: lib.Run):
    n = run.budget(1600, 40000)
    depth = run.budget(3, 5)
    stream = case_stream(run.rng, n, depth)
    dist = {"head": collections.Counter(), "config": collections.Counter(), "depth": collections.Counter(),
            "flags": collections.Counter(), "encode_result": collections.Counter(),
            "decode_result": collections.Counter()}
    observations, descs, keys = [], [], set()
    nontrivial = 0
    law = collections.Counter()
    for case, config in stream:
        o = observe(case, config, run.rng, with_user=(len(observations) % 5 == 2))
        observations.append(o)
        descs.append(brief(case, config, o))
        dist["head"][case.get("head", "?")] += 1
        dist["config"][config] += 1
        dist["depth"][str(case.get("depth", "?"))] += 1
        dist["flags"]["inq" if case.get("inq") else "outside-quantifier"] += 1
        dist["flags"]["bytes-like T" if case.get("bytes_t") else "other T"] += 1
        dist["flags"]["T supported" if o["supported"] else "T not supported (nothing compared)"] += 1
        ce = o["obs"]["codec_enc"]
        dist["encode_result"]["ok" if ce[0] == "ok" else ce[1]] += 1
        for dd in o["obs"]["dec"]:
            dist["decode_result"]["ok" if dd["codec"][0] == "ok" else dd["codec"][1]] += 1
        k = (case["texpr"], case["vexpr"], config)
        if k not in keys and ce[0] == "ok" and o["supported"]:
            nontrivial += 1
        keys.add(k)
        wire_laws(case, o["T"], o["v"], config, law)
    shards = {}
    size = 400
    for s in range(0, len(observations), size):
        shards[f"cases_codec_{s // size:03d}.v"] = shard_text(observations[s:s + size])
    results = run.coq_eval_many(shards, timeout=900)
    bad, misses = [], 0
    for name in sorted(shards):
        s = int(name[-5:-2]) * size
        r = results[name]
        if r is None or len(r) < 2:
            run.oblige(f"evaluate:{name}", False, "model evaluation did not compile")
            bad += list(range(s, min(s + size, len(observations))))
            continue
        bad += [s + j for j in lib.parse_nat_list(r[0])]
        misses += int(r[1].replace("%nat", "").strip())
    unsup = dist["flags"]["T not supported (nothing compared)"]
    run.oblige("correspondence:at most 3% of the generated T are unsupported (the guard does not hollow out the tie)",
               unsup * 100 <= 3 * len(observations), f"{unsup} of {len(observations)}")
    run.oblige("correspondence:model never asked for an unrecorded table entry", misses == 0, f"{misses} cases with EMiss")
    run.mismatch_cases = [stream[i] for i in bad]
    if bad:
        # diagnostic only: are the disagreements exactly those of api.py without the bytes rule (api_*_pinned)?
        sub = [observations[i] for i in bad[:400]]
        r = run.coq_eval("cases_codec_pinned.v", shard_text(sub).replace("mismatches case_ok cases", "mismatches case_ok_pinned cases"))
        if r is not None:
            still = lib.parse_nat_list(r[0])
            msg = (f"{len(sub) - len(still)} of the first {len(sub)} disagreeing cases agree with the model of the PINNED api.py "
                   "(api_encode_pinned/api_decode_pinned, refuted by C02_refuted_api_bytes): "
                   + ("this tree lacks proposed_fixes/C02-api-bytes-verbatim.diff" if not still else "other changes are present too"))
            run.notes.append(msg)
            run.log(msg)
    run.record_corr("codec", len(observations), [descs[i] for i in bad], nontrivial,
                    {k: dict(v) for k, v in dist.items()} | {
                        "rule": "one case = (T, v, encoder configuration): 4 encode calls + 3 calls per decode input "
                                "(2-7 inputs); non-trivial = distinct (T, v, configuration) on which encoding succeeds",
                        "calls": sum(len(o["calls"]) for o in observations)})
    run.laws.update({k: v for k, v in law.items()})
    bad_laws = {k: v for k, v in law.items() if k.endswith(":violated")}
    run.oblige("laws:encoder/decoder wire law and json.loads law hold on every sampled in-quantifier wire value",
               not bad_laws, json.dumps(bad_laws))
    run.samples.append(descs[0])
    if len(descs) > 7:
        run.samples.append(descs[7])
    # the JSON layer itself (character-level writer / reader model, C02Json) and the end-to-end instance over the core
    # value model (C02Bridge: C01 round trip + JSON theorem => codec round trip with no hypothesis on the JSON layer)
    lib.run_tie(run, jsontie)
    lib.run_tie(run, capstonetie, example=False)      # Capstone_C02_roundtrip (the example replay runs under C01)


def plain_json(w) -> bool:
    """the encoder's domain: what C06 promises marshal() returns, within C02's quantifier"""
    t = type(w)
    if w is None or t is bool or t is str:
        if t is str:
            try:
                w.encode("utf-8")
            except UnicodeEncodeError:
                return False
        return True
    if t is int:
        return -2**63 <= w < 2**63
    if t is float:
        return w == w and w not in (float("inf"), float("-inf"))
    if t is list:
        return all(plain_json(x) for x in w)
    if t is dict:
        return all(type(k) is str and plain_json(k) and plain_json(x) for k, x in w.items())
    return False


def wire_laws(case, T, v, config, law, examples=None):
    import typelib
    e, d = CONFIGS[config]
    if (e is None) != (d is None) or not case.get("inq") or case.get("bytes_t"):
        return
    js = backend()
    enc, dec = (e or js.dumps), (d or js.loads)
    try:
        w = typelib.marshal(v, t=T)
    except Exception:
        return
    if not plain_json(w):
        law["wire value outside the encoder's domain (C06's subject)"] += 1
        return
    try:
        b = enc(w)
        ok1 = json.dumps(U.canon(dec(b))) == json.dumps(U.canon(w))
        payload = bytes(b)[3:] if config == "tag" else b
        ok2 = json.dumps(U.canon(json.loads(payload))) == json.dumps(U.canon(w))
    except Exception as ex:
        ok1 = ok2 = False
    law[f"{config}:dec(enc(w))==w:" + ("held" if ok1 else "violated")] += 1
    law[f"{config}:json.loads(enc(w))==w:" + ("held" if ok2 else "violated")] += 1
    if examples is not None and not (ok1 and ok2) and len(examples) < 5:
        examples.append(brief(case, config))


# ----------------------------------------------------------------------------------
# the property oracle on the implementation (independent of the model)
# ----------------------------------------------------------------------------------

def same(a, b) -> bool:
    return json.dumps(U.canon(a), default=repr) == json.dumps(U.canon(b), default=repr)


def same_out(a, b) -> bool:
    """two raw() results: both values equal with class equality at every position, or the same exception kind"""
    if a[0] != b[0]:
        return False
    if a[0] == "ok":
        return same(a[1], b[1])
    return a[1] == b[1]


def show(o):
    return repr(o[1])[:200] if o[0] == "ok" else f"raises {o[2]}"


def oracle(case: dict, config: str, rng: random.Random, law=None, user_clause=None) -> list[dict]:
    import typelib
    impl.clear_caches()
    _, T, v = U.build(case)
    e, d = CONFIGS[config]
    js = backend()
    ekw = {} if e is None else {"encoder": e}
    dkw = {} if d is None else {"decoder": d}
    enc_f, dec_f = (e or js.dumps), (d or js.loads)
    fails = []

    def fail(clause, symptom, **kw):
        f = dict(brief(case, config), clause=clause, symptom=symptom, **kw)
        f["key"] = json.dumps([clause, symptom, case["texpr"], case["vexpr"], config])
        f["head"] = case.get("head")
        fails.append(f)

    bytes_t = bool(case.get("bytes_t"))
    # "supported T" (c02_guard): both routines can be built; otherwise the property says nothing (C15's subject)
    from typelib import marshals, unmarshals
    if raw(marshals.marshaller, T)[0] != "ok" or raw(unmarshals.unmarshaller, T)[0] != "ok":
        if law is not None:
            law["oracle: T not supported (a routine cannot be built)"] += 1
        return []
    api = raw(typelib.encode, v, t=T, **ekw)
    cdc = raw(lambda: typelib.codec(T, **ekw, **dkw).encode(v))
    mar = raw(typelib.marshal, v, t=T)
    # -- agreement, encode side
    if not same_out(api, cdc):
        fail("agreement-encode", "typelib.encode differs from Codec.encode", api=show(api), codec=show(cdc))
    if not bytes_t:
        exp = raw(lambda: enc_f(typelib.marshal(v, t=T)))
        if not same_out(cdc, exp):
            fail("agreement-encode", "Codec.encode differs from encoder(marshal(v, t=T))", codec=show(cdc), explicit=show(exp))
    else:
        # bytes-like T is carried verbatim: no coder applied, the byte string itself comes out
        if not same_out(cdc, mar):
            fail("bytes-verbatim", "Codec.encode is not marshal(v) for bytes-like T", codec=show(cdc), marshal=show(mar))
        if cdc[0] == "ok" and not (isinstance(cdc[1], (bytes, bytearray, memoryview)) and bytes(cdc[1]) == bytes(v)):
            fail("bytes-verbatim", "Codec.encode changed the bytes", codec=show(cdc))
        if api[0] != "ok" or not (isinstance(api[1], (bytes, bytearray, memoryview)) and bytes(api[1]) == bytes(v)):
            fail("bytes-verbatim", "typelib.encode does not carry bytes-like T verbatim", api=show(api), codec=show(cdc))
    tv = type(v)
    nt = raw(typelib.encode, v, **ekw)
    wt = raw(typelib.encode, v, t=tv, **ekw)
    if not same_out(nt, wt):
        fail("agreement-encode", "typelib.encode(v) differs from typelib.encode(v, t=type(v))", without_t=show(nt), with_t=show(wt))
    # -- agreement, decode side
    encs = [o[1] for o in (api, cdc) if o[0] == "ok"]
    for b in decode_inputs(rng, encs, v, bytes_t):
        a = raw(typelib.decode, T, b, **dkw)
        c = raw(lambda: typelib.codec(T, **ekw, **dkw).decode(b))
        if not same_out(a, c):
            fail("agreement-decode", "typelib.decode differs from Codec.decode", input=repr(b)[:200], api=show(a), codec=show(c))
        if not bytes_t:
            x = raw(lambda: typelib.unmarshal(T, dec_f(b)))
            if not same_out(c, x):
                fail("agreement-decode", "Codec.decode differs from unmarshal(T, decoder(b))", input=repr(b)[:200],
                     codec=show(c), explicit=show(x))
        else:
            x = raw(typelib.unmarshal, T, b)
            if not same_out(c, x):
                fail("bytes-verbatim", "Codec.decode is not unmarshal(T, b) for bytes-like T", input=repr(b)[:200],
                     codec=show(c), explicit=show(x))
    # -- inside the quantifier: valid JSON, round trip
    paired = (e is None) == (d is None)
    if case.get("inq") and not bytes_t:
        c01 = raw(lambda: typelib.unmarshal(T, typelib.marshal(v, t=T)))
        c01_ok = c01[0] == "ok" and same(c01[1], v)
        # where a union / optional / multi-valued literal is involved, which member handles v is C08's subject:
        # these clauses are then demanded only where C01's own statement holds for (T, v)
        in_scope = bool(case.get("c01_safe")) and (c01_ok or not case.get("union"))
        if in_scope:
            wire_ok = mar[0] == "ok" and plain_json(mar[1])
            if wire_ok and law is not None:
                wire_laws(case, T, v, config, law)
            if not wire_ok:
                # json.loads only ever returns dict/list/str/int/float/bool/None: nothing can parse to this value
                fail("valid-json", "marshal(v, t=T) is not plain JSON data (no JSON text parses to it)", marshal=show(mar))
            if cdc[0] != "ok":
                fail("valid-json", "Codec.encode raised for a (T, v) inside the quantifier", codec=show(cdc), marshal=show(mar))
            elif e is None or e is std_dumps:
                if not isinstance(cdc[1], bytes):
                    fail("valid-json", "encoded value is not bytes", codec=show(cdc))
                else:
                    p = raw(json.loads, cdc[1])
                    if not same_out(p, mar):
                        fail("valid-json", "json.loads(encoded) is not marshal(v, t=T)", encoded=show(cdc), parsed=show(p),
                             marshal=show(mar))
            if paired:
                rt = raw(lambda: typelib.codec(T, **ekw, **dkw).decode(typelib.codec(T, **ekw, **dkw).encode(v)))
                if not (rt[0] == "ok" and same(rt[1], v)):
                    fail("roundtrip", "codec(T).decode(codec(T).encode(v)) is not v", got=show(rt), c01_direct_ok=c01_ok,
                         encoded=show(cdc))
    # -- user-supplied marshaller / unmarshaller objects are used as given
    if (rng.random() < 0.1 if user_clause is None else user_clause) and not bytes_t:
        m, u = user_marshaller, user_unmarshaller
        cu = raw(lambda: typelib.codec(T, marshaller=m, unmarshaller=u, **ekw, **dkw).encode(v))
        ex = raw(lambda: enc_f(["M", 1]))
        if not same_out(cu, ex):
            fail("agreement-encode", "codec(T, marshaller=m).encode does not use m", codec=show(cu), explicit=show(ex))
        if ex[0] == "ok" and paired:
            du = raw(lambda: typelib.codec(T, marshaller=m, unmarshaller=u, **ekw, **dkw).decode(ex[1]))
            if not (du[0] == "ok" and same(du[1], ("U", ["M", 1]))):
                fail("agreement-decode", "codec(T, unmarshaller=u).decode does not use u", codec=show(du))
    return fails


def search(run: lib.Run, broken):
    rng = random.Random(run.seed + 2)
    n = run.budget(700, 12000)
    if broken:
        n = run.budget(2500, 12000)
    depth = run.budget(3, 5)
    sweep = [(c, cfg) for c in U.sweep_cases(rng) + U.bytes_sweep_cases(rng) for cfg in ("stdlib", "default", "tag")]
    stream = list(getattr(run, "mismatch_cases", []))[:200] + sweep + case_stream(rng, n, depth)
    fails, nev, nrt = [], 0, 0
    law = collections.Counter()
    clauses = collections.Counter()
    for case, config in stream:
        try:
            fs = oracle(case, config, rng, law)
        except Exception as ex:     # a case the harness cannot even build
            fs = [dict(brief(case, config), clause="harness", symptom=f"oracle crashed: {ex!r}",
                       key=json.dumps(["harness", case["texpr"], case["vexpr"]]))]
        nev += 1
        nrt += bool(case.get("inq") and case.get("c01_safe"))
        for f in fs:
            clauses[f["clause"]] += 1
        fails += fs
    # the same bare string reference issued from several modules in one process (histories, no cache clearing)
    nmod, mod_fails = c02_modules.check(full=(run.tier == "thorough" or bool(broken)))
    for f in mod_fails:
        clauses[f["clause"]] += 1
    # values of different declared types that are == and hash-equal, as histories in one process (no cache clearing)
    bad_fam = c02_families.family_ok()
    run.oblige("c02:equal-value families are pairwise == and hash-equal on this interpreter", not bad_fam, repr(bad_fam[:3]))
    nfam, fam_fails = c02_families.check(full=True)
    for f in fam_fails:
        clauses[f["clause"]] += 1
    mod_fails = mod_fails + fam_fails
    nmod += nfam
    # shrink: per (clause, symptom, head, config) keep the smallest case
    best = {}
    for f in fails:
        k = (f["clause"], f["symptom"], f.get("head"), f["config"] if f["clause"] != "bytes-verbatim" else "")
        size = (len(f["source"]) + len(f["texpr"]) + len(f["vexpr"]), f["config"] != "default")
        if k not in best or size < best[k][0]:
            best[k] = (size, f)
    out = [v[1] for v in sorted(best.values(), key=lambda v: v[0])] + mod_fails[:3]
    for k, v in law.items():
        run.laws["oracle:" + k] = v
    run.search_stats["oracle"] = {
        "evaluations": nev + nmod, "distinct_nontrivial": nrt, "structured_sweep_cases": len(sweep), "string_ref_module_histories": nmod - nfam, "equal_value_histories": nfam,
        "structured_sweep": "every structured flavour (dataclass plain/slots/frozen/kw_only, NamedTuple, TypedDict total/non-total, "
                            "annotated plain class, __slots__ class) x member kinds whose marshalled form differs from the value "
                            "(Decimal, Fraction, UUID, Path, date, datetime, time, timedelta, enum, nested structured of 4 flavours, "
                            "list/dict/Optional/tuple/set of those) x {stdlib json, default, tagging} coder pairs", "failures": len(fails), "failures_by_clause": dict(clauses),
        "rule": "each case: the encode entry points pairwise, typelib.encode with and without t, the decode entry points "
                "pairwise on 2-7 inputs (produced bytes, damaged, foreign JSON, str/bytearray/memoryview carriers), "
                "bytes-like T verbatim, json.loads(encoded) == marshal(v), decode(encode(v)) == v where C01 is not "
                "known to fail; non-trivial = inside the quantifier and round trip demanded",
        "c01_exclusions": U.C01_EXCLUSIONS,
    }
    if out:
        run.samples.append({"oracle_failure": {k: v for k, v in out[0].items() if k != "source"}})
    return out


# ----------------------------------------------------------------------------------
# known findings / replay
# ----------------------------------------------------------------------------------

def replay(payload):
    if payload.get("kind") == "c02-string-ref-modules":
        return c02_modules.replay(payload)
    if payload.get("kind") == "c02-equal-value-history":
        return c02_families.replay(payload)
    case = {k: payload[k] for k in ("source", "texpr", "vexpr")}
    for k in ("inq", "c01_safe", "union", "bytes_t", "head"):
        case[k] = payload.get(k)
    fs = oracle(case, payload.get("config", "default"), random.Random(payload.get("seed", 0)), user_clause=True)
    if payload.get("clause"):
        fs = [f for f in fs if f["clause"] == payload["clause"]] or fs
    return {"fails": bool(fs), "failures": [{k: v for k, v in f.items() if k != "source"} for f in fs]}


def reproduces(entry):
    return replay(entry["replay"])["fails"]


def matches(entry, failure):
    m = entry.get("matches", {})
    return all(failure.get(k) == v for k, v in m.items())
